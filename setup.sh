#!/bin/bash
# Run once after a fresh restore, offline: pre-warms the Go build cache (std with and
# without -race, the harness and the library with the verif tag) and builds the supervisor.
set -e
cd /verif
export GOFLAGS=-mod=mod GOPROXY=off GOSUMDB=off GOTOOLCHAIN=local
mkdir -p harness/bin .work evidence replay
( cd harness && go build -o bin/supervisor ./cmd/supervisor && go build -tags verif -o /dev/null ./cmd/worker && go build -race -tags verif -o /dev/null ./cmd/worker )
echo "setup ok"
