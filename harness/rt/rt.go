// Package rt is the worker-side runtime of the verification harness: case
// sequencing and sharding, write-ahead case log, per-case PRNG, panic capture,
// violation and coverage reporting, and the no-progress monitor.
//
// A worker process executes the cases (seq mod nshards == shard) of one
// property. Every case is announced in the shard log before it runs, so that
// the supervisor can attribute a process death (stack exhaustion, out of
// memory, any fatal error) to the case that caused it.
package rt

import (
	"bufio"
	"crypto/sha256"
	"encoding/binary"
	"encoding/json"
	"fmt"
	"math/rand/v2"
	"os"
	"path/filepath"
	"runtime"
	"runtime/debug"
	"sort"
	"strings"
	"sync"
	"sync/atomic"
	"time"
)

// Progress is incremented by every monitor event (interpreter step, reader
// call, finished case). The no-progress monitor watches it.
var Progress atomic.Uint64

// Violation is one oracle failure.
type Violation struct {
	Seq         int64  `json:"seq"`
	CaseID      string `json:"case"`
	Fingerprint string `json:"fingerprint"`
	Msg         string `json:"msg"`
	Detail      string `json:"detail,omitempty"`
}

// Runner drives the cases of one property in one worker process.
type Runner struct {
	Prop    string
	Tier    string
	Seed    uint64
	Shard   int
	NShards int
	From    int64 // skip cases with seq < From (restart after a crash)
	Only    int64 // >= 0: run only this case (replay)
	Verbose bool
	LogDir  string // directory of the shard log (scratch space for child processes)

	seq      int64
	sinceP   int
	log      *os.File
	hashes   *bufio.Writer
	hashFile *os.File

	mu         sync.Mutex
	counters   map[string]int64
	evals      int64
	nontrivial map[uint64]struct{}
	samples    []string
	violations int64
	vioSeen    map[string]int

	cur atomic.Pointer[C]
}

// C is the context of one running case.
type C struct {
	r       *Runner
	Seq     int64
	ID      string
	rng     *rand.Rand
	detail  func() string
	skipped bool
	evals   int64
}

// Eval counts one evaluation inside a case that batches many (a case with no
// Eval call counts as one evaluation).
func (c *C) Eval() { c.evals++ }

// Quick reports whether the tier is "quick".
func (r *Runner) Quick() bool { return r.Tier != "thorough" }

// N picks the quick or thorough size.
func (r *Runner) N(quick, thorough int) int {
	if r.Quick() {
		return quick
	}
	return thorough
}

// Open prepares the shard log files.
func (r *Runner) Open(logPath string) error {
	f, err := os.OpenFile(logPath, os.O_CREATE|os.O_WRONLY|os.O_APPEND, 0o644)
	if err != nil {
		return err
	}
	r.log = f
	r.LogDir = filepath.Dir(logPath)
	hf, err := os.OpenFile(logPath+".hashes", os.O_CREATE|os.O_WRONLY|os.O_APPEND, 0o644)
	if err != nil {
		return err
	}
	r.hashFile = hf
	r.hashes = bufio.NewWriterSize(hf, 1<<16)
	r.counters = map[string]int64{}
	r.nontrivial = map[uint64]struct{}{}
	r.vioSeen = map[string]int{}
	return nil
}

func (r *Runner) writeLog(kind string, v any) {
	b, err := json.Marshal(v)
	if err != nil {
		b = []byte(fmt.Sprintf("%q", err.Error()))
	}
	line := make([]byte, 0, len(b)+4)
	line = append(line, kind...)
	line = append(line, ' ')
	line = append(line, b...)
	line = append(line, '\n')
	r.log.Write(line)
}

// Case runs one case if it belongs to this shard. id names the case class
// (used in witnesses); f receives the case context. The case's random stream
// depends only on (seed, property, seq), so a replay of a single case sees the
// same stream.
// AfterCase, when set, runs after every case (inside the same panic capture):
// monitors of process-wide state that no single call returns.
var AfterCase func(c *C)

func (r *Runner) Case(id string, f func(c *C)) {
	seq := r.seq
	r.seq++
	if r.Only >= 0 {
		if seq != r.Only {
			return
		}
	} else {
		if seq < r.From || int(seq%int64(r.NShards)) != r.Shard {
			return
		}
	}
	c := &C{r: r, Seq: seq, ID: id}
	h := sha256.Sum256([]byte(fmt.Sprintf("%s|%d|%d", r.Prop, r.Seed, seq)))
	c.rng = rand.New(rand.NewPCG(binary.LittleEndian.Uint64(h[:8]), binary.LittleEndian.Uint64(h[8:16])))
	// write-ahead record
	fmt.Fprintf(r.log, "B %d %s\n", seq, id)
	r.cur.Store(c)
	func() {
		defer func() {
			if p := recover(); p != nil {
				st := string(debug.Stack())
				c.Violation("panic:"+TopLibFrame(st), fmt.Sprintf("panic: %v", p), st)
			}
		}()
		f(c)
		if AfterCase != nil {
			AfterCase(c)
		}
	}()
	r.cur.Store(nil)
	r.sinceP++
	if r.sinceP >= 2048 {
		r.sinceP = 0
		r.mu.Lock()
		r.hashes.Flush()
		r.writeLog("P", Summary{Evaluations: r.evals, Counters: r.counters, Samples: r.samples, Violations: r.violations, Cases: r.seq})
		r.mu.Unlock()
	}
	r.mu.Lock()
	if c.evals > 0 {
		r.evals += c.evals
	} else if !c.skipped {
		r.evals++
	}
	r.mu.Unlock()
	Progress.Add(1)
}

// Mine reports whether the next case belongs to this worker, without
// consuming it. Generators use it to avoid building inputs for other shards.
func (r *Runner) Mine() bool {
	seq := r.seq
	if r.Only >= 0 {
		return seq == r.Only
	}
	return seq >= r.From && int(seq%int64(r.NShards)) == r.Shard
}

// SkipCase consumes a sequence number without running anything.
func (r *Runner) SkipCase() { r.seq++ }

// Rand returns the case's PRNG.
func (c *C) Rand() *rand.Rand { return c.rng }

// SetDetail installs a lazily rendered description of the case input, stored
// with violations (and printed on replay).
func (c *C) SetDetail(f func() string) {
	c.detail = f
	if c.r.Verbose {
		fmt.Printf("CASE seq=%d case=%s\n%s\n", c.Seq, c.ID, f())
		os.Stdout.Sync()
	}
}

// Count increments a coverage counter.
func (c *C) Count(name string) { c.r.Count(name, 1) }

// Count increments a coverage counter.
func (r *Runner) Count(name string, n int64) {
	r.mu.Lock()
	r.counters[name] += n
	r.mu.Unlock()
}

// Max records the maximum of a gauge.
func (r *Runner) Max(name string, v int64) {
	r.mu.Lock()
	if old, ok := r.counters["max:"+name]; !ok || v > old {
		r.counters["max:"+name] = v
	}
	r.mu.Unlock()
}

// Skip marks the case as outside the property's domain (not an evaluation).
func (c *C) Skip(reason string) {
	c.skipped = true
	c.r.Count("skipped:"+reason, 1)
}

// Nontrivial marks the case non-trivial by the property's rule. key is the
// content the distinctness is judged on.
func (c *C) Nontrivial(key []byte, sample func() string) {
	h := sha256.Sum256(key)
	k := binary.LittleEndian.Uint64(h[:8])
	r := c.r
	r.mu.Lock()
	defer r.mu.Unlock()
	if _, ok := r.nontrivial[k]; ok {
		return
	}
	r.nontrivial[k] = struct{}{}
	var b [8]byte
	binary.LittleEndian.PutUint64(b[:], k)
	r.hashes.Write(b[:])
	if len(r.samples) < 4 && sample != nil {
		s := sample()
		if len(s) > 600 {
			s = s[:600] + "…"
		}
		r.samples = append(r.samples, s)
	}
}

// Violation reports an oracle failure for the current case.
func (c *C) Violation(fingerprint, msg, extra string) {
	r := c.r
	r.mu.Lock()
	r.violations++
	n := r.vioSeen[fingerprint]
	r.vioSeen[fingerprint] = n + 1
	tooMany := len(r.vioSeen) > 300
	r.mu.Unlock()
	if n >= 3 || tooMany { // at most three witnesses per fingerprint, 300 fingerprints per shard
		return
	}
	det := extra
	if c.detail != nil {
		func() {
			defer func() { recover() }()
			det = c.detail() + "\n" + extra
		}()
	}
	if len(det) > 20000 {
		det = det[:20000] + "…(truncated)"
	}
	v := Violation{Seq: c.Seq, CaseID: c.ID, Fingerprint: fingerprint, Msg: msg, Detail: det}
	r.writeLog("V", v)
	if r.Verbose {
		fmt.Printf("VIOLATION-DETAIL seq=%d case=%s fingerprint=%s\n%s\n%s\n", c.Seq, c.ID, fingerprint, msg, det)
	}
}

// Inconclusive records that a monitor could not decide a case.
func (c *C) Inconclusive(reason string) {
	c.r.Count("inconclusive:"+reason, 1)
}

// Summary is the final record of a shard.
type Summary struct {
	Evaluations int64            `json:"evaluations"`
	Counters    map[string]int64 `json:"counters"`
	Samples     []string         `json:"samples"`
	Violations  int64            `json:"violations"`
	Cases       int64            `json:"cases_total"`
}

// Close writes the summary record.
func (r *Runner) Close() {
	r.hashes.Flush()
	r.hashFile.Close()
	r.writeLog("S", Summary{Evaluations: r.evals, Counters: r.counters, Samples: r.samples, Violations: r.violations, Cases: r.seq})
	r.log.Close()
}

// TopLibFrame extracts the first frame of the library under test from a stack.
func TopLibFrame(stack string) string {
	lines := strings.Split(stack, "\n")
	for _, l := range lines {
		l = strings.TrimSpace(l)
		if strings.HasPrefix(l, "seehuhn.de/go/postscript") {
			if i := strings.LastIndex(l, "("); i > 0 {
				l = l[:i]
			}
			return l
		}
	}
	return "?"
}

// StartNoProgressMonitor starts a goroutine that ends the process with exit
// code 3 (after dumping all stacks and logging an H record) when no progress
// event was seen for the given duration while a case was running.
func (r *Runner) StartNoProgressMonitor(d time.Duration) {
	go func() {
		last := Progress.Load()
		lastChange := time.Now()
		for {
			time.Sleep(2 * time.Second)
			cur := Progress.Load()
			if cur != last {
				last = cur
				lastChange = time.Now()
				continue
			}
			if time.Since(lastChange) > d {
				c := r.cur.Load()
				seq := int64(-1)
				id := ""
				if c != nil {
					seq, id = c.Seq, c.ID
				}
				buf := make([]byte, 1<<20)
				n := runtime.Stack(buf, true)
				fmt.Fprintf(r.log, "H %d %s\n", seq, id)
				os.Stderr.Write(buf[:n])
				os.Exit(3)
			}
		}
	}()
}

// SortedKeys returns the sorted keys of a string-keyed map.
func SortedKeys[V any](m map[string]V) []string {
	keys := make([]string, 0, len(m))
	for k := range m {
		keys = append(keys, k)
	}
	sort.Strings(keys)
	return keys
}

// Runner returns the runner the case belongs to.
func (c *C) Runner() *Runner { return c.r }
