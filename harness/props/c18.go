package props

// C18 — Interpreter instances are isolated and the library is free of data races.
//
// (a) Isolation: a fixed probe battery (programs in fresh interpreters,
//     ReadCMap, type1.Read in all containers, afm.Read, all writers, name
//     look-ups) is digested in the pristine process; after every history of
//     hostile programs run in other instances the battery must give the same
//     digest.
// (b) Races: this worker is built with -race. Fresh child processes start 16
//     goroutines from a barrier; each runs a seeded mix of interpreter runs,
//     readers, writers on shared values and name look-ups, the first calls
//     aimed at the three lazily built name tables. The race detector's reports
//     are collected by the supervisor; every concurrent result is compared
//     with the sequential result of the same call.

import (
	"bufio"
	"bytes"
	"fmt"
	"math/rand/v2"
	"os"
	"os/exec"
	"path/filepath"
	"sort"
	"strings"
	"sync"
	"time"

	"seehuhn.de/go/postscript"
	"seehuhn.de/go/postscript/afm"
	"seehuhn.de/go/postscript/type1"
	"seehuhn.de/go/postscript/type1/names"

	"verif/harness/mon"
	"verif/harness/ref"
	"verif/harness/rt"
)

func init() { register("C18", runC18) }

// callSpec is one library call with fixed arguments.
type callSpec struct {
	name string
	run  func() string
}

// buildCalls creates the fixed call list (same in every process for a seed).
func buildCalls(seed uint64, env *psEnv) []callSpec {
	rng := rand.New(rand.NewPCG(seed, 0x5eed))
	var calls []callSpec
	add := func(name string, f func() string) { calls = append(calls, callSpec{name, f}) }
	// shared values (only read by the writers)
	o := &fontOpts{maxGlyphs: 20, fractional: true, hostileStr: true}
	font := genFont(rng, o)
	metrics := genMetrics(rng, &afmOpts{representable: true}, 25)
	save := wildModel
	wildModel = false
	var fontFiles [][]byte
	for _, cont := range []string{"pfa", "bin", "pfb", "plain"} {
		mf := genModelFont(rng)
		mf.lay.Container = cont
		fontFiles = append(fontFiles, ref.RenderType1(rng, mf.w, mf.lay))
	}
	wildModel = save
	var cmapFiles [][]byte
	for i := 0; i < 3; i++ {
		cmapFiles = append(cmapFiles, ref.RenderFile(rng, []*ref.MCMap{ref.GenCMap(rng, fmt.Sprintf("Probe%d", i))}))
	}
	var afmFile bytes.Buffer
	metrics.Write(&afmFile)
	afmBytes := append([]byte(nil), afmFile.Bytes()...)
	var progs []string
	for i := 0; i < 12; i++ {
		g := &g3{rng: rng, feat: map[string]bool{}, maxD: 2}
		progs = append(progs, ref.RenderTokens(g.body(0, 0)))
	}
	// runs ending by the budget, by the limits, and inside eexec sections (their error texts are part of the result)
	progs = append(progs, "{ } loop", "1 2 add\n\n{ } loop", "/p { p 1 } def p", "{ 1 } loop", "{ 1 dict begin } loop",
		"currentfile eexec\n"+hexSection("/x 1 def 1 (a) add "), "currentfile eexec\n"+hexSection("/x 1 def currentfile closefile\n")+"\n/y 2 def x y add",
		"/x (plain text after other runs) def x length")
	// procedures bound in a fresh instance pick up that instance's operators
	progs = append(progs, "7 3 { sub } bind exec 7 3 { add } bind exec 2 3 { mul } bind exec 4 { dup } bind exec 1 2 { exch } bind exec -5 { abs } bind exec",
		"{ pop eq ne and or not index roll length get } bind dup length exch 0 get", "/q { 1 2 add 3 sub } bind def q /q load 2 get", "true false { and } bind exec true false { or } bind exec 5 5 { eq } bind exec 5 5 { ne } bind exec")
	progs = append(progs, "<< /a 1 >> dup eq << >> << >> eq userdict systemdict ne << /0 1 >> << /x 1 >> eq 5 dict dup ne", "userdict userdict eq systemdict dup ne")
	progs = append(progs, "1 2 add", "StandardEncoding 65 get", "/CIDInit /ProcSet findresource length", "errordict length", "systemdict /add known",
		"[ 1 2 3 ] { 2 mul } forall", "/x { 1 (a) add } def x", "FontDirectory length", "(abc) dup 0 get exch length")
	for i, p := range progs {
		p := p
		add(fmt.Sprintf("Execute#%d", i), func() string {
			intp := postscript.NewInterpreter()
			intp.MaxOps = 100000
			err := intp.ExecuteString(p)
			return sha([]byte(libStateDigest(env.bt, intp))) + fmt.Sprintf("/%v", err)
		})
	}
	// every operator with typical operands: the objects it returns are probed
	// (Probe/…) and written into (Scribble/…, not part of the isolation battery)
	for vi, progs := range scribblePrograms(false) {
		progs := progs
		add(fmt.Sprintf("Probe/operands#%d", vi), func() string { return runBatch(env, progs) })
	}
	// every operator found at run time, whatever it returns (a mode or a counter
	// kept outside the interpreter instance shows in a scalar result)
	for vi, args := range []string{"", "1", "true", "(x)", "1 2", "/a 1"} {
		var progs []string
		for _, k := range systemDictKeys() {
			progs = append(progs, args+" "+k, args+" "+k+" "+k)
		}
		add(fmt.Sprintf("Probe/every-operator#%d", vi), func() string { return runBatch(env, progs) })
	}
	// the same programs one by one, with and without the writes, for the concurrent workload
	for _, scribble := range []bool{false, true} {
		for vi, progs := range scribblePrograms(scribble) {
			for pi, p := range progs {
				one := []string{p}
				add(fmt.Sprintf("Single/%v/%d/%d", scribble, vi, pi), func() string { return runBatch(env, one) })
			}
		}
	}
	for i, b := range cmapFiles {
		b := b
		add(fmt.Sprintf("ReadCMap#%d", i), func() string { d, err := runEntry(env, kCMap, bytes.NewReader(b)); return d + fmt.Sprintf("/%v", err) })
	}
	for i, b := range fontFiles {
		b := b
		add(fmt.Sprintf("type1.Read#%d", i), func() string { d, err := runEntry(env, kType1, bytes.NewReader(b)); return d + fmt.Sprintf("/%v", err) })
	}
	add("afm.Read", func() string {
		d, err := runEntry(env, kAFM, bytes.NewReader(afmBytes))
		return d + fmt.Sprintf("/%v", err)
	})
	for _, fm := range allFormats {
		fm := fm
		add("Font.Write/"+fm.name, func() string {
			var buf bytes.Buffer
			err := font.Write(&buf, &type1.WriterOptions{Format: fm.f})
			return sha(buf.Bytes()) + fmt.Sprintf("/%v", err)
		})
	}
	// one options value shared by every call and goroutine, left at its documented default
	sharedOpts := &type1.WriterOptions{}
	add("Font.Write/shared-default-options", func() string {
		var buf bytes.Buffer
		err := font.Write(&buf, sharedOpts)
		return sha(buf.Bytes()) + fmt.Sprintf("/%v/%+v", err, *sharedOpts)
	})
	add("Font.WritePDF", func() string {
		var buf bytes.Buffer
		l1, l2, err := font.WritePDF(&buf)
		return sha(buf.Bytes()) + fmt.Sprintf("/%d/%d/%v", l1, l2, err)
	})
	add("Metrics.Write", func() string {
		var buf bytes.Buffer
		err := metrics.Write(&buf)
		return sha(buf.Bytes()) + fmt.Sprintf("/%v", err)
	})
	add("Font.queries", func() string {
		return sha([]byte(fmt.Sprint(font.GlyphList(), font.FontBBoxPDF(), font.NumGlyphs(), metrics.GlyphList(), metrics.FontBBoxPDF())))
	})
	// creation dates in zones the writer has to re-spell (no abbreviation, odd
	// abbreviations, offsets of odd minutes): a table of such zones kept by the
	// writer would be filled on first use - here by several goroutines at once
	for zi, zone := range []struct {
		name string
		off  int
	}{{"", 5400}, {"", -12600}, {"x", 3600}, {"+0130", 5400}, {"GMT", 7200}, {"", 20700}, {"Local", -1800}, {"", 0}, {"", 45 * 60}, {"ab", -7 * 3600}} {
		zf := *font
		zf.CreationDate = time.Date(2021, 3, 4, 5, 6, 7, 0, time.FixedZone(zone.name, zone.off))
		zfp := &zf
		zi := zi
		add(fmt.Sprintf("Font.Write/odd-zone#%d", zi), func() string {
			var buf bytes.Buffer
			err := zfp.Write(&buf, &type1.WriterOptions{Format: type1.FormatPFA})
			return sha(buf.Bytes()) + fmt.Sprintf("/%v", err)
		})
	}
	nameArgs := []string{"A", "space", "a100", "Tcommaaccent", "uni20AC0308", "u1F600", "f_f_i", "dalethatafpatah", "a9.alt", "nonexistent", "Aacute_B.sc", ".notdef", "a1_a2", "a3_f_a4", "a100_a100", "A_a7_B"}
	// the caller owns what ToUnicode returns: every result is written into
	// after it has been looked at (a result that is the table's own memory then
	// shows in later results, and as a data race in the concurrent workload)
	toUni := func(n string, dingbats bool) string {
		res := names.ToUnicode(n, dingbats)
		out := fmt.Sprint(res)
		for i := range res {
			res[i] = 'X'
		}
		return out
	}
	for _, n := range nameArgs {
		n := n
		add("ToUnicode/dingbats/"+n, func() string { return toUni(n, true) })
		add("ToUnicode/"+n, func() string { return toUni(n, false) })
		add("IsValid/"+n, func() string { return fmt.Sprint(names.IsValid(n)) })
	}
	for _, r := range []rune{'A', 0x20AC, 0x0132, 0x1F600, 0xFB01, 0x2026, 0x10FFFF, 0} {
		r := r
		add(fmt.Sprintf("FromUnicode/U+%04X", r), func() string { return names.FromUnicode(r) })
	}
	return calls
}

// scribbleDef defines scr: write into a composite object (first and last
// array slot, a new dictionary key, the first byte of a string).
const scribbleDef = `/scr { dup type dup /arraytype eq
  { pop dup length 0 ne { dup 0 /hacked put dup dup length 1 sub 42 put } if pop }
  { dup /dicttype eq { pop dup /hacked 1 put pop } { /stringtype eq { dup length 0 ne { dup 0 88 put } if pop } { pop } ifelse } ifelse }
  ifelse } def
`

var scribbleOperands = []string{"", "6", "/a", "(abc)", "[ 1 2 ]", "3 dict", "/CIDInit /ProcSet", "1183615869", "{ 1 2 }", "mark 1 2", "/StandardEncoding", "2 1"}

// scribblePrograms returns, per operand variant, one program for every name
// in systemdict (found at run time): the operands, the name and - with
// scribble set - a loop that writes into every composite object left on the
// operand stack. Further programs write into the values of the built-in
// dictionaries.
func scribblePrograms(scribble bool) [][]string {
	probe := postscript.NewInterpreter()
	var keys []string
	for k := range probe.SystemDict {
		keys = append(keys, string(k))
	}
	sort.Strings(keys)
	tail := ""
	if scribble {
		tail = " count { scr } repeat"
	}
	var out [][]string
	for _, args := range scribbleOperands {
		var progs []string
		for _, k := range keys {
			// only programs that leave a composite object on the operand stack are of interest
			t := postscript.NewInterpreter()
			t.MaxOps = 20000
			t.ExecuteString(args + " " + k)
			composite := false
			for _, o := range t.Stack {
				switch o.(type) {
				case postscript.Array, postscript.Procedure, postscript.Dict, postscript.String:
					composite = true
				}
			}
			if composite {
				progs = append(progs, scribbleDef+args+" "+k+tail)
			}
		}
		out = append(out, progs)
	}
	// the values held by the built-in dictionaries, one program per entry
	var progs []string
	cid, _ := probe.Resources["ProcSet"].(postscript.Dict)["CIDInit"].(postscript.Dict)
	for _, d := range []struct {
		expr string
		dict postscript.Dict
	}{{"errordict", probe.ErrorDict}, {"/CIDInit /ProcSet findresource", cid}, {"systemdict", probe.SystemDict}} {
		var ks []string
		for k := range d.dict {
			if psName(string(k)) == string(k) {
				ks = append(ks, string(k))
			}
		}
		sort.Strings(ks)
		for _, k := range ks {
			if scribble {
				progs = append(progs, scribbleDef+d.expr+" /"+k+" get scr")
			} else {
				progs = append(progs, d.expr+" /"+k+" get")
			}
		}
	}
	for _, d := range []string{"userdict", "FontDirectory", "1183615869 internaldict", "StandardEncoding", "errordict", "systemdict", "/CIDInit /ProcSet findresource"} {
		if scribble {
			progs = append(progs, scribbleDef+d+" scr")
		} else {
			progs = append(progs, d)
		}
	}
	out = append(out, progs)
	return out
}

// runBatch runs every program in a fresh interpreter and digests the final states.
func runBatch(env *psEnv, progs []string) string {
	var sb strings.Builder
	for _, p := range progs {
		intp := postscript.NewInterpreter()
		intp.MaxOps = 20000
		err := intp.ExecuteString(p)
		// the objects of interest are on the operand stack
		d := newLibDigester(env.bt)
		for _, o := range intp.Stack {
			d.obj(o)
		}
		fmt.Fprintf(&sb, "%s/%d/%v\n", d.sb.String(), len(intp.DictStack), err)
	}
	return sha([]byte(sb.String()))
}

// systemDictKeys returns the names found in a fresh instance's systemdict.
func systemDictKeys() []string {
	probe := postscript.NewInterpreter()
	var keys []string
	for k := range probe.SystemDict {
		keys = append(keys, string(k))
	}
	sort.Strings(keys)
	return keys
}

// c18CallEveryOperator calls every operator found at run time with operands
// that would switch a mode or move a counter, each in an instance of its own.
func c18CallEveryOperator(rng *rand.Rand) {
	tuples := []string{"true", "false", "1", "7", "(x)", "/n", "1 2", "true true", "/n true", "(x) 3", "[ 1 ]", "2 dict", ""}
	for _, k := range systemDictKeys() {
		for i := 0; i < 3; i++ {
			intp := postscript.NewInterpreter()
			intp.MaxOps = 20000
			intp.ExecuteString(tuples[rng.IntN(len(tuples))] + " " + k)
		}
	}
}

// hostilePrograms returns programs that try to damage shared state.
func hostilePrograms(rng *rand.Rand) []string {
	probe := postscript.NewInterpreter()
	var sysKeys, cidKeys, errKeys []string
	for k := range probe.SystemDict {
		sysKeys = append(sysKeys, string(k))
	}
	sort.Strings(sysKeys)
	if ps, ok := probe.Resources["ProcSet"].(postscript.Dict); ok {
		if ci, ok := ps["CIDInit"].(postscript.Dict); ok {
			for k := range ci {
				cidKeys = append(cidKeys, string(k))
			}
		}
	}
	sort.Strings(cidKeys)
	for k := range probe.ErrorDict {
		errKeys = append(errKeys, string(k))
	}
	sort.Strings(errKeys)
	var out []string
	var sb strings.Builder
	// overwrite every operator name in systemdict (in an order that keeps `put` usable)
	sb.WriteString("/sd systemdict def /myput /put load def\n")
	for _, k := range sysKeys {
		if k == "put" {
			continue
		}
		fmt.Fprintf(&sb, "sd /%s { (hacked) } myput\n", psName(k))
	}
	sb.WriteString("sd /put 0 myput\n")
	out = append(out, sb.String())
	sb.Reset()
	sb.WriteString("0 1 255 { StandardEncoding exch /hacked put } for StandardEncoding 65 /Z put\n")
	out = append(out, sb.String())
	sb.Reset()
	sb.WriteString("/CIDInit /ProcSet findresource begin\n")
	for _, k := range cidKeys {
		fmt.Fprintf(&sb, "/%s { pop } def\n", psName(k))
	}
	sb.WriteString("/extra 1 def end\n")
	out = append(out, sb.String())
	sb.Reset()
	for _, k := range errKeys {
		fmt.Fprintf(&sb, "errordict /%s { (swallowed) } put\n", psName(k))
	}
	sb.WriteString("1 (a) add undefinedname\n")
	out = append(out, sb.String())
	out = append(out,
		"/Junk 5 dict definefont pop /Junk2 << /FontType 1 >> /Font defineresource pop /J3 << /a 1 >> /CIDFont defineresource pop",
		"userdict /A 1 put 10 { 3 dict begin } repeat /leak true def",
		"/CIDInit /ProcSet findresource begin 12 dict begin begincmap /CMapName /Evil def 1 begincodespacerange <00> <ff> endcodespacerange endcmap CMapName currentdict /CMap defineresource pop",
		"systemdict /StandardEncoding [ 1 2 3 ] put systemdict /FontDirectory 5 dict put systemdict /userdict 1 put systemdict /errordict 3 dict put",
		"FontDirectory /Times << /FontType 1 /hacked true >> put systemdict /true false put systemdict /false true put",
		"1183615869 internaldict /secret (x) put",
		"/CIDInit /ProcSet findresource dup /begincmap undefinedname put",
	)
	// operators of systemdict replaced by OTHER operators (and by procedures), and
	// then met by bind, by name lookup and by load in the same instance
	{
		ops := []string{"add", "sub", "mul", "exch", "dup", "pop", "eq", "ne", "and", "or", "not", "abs", "index", "roll", "length", "get"}
		sb.Reset()
		sb.WriteString("/sd systemdict def /ld /load load def /pt /put load def\n")
		for i, k := range ops {
			other := ops[(i+1+rng.IntN(len(ops)-1))%len(ops)]
			if rng.IntN(4) == 0 {
				fmt.Fprintf(&sb, "sd /%s { (hacked) } pt\n", k)
			} else {
				fmt.Fprintf(&sb, "sd /%s /%s ld pt\n", k, other)
			}
		}
		sb.WriteString("{ add sub mul exch dup pop eq ne and or not abs index roll length get } bind pop\n/q { 7 3 sub 7 3 add 2 3 mul } bind def q\n/sub load /add load /mul load\n")
		out = append(out, sb.String())
		sb.Reset()
	}
	// write into the objects returned by operators and held by the built-in dictionaries
	sp := scribblePrograms(true)
	for i := 0; i < 24; i++ {
		v := sp[rng.IntN(len(sp))]
		if i%2 == 0 {
			v = sp[len(sp)-1] // the values held by the built-in dictionaries
		}
		if len(v) > 0 {
			out = append(out, v[rng.IntN(len(v))])
		}
	}
	// programs that fail inside an eexec section, and runs that end by the budget
	out = append(out,
		"currentfile eexec\n"+hexSection("/x 1 def 1 (a) add "),
		"currentfile eexec\n"+hexSection("{ } loop "),
		"3 dict begin currentfile eexec\n"+hexSection("/y 2 def nosuchname ")+"\n/after 1 def",
		"currentfile eexec\nzz not hex at all",
		"currentfile eexec\n"+string(ref.Encrypt([]byte("\x00\x00\x00\x001 (a) add "), 55665, nil)),
		"{ } loop", "/p { p } def p", "{ 1 } loop",
		"%%Title: x\n{ } loop\n\n\n{ } loop")
	out = append(out, "matrix dup 0 42 put dup 5 /oops put", "6 array matrix copy dup 0 7 put pop matrix dup 0 9 put")
	// append a failure half-way to some of them
	for i := range out {
		switch rng.IntN(12) {
		case 0, 3, 4:
			out[i] += "\n1 (a) add\n"
		case 1:
			out[i] += "\n{ } loop\n" // budget exceeded
		case 2, 5, 6:
			out[i] += "\n} ) > \n"
		}
	}
	return out
}

func psName(k string) string {
	// systemdict contains the names [ ] << >> which need no slash-escaping but are delimiters
	switch k {
	case "[", "]", "<<", ">>":
		return "zz" // cannot be written as a literal name; skip by aiming at a harmless key
	}
	return k
}

// c18RunHistory runs a seeded selection of the hostile programs, each through
// one of the program-reading entry points, and returns the programs it ran.
func c18RunHistory(rng *rand.Rand) []string {
	progs := hostilePrograms(rng)
	rng.Shuffle(len(progs), func(i, j int) { progs[i], progs[j] = progs[j], progs[i] })
	progs = progs[:1+rng.IntN(len(progs))]
	for _, p := range progs {
		switch rng.IntN(4) {
		case 0:
			postscript.ReadCMap(strings.NewReader(p))
		case 1:
			type1.Read(strings.NewReader("%!PS-AdobeFont-1.0\n" + p))
		case 2:
			intp := postscript.NewInterpreter()
			intp.MaxOps = 20000
			fr := &mon.FaultReader{Data: []byte(p), K: rng.IntN(len(p) + 1)}
			intp.Execute(fr)
		default:
			intp := postscript.NewInterpreter()
			intp.MaxOps = 20000
			intp.ExecuteString(p)
			// a second program on the same damaged instance
			intp.ExecuteString("1 2 add")
		}
	}
	if rng.IntN(2) == 0 {
		c18CallEveryOperator(rng)
	}
	return progs
}

// c18ColdStart makes the FIRST library calls of this process from 16
// goroutines released together: whatever the library sets up on first use
// (tables, templates, caches) is then set up under contention. The inputs are
// built without touching the library; the sequential reference is computed
// afterwards in the same process. Mismatches are printed for the parent, data
// races are reported by the race detector.
func c18ColdStart(seed, run uint64) {
	rng := rand.New(rand.NewPCG(seed*31+run, 0xc01d))
	cm := ref.RenderFile(rng, []*ref.MCMap{ref.GenCMap(rng, "Cold")})
	w := &ref.WFont{FontName: "Cold", Info: map[string]string{"FullName": "Cold Start"}, Private: map[string]string{}, StdEncoding: true,
		Glyphs: []*ref.WGlyph{{Name: ".notdef", Den: 1, WX: 500}, {Name: "A", Den: 1, WX: 600, Cmds: []ref.WCmd{{Op: 'M', Args: []int64{10, 10}}, {Op: 'L', Args: []int64{200, 300}}, {Op: 'L', Args: []int64{50, 400}}, {Op: 'Z'}}}}}
	fontBytes := ref.RenderType1(rng, w, &ref.WLayout{Container: []string{"pfa", "bin", "pfb", "plain"}[run%4], LenIV: 4})
	afmText := []byte("StartFontMetrics 4.1\nFontName Cold\nStartCharMetrics 2\nC 65 ; WX 600 ; N A ; B 10 10 200 400 ;\nC 66 ; WX 610 ; N B ; B 0 0 100 100 ; L A fi ;\nEndCharMetrics\nEndFontMetrics\n")
	font := &type1.Font{FontInfo: &type1.FontInfo{FontName: "ColdW", FontMatrix: [6]float64{0.001, 0, 0, 0.001, 0, 0}}, Private: &type1.PrivateDict{BlueScale: 0.039625, BlueShift: 7, BlueFuzz: 1},
		Glyphs: map[string]*type1.Glyph{".notdef": {WidthX: 500}, "A": {WidthX: 600.5}}}
	font.Glyphs["A"].MoveTo(10.5, 10)
	font.Glyphs["A"].LineTo(200, 300.25)
	font.Glyphs["A"].ClosePath()
	metrics := &afm.Metrics{FontName: "ColdM", Glyphs: map[string]*afm.GlyphInfo{"A": {WidthX: 600}, "B": {WidthX: 610, Ligatures: map[string]string{"A": "fi", "B": "fl"}}}, Encoding: make([]string, 256)}
	for i := range metrics.Encoding {
		metrics.Encoding[i] = ".notdef"
	}
	metrics.Encoding[65], metrics.Encoding[66] = "A", "B"
	coldOpts := &type1.WriterOptions{} // shared by all goroutines, left at the default
	ps := func(prog string) func() string {
		return func() string {
			intp := postscript.NewInterpreter()
			intp.MaxOps = 10000
			err := intp.ExecuteString(prog)
			return fmt.Sprintf("%d objects, top %v, %v", len(intp.Stack), intp.Stack[max(0, len(intp.Stack)-1):], err)
		}
	}
	calls := []func() string{
		ps("1 2 add"), ps("/x { 1 2 add } bind def x"), ps("StandardEncoding 65 get"), ps("/CIDInit /ProcSet findresource length"), ps("<< /a 1 >> { exch pop } forall"),
		ps("errordict length systemdict length"), ps("currentfile eexec\n" + hexSection("/y 2 def y ")),
		func() string {
			d, err := postscript.ReadCMap(bytes.NewReader(cm))
			return fmt.Sprintf("%v %d %v", d["CMapName"], len(d), err)
		},
		func() string {
			f, err := type1.Read(bytes.NewReader(fontBytes))
			return fmt.Sprintf("%s %v", fontDigest(f), err)
		},
		func() string {
			m, err := afm.Read(bytes.NewReader(afmText))
			return fmt.Sprintf("%s %v", metricsDigest(m), err)
		},
		func() string {
			var buf bytes.Buffer
			err := font.Write(&buf, &type1.WriterOptions{Format: type1.FormatPFA})
			return fmt.Sprintf("%s %v", sha(buf.Bytes()), err)
		},
		func() string {
			var buf bytes.Buffer
			_, _, err := font.WritePDF(&buf)
			return fmt.Sprintf("%s %v", sha(buf.Bytes()), err)
		},
		func() string {
			var buf bytes.Buffer
			err := metrics.Write(&buf)
			return fmt.Sprintf("%s %v", sha(buf.Bytes()), err)
		},
		func() string {
			return fmt.Sprint(names.ToUnicode("A", false), names.ToUnicode("dalethatafpatah", false))
		},
		func() string { return fmt.Sprint(names.ToUnicode("lamedholamdagesh", false)) },
		func() string {
			return fmt.Sprint(names.ToUnicode("a7", false), names.ToUnicode("a7", true), names.ToUnicode("a7", false))
		},
		func() string {
			var buf bytes.Buffer
			err := font.Write(&buf, coldOpts)
			return fmt.Sprintf("%s %v %+v", sha(buf.Bytes()), err, *coldOpts)
		},
		func() string { return fmt.Sprint(names.ToUnicode("a100", true)) },
		func() string { return names.FromUnicode('A') + names.FromUnicode(0x20AC) + names.FromUnicode(0xFB01) },
		func() string { return fmt.Sprint(names.IsValid("A"), names.IsValid(".notdef"), names.IsValid("1a")) },
		func() string { return fmt.Sprint(font.GlyphList(), font.FontBBoxPDF(), metrics.GlyphList()) },
	}
	const G = 16
	type rec struct {
		call int
		res  string
	}
	results := make([][]rec, G)
	var start, done sync.WaitGroup
	start.Add(1)
	for g := 0; g < G; g++ {
		done.Add(1)
		seq := []int{(g + int(run)) % len(calls), (g*7 + int(run>>2)) % len(calls), rng.IntN(len(calls))}
		if g%4 == 1 {
			seq[0] = int(run) % 7 // several goroutines create their first interpreter at the same moment
		}
		go func(g int, seq []int) {
			defer done.Done()
			start.Wait()
			for _, ci := range seq {
				results[g] = append(results[g], rec{ci, calls[ci]()})
			}
		}(g, seq)
	}
	start.Done()
	done.Wait()
	refRes := make([]string, len(calls))
	for i, f := range calls {
		refRes[i] = f()
	}
	n := 0
	for g := range results {
		for _, rc := range results[g] {
			n++
			if rc.res != refRes[rc.call] {
				fmt.Printf("MISMATCH cold-start#%d goroutine=%d concurrent=%s sequential=%s\n", rc.call, g, rc.res, refRes[rc.call])
			}
		}
	}
	fmt.Printf("COLDSTART %d\n", n)
}

func runC18(r *rt.Runner) {
	if os.Getenv("VERIF_C18_CHILD") == "1" {
		var run uint64
		fmt.Sscan(os.Getenv("VERIF_C18_RUN"), &run)
		c18ColdStart(r.Seed, run)
	}
	env := newPSEnv()
	calls := buildCalls(r.Seed*7919+1, env)

	if os.Getenv("VERIF_C18_CHILD") == "1" {
		c18Child(r, calls)
		return
	}
	if os.Getenv("VERIF_C18_CHILD") == "2" {
		// a fresh process in which the hostile history comes FIRST: whatever the
		// library builds or caches on first use is built while, or after, the
		// hostile programs ran
		var run uint64
		fmt.Sscan(os.Getenv("VERIF_C18_RUN"), &run)
		rng := rand.New(rand.NewPCG(r.Seed*999983+run, 0xf1e5))
		progs := c18RunHistory(rng)
		fmt.Printf("HISTORY %d\n", len(progs))
		for i, cs := range calls {
			if strings.HasPrefix(cs.name, "Single/") {
				continue
			}
			fmt.Printf("BATTERY %d %s\n", i, cs.run())
		}
		return
	}

	// ---- (a) isolation
	battery := func() []string {
		out := make([]string, len(calls))
		for i, cs := range calls {
			if strings.HasPrefix(cs.name, "Single/") {
				continue // used by the concurrent workload only (half of them write into what they obtain)
			}
			out[i] = cs.run()
		}
		return out
	}
	pristine := battery()
	nHist := r.N(96, 2500)
	for k := 0; k < nHist; k++ {
		r.Case("isolation", func(c *rt.C) {
			rng := c.Rand()
			var progs []string
			c.SetDetail(func() string { return "hostile history:\n" + strings.Join(progs, "\n----\n") })
			progs = c18RunHistory(rng)
			c.Runner().Count("hostile programs run", int64(len(progs)))
			after := battery()
			nProbe := 0
			for _, a := range after {
				if a != "" {
					nProbe++
				}
			}
			c.Runner().Count("probe calls evaluated", int64(nProbe))
			for i := range pristine {
				if after[i] != pristine[i] {
					c.Violation("isolation|"+strings.SplitN(calls[i].name, "#", 2)[0], fmt.Sprintf("after the hostile history the probe %s gives %s, in the pristine process it gave %s", calls[i].name, after[i], pristine[i]), "")
				}
			}
			c.Nontrivial([]byte(strings.Join(progs, "\x00")), func() string { return fmt.Sprintf("%d hostile programs, then %d probe calls", len(progs), nProbe) })
		})
	}

	// ---- (a2) the same, with the history run first in a fresh process (the
	// pristine digests of this process are the reference: results are deterministic)
	nFresh := r.N(24, 400)
	for k := 0; k < nFresh; k++ {
		r.Case("isolation-fresh-process", func(c *rt.C) {
			exe, err := os.Executable()
			if err != nil {
				c.Inconclusive("cannot locate the worker binary")
				return
			}
			logPath := filepath.Join(r.LogDir, fmt.Sprintf("c18-fresh-%d.log", c.Seq))
			cmd := exec.Command(exe, "-prop", "C18", "-tier", r.Tier, "-seed", fmt.Sprint(r.Seed), "-only", "0", "-log", logPath, "-noprogress", "0")
			cmd.Env = append(os.Environ(), "VERIF_C18_CHILD=2", fmt.Sprintf("VERIF_C18_RUN=%d", c.Seq))
			outB, err := cmd.Output()
			os.Remove(logPath)
			os.Remove(logPath + ".hashes")
			rt.Progress.Add(1)
			if err != nil {
				c.Violation("isolation-fresh|child-died", fmt.Sprintf("the child process running a hostile history died: %v\n%s", err, tail2(string(outB), 3000)), "")
				return
			}
			nB, nHist := 0, -1
			sc := bufio.NewScanner(bytes.NewReader(outB))
			sc.Buffer(make([]byte, 1<<20), 1<<20)
			for sc.Scan() {
				line := sc.Text()
				if strings.HasPrefix(line, "HISTORY ") {
					fmt.Sscanf(line, "HISTORY %d", &nHist)
				}
				if !strings.HasPrefix(line, "BATTERY ") {
					continue
				}
				parts := strings.SplitN(line, " ", 3)
				var i int
				if _, err := fmt.Sscan(parts[1], &i); err != nil || i < 0 || i >= len(pristine) || len(parts) < 3 {
					continue
				}
				nB++
				if parts[2] != pristine[i] {
					c.Violation("isolation-fresh|"+strings.SplitN(calls[i].name, "#", 2)[0], fmt.Sprintf("in a fresh process that ran a hostile history first, the probe %s gives %s; in a pristine process it gives %s (history: seed %d, run %d)", calls[i].name, parts[2], pristine[i], r.Seed, c.Seq), "")
				}
			}
			if nB == 0 || nHist < 0 {
				c.Inconclusive("child reported no probe results")
				return
			}
			c.Runner().Count("probe calls evaluated in fresh processes after a hostile history", int64(nB))
			c.Count("fresh processes that ran a hostile history first")
			c.Nontrivial([]byte(fmt.Sprintf("fresh|%d", c.Seq)), func() string {
				return fmt.Sprintf("fresh process: %d hostile programs, then %d probe calls", nHist, nB)
			})
		})
	}

	// ---- (b) fresh processes with 16 goroutines each
	nProc := r.N(64, 600)
	for k := 0; k < nProc; k++ {
		r.Case("concurrent", func(c *rt.C) {
			exe, err := os.Executable()
			if err != nil {
				c.Inconclusive("cannot locate the worker binary")
				return
			}
			logPath := filepath.Join(r.LogDir, fmt.Sprintf("c18-child-%d.log", c.Seq))
			cmd := exec.Command(exe, "-prop", "C18", "-tier", r.Tier, "-seed", fmt.Sprint(r.Seed), "-only", "0", "-log", logPath, "-noprogress", "0")
			cmd.Env = append(os.Environ(), "VERIF_C18_CHILD=1", fmt.Sprintf("VERIF_C18_RUN=%d", c.Seq))
			outB, err := cmd.Output()
			os.Remove(logPath)
			os.Remove(logPath + ".hashes")
			rt.Progress.Add(1)
			if err != nil {
				c.Violation("concurrent|child-died", fmt.Sprintf("the child process running the concurrent workload died: %v\n%s", err, tail2(string(outB), 3000)), "")
				return
			}
			var nres, nmis int
			sc := bufio.NewScanner(bytes.NewReader(outB))
			sc.Buffer(make([]byte, 1<<20), 1<<20)
			for sc.Scan() {
				line := sc.Text()
				switch {
				case strings.HasPrefix(line, "RESULTS "):
					fmt.Sscanf(line, "RESULTS %d", &nres)
				case strings.HasPrefix(line, "COLDSTART "):
					var nc int
					fmt.Sscanf(line, "COLDSTART %d", &nc)
					c.Runner().Count("first-use calls made concurrently at process start", int64(nc))
				case strings.HasPrefix(line, "MISMATCH "):
					nmis++
					parts := strings.SplitN(line, " ", 3)
					c.Violation("concurrent|result|"+strings.SplitN(parts[1], "#", 2)[0], "a concurrent call returned a result different from sequential use: "+line, "")
				}
			}
			if nres == 0 {
				c.Inconclusive("child reported no results")
				return
			}
			c.Runner().Count("concurrent call results compared with sequential use", int64(nres))
			c.Count("fresh processes with 16 goroutines")
			c.Nontrivial([]byte(fmt.Sprintf("proc|%d", c.Seq)), func() string { return fmt.Sprintf("fresh process: %d concurrent results, %d mismatches", nres, nmis) })
		})
	}
}

func tail2(s string, n int) string {
	if len(s) > n {
		return s[len(s)-n:]
	}
	return s
}

// c18Child runs the concurrent workload once and prints mismatches.
func c18Child(r *rt.Runner, calls []callSpec) {
	var run uint64
	fmt.Sscanf(os.Getenv("VERIF_C18_RUN"), "%d", &run)
	const G = 16
	type rec struct {
		call int
		res  string
	}
	results := make([][]rec, G)
	var start sync.WaitGroup
	var done sync.WaitGroup
	start.Add(1)
	idxOf := func(prefix string) []int {
		var out []int
		for i, cs := range calls {
			if strings.HasPrefix(cs.name, prefix) {
				out = append(out, i)
			}
		}
		return out
	}
	first := [][]int{idxOf("ToUnicode/dingbats/"), idxOf("ToUnicode/"), idxOf("FromUnicode/")}
	singles := idxOf("Single/")
	var base []int
	for i, cs := range calls {
		if !strings.HasPrefix(cs.name, "Single/") && !strings.HasPrefix(cs.name, "Probe/") {
			base = append(base, i)
		}
	}
	for g := 0; g < G; g++ {
		done.Add(1)
		go func(g int) {
			defer done.Done()
			rng := rand.New(rand.NewPCG(r.Seed*1000003+run, uint64(g)))
			n := 30 + rng.IntN(30)
			seq := make([]int, 0, n)
			// first calls aimed at the lazily initialised tables, a different one per goroutine
			f := first[g%3]
			seq = append(seq, f[rng.IntN(len(f))])
			for len(seq) < n {
				// half of the calls are single operator programs (results probed or written into)
				if rng.IntN(2) == 0 {
					seq = append(seq, singles[rng.IntN(len(singles))])
				} else {
					seq = append(seq, base[rng.IntN(len(base))])
				}
			}
			start.Wait()
			for _, ci := range seq {
				results[g] = append(results[g], rec{ci, calls[ci].run()})
			}
		}(g)
	}
	start.Done()
	done.Wait()
	// sequential reference, computed afterwards in the same process
	refRes := make([]string, len(calls))
	used := map[int]bool{}
	for g := range results {
		for _, rc := range results[g] {
			used[rc.call] = true
		}
	}
	for i, cs := range calls {
		if used[i] {
			refRes[i] = cs.run()
		}
	}
	total := 0
	for g := range results {
		for _, rc := range results[g] {
			total++
			if rc.res != refRes[rc.call] {
				fmt.Printf("MISMATCH %s goroutine=%d concurrent=%s sequential=%s\n", calls[rc.call].name, g, rc.res, refRes[rc.call])
			}
		}
	}
	fmt.Printf("RESULTS %d\n", total)
	_ = afm.Metrics{}
}
