package props

// C07 — CMap reader returns exactly the mappings written in the file.
//
// Reference-model monitor: ref.GenCMap draws a model CMap, ref.RenderFile
// writes it in the standard file form with layout noise; ReadCMap's result is
// compared table by table with the model (permutation + sortedness), and every
// single-fault variant must be rejected with an error.

import (
	"bytes"
	"fmt"
	"math/rand/v2"
	"sort"
	"strings"

	"seehuhn.de/go/postscript"

	"verif/harness/ref"
	"verif/harness/rt"
)

func init() { register("C07", runC07) }

func dstKey(d ref.MDst) string {
	switch d.Kind {
	case "int":
		return fmt.Sprintf("i%d", d.I)
	case "str":
		return fmt.Sprintf("s%x", d.S)
	case "name":
		return "n" + string(d.S)
	case "arr":
		parts := make([]string, len(d.Arr))
		for i, a := range d.Arr {
			parts[i] = fmt.Sprintf("%x", a)
		}
		return "a[" + strings.Join(parts, ",") + "]"
	}
	return ""
}

func libDstKey(o postscript.Object) string {
	switch o := o.(type) {
	case postscript.Integer:
		return fmt.Sprintf("i%d", int64(o))
	case postscript.String:
		return fmt.Sprintf("s%x", []byte(o))
	case postscript.Name:
		return "n" + string(o)
	case postscript.Array:
		parts := make([]string, len(o))
		for i, a := range o {
			if s, ok := a.(postscript.String); ok {
				parts[i] = fmt.Sprintf("%x", []byte(s))
			} else {
				parts[i] = "?" + libShow(a)
			}
		}
		return "a[" + strings.Join(parts, ",") + "]"
	case nil:
		return ""
	}
	return "?" + libShow(o)
}

type tblEntry struct {
	lo, hi []byte
	dst    string
}

func (e tblEntry) key() string { return fmt.Sprintf("%x-%x>%s", e.lo, e.hi, e.dst) }

// checkTable verifies that got is a permutation of want that is sorted by
// source code. codeSpace selects the (length, code) order that the property
// prescribes for code-space ranges; for the other tables plain lexicographic
// or length-then-lexicographic order are both accepted.
func checkTable(name string, got, want []tblEntry, codeSpace bool) string {
	if len(got) != len(want) {
		return fmt.Sprintf("%s: %d entries, the file has %d", name, len(got), len(want))
	}
	gk := make([]string, len(got))
	wk := make([]string, len(want))
	for i := range got {
		gk[i], wk[i] = got[i].key(), want[i].key()
	}
	sort.Strings(gk)
	sort.Strings(wk)
	for i := range gk {
		if gk[i] != wk[i] {
			return fmt.Sprintf("%s: entries differ from the file's: first difference (sorted) %s vs %s", name, gk[i], wk[i])
		}
	}
	lex := func(a, b tblEntry) int { return bytes.Compare(a.lo, b.lo) }
	lenLex := func(a, b tblEntry) int {
		if len(a.lo) != len(b.lo) {
			return len(a.lo) - len(b.lo)
		}
		return bytes.Compare(a.lo, b.lo)
	}
	sortedBy := func(cmp func(a, b tblEntry) int) bool {
		for i := 1; i < len(got); i++ {
			if cmp(got[i-1], got[i]) > 0 {
				return false
			}
		}
		return true
	}
	if codeSpace {
		if !sortedBy(lenLex) {
			return fmt.Sprintf("%s: not sorted by length, then code", name)
		}
	} else if !sortedBy(lex) && !sortedBy(lenLex) {
		return fmt.Sprintf("%s: not sorted by source code", name)
	}
	return ""
}

func modelTable(m *ref.MCMap, kind string) []tblEntry {
	var out []tblEntry
	for _, e := range m.Collect(kind) {
		out = append(out, tblEntry{e.Lo, e.Hi, dstKey(e.Dst)})
	}
	return out
}

func compareCMap(d postscript.Dict, m *ref.MCMap) []string {
	var diffs []string
	add := func(f string, a ...any) { diffs = append(diffs, fmt.Sprintf(f, a...)) }
	if n, ok := d["CMapName"].(postscript.Name); !ok || string(n) != m.Name {
		add("CMapName = %s, file says /%s", libShow(d["CMapName"]), m.Name)
	}
	if si, ok := d["CIDSystemInfo"].(postscript.Dict); !ok {
		add("CIDSystemInfo missing")
	} else {
		if s, ok := si["Registry"].(postscript.String); !ok || string(s) != m.Registry {
			add("Registry = %s, file says %q", libShow(si["Registry"]), m.Registry)
		}
		if s, ok := si["Ordering"].(postscript.String); !ok || string(s) != m.Ordering {
			add("Ordering = %s, file says %q", libShow(si["Ordering"]), m.Ordering)
		}
		if s, ok := si["Supplement"].(postscript.Integer); !ok || int64(s) != m.Supplement {
			add("Supplement = %s, file says %d", libShow(si["Supplement"]), m.Supplement)
		}
	}
	if t, ok := d["CMapType"].(postscript.Integer); !ok || int64(t) != m.CMapType {
		add("CMapType = %s, file says %d", libShow(d["CMapType"]), m.CMapType)
	}
	if m.HasWMode {
		if w, ok := d["WMode"].(postscript.Integer); !ok || int64(w) != m.WMode {
			add("WMode = %s, file says %d", libShow(d["WMode"]), m.WMode)
		}
	} else if _, has := d["WMode"]; has {
		add("WMode = %s, the file sets none", libShow(d["WMode"]))
	}
	info, ok := d["CodeMap"].(*postscript.CMapInfo)
	if !ok || info == nil {
		add("CodeMap is not a *CMapInfo")
		return diffs
	}
	if string(info.UseCMap) != m.UseCMap {
		add("UseCMap = %q, file says %q", info.UseCMap, m.UseCMap)
	}
	var cs []tblEntry
	for _, e := range info.CodeSpaceRanges {
		cs = append(cs, tblEntry{e.Low, e.High, ""})
	}
	if s := checkTable("CodeSpaceRanges", cs, modelTable(m, "codespacerange"), true); s != "" {
		add("%s", s)
	}
	chars := func(name, kind string, t []postscript.CharMap) {
		var got []tblEntry
		for _, e := range t {
			got = append(got, tblEntry{e.Src, nil, libDstKey(e.Dst)})
		}
		if s := checkTable(name, got, modelTable(m, kind), false); s != "" {
			add("%s", s)
		}
	}
	ranges := func(name, kind string, t []postscript.RangeMap) {
		var got []tblEntry
		for _, e := range t {
			got = append(got, tblEntry{e.Low, e.High, libDstKey(e.Dst)})
		}
		if s := checkTable(name, got, modelTable(m, kind), false); s != "" {
			add("%s", s)
		}
	}
	chars("CidChars", "cidchar", info.CidChars)
	ranges("CidRanges", "cidrange", info.CidRanges)
	chars("BfChars", "bfchar", info.BfChars)
	ranges("BfRanges", "bfrange", info.BfRanges)
	chars("NotdefChars", "notdefchar", info.NotdefChars)
	ranges("NotdefRanges", "notdefrange", info.NotdefRanges)
	return diffs
}

// faultVariants returns single-fault copies of m with a description each.
func faultVariants(rng *rand.Rand, m *ref.MCMap) []struct {
	desc string
	m    *ref.MCMap
} {
	var out []struct {
		desc string
		m    *ref.MCMap
	}
	clone := func() *ref.MCMap {
		c := *m
		c.Blocks = make([]ref.MBlock, len(m.Blocks))
		for i, b := range m.Blocks {
			c.Blocks[i] = b
			c.Blocks[i].Entries = append([]ref.MEntry(nil), b.Entries...)
		}
		return &c
	}
	add := func(desc string, c *ref.MCMap) {
		out = append(out, struct {
			desc string
			m    *ref.MCMap
		}{desc, c})
	}
	for _, kind := range []string{"codespacerange", "cidchar", "cidrange", "bfchar", "bfrange", "notdefchar", "notdefrange"} {
		// a block declaring 101 entries (and supplying them)
		c := clone()
		b := ref.MBlock{Kind: kind}
		for j := 0; j < 101; j++ {
			b.Entries = append(b.Entries, ref.GenEntry(rng, kind))
		}
		b.Declared = 101
		c.Blocks = append(c.Blocks, b)
		add("declared-101:"+kind, c)
		// declared count one larger than the entries supplied
		c = clone()
		b = ref.MBlock{Kind: kind}
		for j := rng.IntN(4); j >= 0; j-- {
			b.Entries = append(b.Entries, ref.GenEntry(rng, kind))
		}
		b.Declared = len(b.Entries) + 1
		c.Blocks = append(c.Blocks, b)
		add("declared-one-more:"+kind, c)
		// wrong destination type
		if kind != "codespacerange" {
			c = clone()
			b = ref.MBlock{Kind: kind}
			for j := rng.IntN(3); j >= 0; j-- {
				b.Entries = append(b.Entries, ref.GenEntry(rng, kind))
			}
			bad := ref.GenEntry(rng, kind)
			var choices []string
			switch kind {
			case "cidchar", "cidrange", "notdefchar", "notdefrange":
				choices = []string{"str", "name", "real", "arr", "bool", "dict", "proc", "emptyproc"}
			case "bfchar":
				choices = []string{"int", "real", "arr", "bool", "dict", "proc", "emptyproc"}
			case "bfrange":
				// a procedure body is an array to `type`, `get` and `length`, but not a destination
				choices = []string{"int", "name", "real", "bool", "dict", "proc", "emptyproc", "proc"}
			}
			bad.Dst = ref.MDst{Kind: choices[rng.IntN(len(choices))], S: []byte("ab"), Arr: [][]byte{{1}}, I: 5}
			pos := rng.IntN(len(b.Entries) + 1)
			b.Entries = append(b.Entries[:pos], append([]ref.MEntry{bad}, b.Entries[pos:]...)...)
			b.Declared = len(b.Entries)
			c.Blocks = append(c.Blocks, b)
			add("wrong-destination-type:"+kind+":"+bad.Dst.Kind, c)
		}
		if ref.IsRange(kind) {
			// bounds of unequal length
			c = clone()
			b = ref.MBlock{Kind: kind}
			for j := rng.IntN(3); j >= 0; j-- {
				b.Entries = append(b.Entries, ref.GenEntry(rng, kind))
			}
			bad := ref.GenEntry(rng, kind)
			if rng.IntN(2) == 0 {
				bad.Hi = append(append([]byte(nil), bad.Hi...), 0xff)
			} else {
				bad.Lo = append([]byte{0}, bad.Lo...)
			}
			pos := rng.IntN(len(b.Entries) + 1)
			b.Entries = append(b.Entries[:pos], append([]ref.MEntry{bad}, b.Entries[pos:]...)...)
			b.Declared = len(b.Entries)
			c.Blocks = append(c.Blocks, b)
			add("unequal-bounds:"+kind, c)
			{
				// reversed range (code-space ranges included: <1080> <107f> is
				// reversed both as a number and byte by byte)
				c = clone()
				b = ref.MBlock{Kind: kind}
				for j := rng.IntN(3); j >= 0; j-- {
					b.Entries = append(b.Entries, ref.GenEntry(rng, kind))
				}
				bad := ref.GenEntry(rng, kind)
				bad.Lo = []byte{0x10, 0x80}
				bad.Hi = []byte{0x10, 0x7f}
				if rng.IntN(2) == 0 {
					bad.Lo, bad.Hi = []byte{0x02, 0x00}, []byte{0x01, 0xff}
				}
				pos := rng.IntN(len(b.Entries) + 1)
				b.Entries = append(b.Entries[:pos], append([]ref.MEntry{bad}, b.Entries[pos:]...)...)
				b.Declared = len(b.Entries)
				c.Blocks = append(c.Blocks, b)
				add("reversed-range:"+kind, c)
			}
		}
	}
	c := clone()
	c.NoBegin = true
	add("missing-begincmap", c)
	return out
}

func runC07(r *rt.Runner) {
	n := r.N(80000, 800000)
	for k := 0; k < n; k++ {
		r.Case("cmap", func(c *rt.C) {
			rng := c.Rand()
			nm := 1
			if rng.IntN(6) == 0 {
				nm = 2 + rng.IntN(4)
			}
			var maps []*ref.MCMap
			names := map[string]bool{}
			for len(maps) < nm {
				name := "CM-" + fmt.Sprint(rng.IntN(1000))
				if names[name] {
					continue
				}
				names[name] = true
				maps = append(maps, ref.GenCMap(rng, name))
			}
			file := ref.RenderFile(rng, maps)
			switch rng.IntN(4) {
			case 0:
				// CR-only line ends throughout (a valid PostScript end of line)
				file = bytes.ReplaceAll(bytes.ReplaceAll(file, []byte("\r\n"), []byte("\n")), []byte("\n"), []byte("\r"))
				c.Count("files with CR-only line ends")
			case 1:
				file = bytes.ReplaceAll(bytes.ReplaceAll(file, []byte("\r\n"), []byte("\n")), []byte("\n"), []byte("\r\n"))
				c.Count("files with CRLF line ends")
			}
			if rng.IntN(120) == 0 {
				// a very long structured comment in the header (a licence text): one line
				// of more than 64 KiB, or a comment continued over many %%+ lines
				var cm bytes.Buffer
				if rng.IntN(2) == 0 {
					cm.WriteString("%%Copyright: " + strings.Repeat("All rights reserved (c) endcmap def ", 1900) + "\n")
				} else {
					cm.WriteString("%%Copyright: begin\n")
					for i := 0; i < 1200; i++ {
						cm.WriteString("%%+ " + strings.Repeat("licence text pop end ", 3) + "\n")
					}
				}
				if i := bytes.IndexByte(file, '\n'); i >= 0 && bytes.HasPrefix(file, []byte("%!")) {
					file = append(append(append([]byte(nil), file[:i+1]...), cm.Bytes()...), file[i+1:]...)
				} else {
					file = append(cm.Bytes(), file...)
				}
				c.Count("files with a structured comment longer than 64 KiB")
			}
			c.SetDetail(func() string { return fmt.Sprintf("file: %q", head(file, 6000)) })
			d, err := postscript.ReadCMap(bytes.NewReader(file))
			if err != nil {
				c.Violation("valid|error", fmt.Sprintf("ReadCMap failed on a file in the standard form: %v", err), "")
				return
			}
			name, _ := d["CMapName"].(postscript.Name)
			var model *ref.MCMap
			for _, m := range maps {
				if m.Name == string(name) {
					model = m
				}
			}
			if model == nil {
				c.Violation("valid|name", fmt.Sprintf("returned CMap is called %q, the file defines %d CMaps, none of that name", name, len(maps)), "")
				return
			}
			if diffs := compareCMap(d, model); len(diffs) > 0 {
				c.Violation("valid|"+strings.SplitN(diffs[0], " ", 2)[0], "returned CMap differs from the file:\n  "+joinLines(diffs), "")
			}
			// the result belongs to the caller: every code and destination is
			// written into (as code that enumerates a range in place does); no
			// later ReadCMap in this process may see any of it
			c.Runner().Count("bytes of returned CMaps written into", int64(scribbleCMap(d)))
			entries := 0
			kinds := map[string]bool{}
			for _, b := range model.Blocks {
				entries += len(b.Entries)
				kinds[b.Kind] = true
				if len(b.Entries) == 100 {
					c.Count("blocks with exactly 100 entries")
				}
			}
			c.Runner().Count("mapping entries compared", int64(entries))
			for kd := range kinds {
				c.Count("block kind " + kd)
			}
			if nm > 1 {
				c.Count("files defining several CMaps")
			}
			c.Nontrivial(file, func() string { return head(file, 500) })
		})
	}
	// very many blocks of one kind: the tables hold every entry of every block,
	// however many there are (more than 65536 entries of one kind here)
	nBig := r.N(7, 28)
	for k := 0; k < nBig; k++ {
		k := k
		r.Case("many-blocks", func(c *rt.C) {
			rng := c.Rand()
			kind := []string{"cidchar", "cidrange", "bfchar", "bfrange", "notdefchar", "notdefrange", "codespacerange"}[k%7]
			m := ref.GenCMap(rng, "Many")
			m.UseCMap = ""
			m.Blocks = []ref.MBlock{{Kind: "codespacerange", Entries: []ref.MEntry{{Lo: []byte{0, 0, 0}, Hi: []byte{0xff, 0xff, 0xff}}}, Declared: 1}}
			code := 0
			nBlocks := 656 + rng.IntN(12)
			for bi := 0; bi < nBlocks; bi++ {
				b := ref.MBlock{Kind: kind, Declared: 100}
				for i := 0; i < 100; i++ {
					e := ref.GenEntry(rng, kind)
					lo := []byte{byte(code >> 16), byte(code >> 8), byte(code)}
					e.Lo, e.Hi = lo, nil
					if ref.IsRange(kind) {
						e.Hi = []byte{lo[0], lo[1], lo[2] | 1}
						if e.Dst.Kind == "arr" {
							e.Dst = ref.MDst{Kind: "str", S: []byte{0, byte(i)}}
						}
					}
					code += 2
					b.Entries = append(b.Entries, e)
				}
				m.Blocks = append(m.Blocks, b)
			}
			file := ref.RenderFile(rng, []*ref.MCMap{m})
			c.SetDetail(func() string {
				return fmt.Sprintf("%d blocks of 100 %s entries, %d bytes; head: %q", nBlocks, kind, len(file), head(file, 1500))
			})
			c.Count("files with more than 65536 entries of one kind")
			d, err := postscript.ReadCMap(bytes.NewReader(file))
			if err != nil {
				c.Violation("many-blocks|"+errClass(err), fmt.Sprintf("ReadCMap failed on a file in the standard form with %d blocks of 100 %s entries: %v", nBlocks, kind, err), "")
				return
			}
			if diffs := compareCMap(d, m); len(diffs) > 0 {
				c.Violation("many-blocks|"+strings.SplitN(diffs[0], " ", 2)[0], "returned CMap differs from the file:\n  "+joinLines(diffs[:min(5, len(diffs))]), "")
			}
			c.Runner().Count("mapping entries compared", int64(nBlocks*100))
			c.Nontrivial([]byte(fmt.Sprintf("many|%s|%d", kind, nBlocks)), func() string { return fmt.Sprintf("%d blocks of 100 %s entries", nBlocks, kind) })
		})
	}
	// a file that needs most of the reader's operation budget (sorting the tables is
	// not something the file's program does), and a file of more than 64 MiB
	for _, shape := range []string{"many-operations", "many-bytes"} {
		shape := shape
		r.Case("huge-file/"+shape, func(c *rt.C) {
			rng := c.Rand()
			var sb bytes.Buffer
			sb.WriteString("%!PS-Adobe-3.0 Resource-CMap\n/CIDInit /ProcSet findresource begin\n12 dict begin\nbegincmap\n/CIDSystemInfo << /Registry (Adobe) /Ordering (Huge) /Supplement 0 >> def\n/CMapName /Huge def\n/CMapType 1 def\n1 begincodespacerange <000000> <ffffff> endcodespacerange\n")
			nEntries := 0
			if shape == "many-operations" {
				// about 2 operations per entry: 330 000 ... 400 000 entries stay below the budget of a million
				blocks := 3300 + rng.IntN(700)
				for b := 0; b < blocks; b++ {
					sb.WriteString("100 begincidchar\n")
					for i := 0; i < 100; i++ {
						fmt.Fprintf(&sb, "<%06x> %d\n", nEntries, nEntries%65000)
						nEntries++
					}
					sb.WriteString("endcidchar\n")
				}
			} else {
				dst := strings.Repeat("ab", 520) // 1040 hex digits: a destination string of 520 bytes
				for nEntries < 68000 {
					sb.WriteString("100 beginbfchar\n")
					for i := 0; i < 100; i++ {
						fmt.Fprintf(&sb, "<%06x> <%s>\n", nEntries, dst)
						nEntries++
					}
					sb.WriteString("endbfchar\n")
				}
			}
			sb.WriteString("endcmap\nCMapName currentdict /CMap defineresource pop\nend\nend\n")
			c.SetDetail(func() string { return fmt.Sprintf("%s: %d entries, %d bytes", shape, nEntries, sb.Len()) })
			d, err := postscript.ReadCMap(bytes.NewReader(sb.Bytes()))
			c.Count("huge CMap files: " + shape)
			if err != nil {
				c.Violation("huge-file|"+shape+"|"+errClass(err), fmt.Sprintf("ReadCMap failed on a file in the standard form (%s: %d entries, %d bytes): %v", shape, nEntries, sb.Len(), err), "")
				return
			}
			ci, _ := d["CodeMap"].(*postscript.CMapInfo)
			got := 0
			if ci != nil {
				got = len(ci.CidChars) + len(ci.BfChars)
			}
			if got != nEntries {
				c.Violation("huge-file|"+shape+"|entries", fmt.Sprintf("the file holds %d entries, the returned CMap %d", nEntries, got), "")
			} else if ci != nil {
				// spot checks: first, last and some entries in between (the table is sorted by code = entry number)
				for _, k := range []int{0, 1, nEntries / 2, nEntries - 1, rng.IntN(nEntries)} {
					var src []byte
					if shape == "many-operations" {
						src = ci.CidChars[k].Src
					} else {
						src = ci.BfChars[k].Src
					}
					if len(src) != 3 || int(src[0])<<16|int(src[1])<<8|int(src[2]) != k {
						c.Violation("huge-file|"+shape+"|order", fmt.Sprintf("entry %d of the sorted table has the code %x", k, src), "")
						break
					}
				}
			}
			c.Runner().Max("largest CMap file read (bytes)", int64(sb.Len()))
			c.Nontrivial([]byte("huge|"+shape+fmt.Sprint(nEntries)), func() string { return fmt.Sprintf("%s: %d entries, %d bytes", shape, nEntries, sb.Len()) })
		})
	}
	// full bfrange blocks with long array destinations (one array element per
	// code of a one-byte span, up to 256)
	for _, arrLen := range []int{1, 100, 150, 199, 200, 201, 256} {
		for _, at := range []int{0, 50, 99} {
			arrLen, at := arrLen, at
			r.Case("full-block", func(c *rt.C) {
				rng := c.Rand()
				m := ref.GenCMap(rng, "Full")
				m.Blocks = []ref.MBlock{{Kind: "codespacerange", Entries: []ref.MEntry{{Lo: []byte{0, 0}, Hi: []byte{0xff, 0xff}}}, Declared: 1}}
				b := ref.MBlock{Kind: "bfrange", Declared: 100}
				for i := 0; i < 100; i++ {
					e := ref.MEntry{Lo: []byte{byte(i), 0}, Hi: []byte{byte(i), 0xff}, Dst: ref.MDst{Kind: "str", S: []byte{0, byte(i)}}}
					if i == at {
						e.Hi = []byte{byte(i), byte(arrLen - 1)}
						e.Dst = ref.MDst{Kind: "arr"}
						for j := 0; j < arrLen; j++ {
							e.Dst.Arr = append(e.Dst.Arr, []byte{byte(j >> 8), byte(j)})
						}
					}
					b.Entries = append(b.Entries, e)
				}
				m.Blocks = append(m.Blocks, b)
				file := ref.RenderFile(rng, []*ref.MCMap{m})
				c.SetDetail(func() string { return fmt.Sprintf("file: %q", head(file, 3000)) })
				c.Count("full blocks with an array destination")
				d, err := postscript.ReadCMap(bytes.NewReader(file))
				if err != nil {
					c.Violation(fmt.Sprintf("full-block:array-%d-at-%d|%s", arrLen, at, errClass(err)), fmt.Sprintf("ReadCMap failed on a file in the standard form (100 bfrange entries, entry %d with an array of %d strings): %v", at, arrLen, err), "")
					return
				}
				if diffs := compareCMap(d, m); len(diffs) > 0 {
					c.Violation("full-block|"+strings.SplitN(diffs[0], " ", 2)[0], "returned CMap differs from the file:\n  "+joinLines(diffs), "")
				}
				c.Nontrivial(file, nil)
			})
		}
	}
	// single-fault variants: each must be rejected
	nf := r.N(3000, 30000)
	for k := 0; k < nf; k++ {
		r.Case("fault", func(c *rt.C) {
			rng := c.Rand()
			base := ref.GenCMap(rng, "Base")
			for len(base.Blocks) > 6 {
				base.Blocks = base.Blocks[:6]
			}
			// sanity: the unmodified base must be accepted
			if _, err := postscript.ReadCMap(bytes.NewReader(ref.RenderFile(rng, []*ref.MCMap{base}))); err != nil {
				c.Violation("valid|error", fmt.Sprintf("ReadCMap failed on a file in the standard form: %v", err), "")
				return
			}
			for _, v := range faultVariants(rng, base) {
				file := ref.RenderFile(rng, []*ref.MCMap{v.m})
				_, err := postscript.ReadCMap(bytes.NewReader(file))
				c.Eval()
				c.Count("fault variant " + strings.SplitN(v.desc, ":", 2)[0])
				if err == nil {
					c.SetDetail(func() string { return fmt.Sprintf("fault: %s\nfile: %q", v.desc, head(file, 6000)) })
					c.Violation("fault-accepted|"+v.desc, fmt.Sprintf("a file with the single fault %q was accepted without error", v.desc), "")
				}
				c.Nontrivial(file, nil)
			}
		})
	}
}

// scribbleCMap overwrites every byte string reachable from a returned CMap
// dictionary and returns the number of bytes written.
func scribbleCMap(d postscript.Dict) int {
	n := 0
	wr := func(b []byte) {
		for i := range b {
			b[i] ^= 0x5a
			n++
		}
	}
	var obj func(o postscript.Object, depth int)
	obj = func(o postscript.Object, depth int) {
		if depth > 4 {
			return
		}
		switch o := o.(type) {
		case postscript.String:
			wr(o)
		case postscript.Array:
			for _, e := range o {
				obj(e, depth+1)
			}
		}
	}
	if ci, ok := d["CodeMap"].(*postscript.CMapInfo); ok && ci != nil {
		for _, r := range ci.CodeSpaceRanges {
			wr(r.Low)
			wr(r.High)
		}
		for _, l := range [][]postscript.CharMap{ci.CidChars, ci.BfChars, ci.NotdefChars} {
			for _, e := range l {
				wr(e.Src)
				obj(e.Dst, 0)
			}
		}
		for _, l := range [][]postscript.RangeMap{ci.CidRanges, ci.BfRanges, ci.NotdefRanges} {
			for _, e := range l {
				wr(e.Low)
				wr(e.High)
				obj(e.Dst, 0)
			}
		}
	}
	if si, ok := d["CIDSystemInfo"].(postscript.Dict); ok {
		for _, v := range si {
			obj(v, 0)
		}
	}
	return n
}
