package props

// C06 — Type 1 reader recovers exactly the font a conforming file describes.
//
// Reference-model monitor with an independent writer (ref.RenderType1, R3):
// a model font is drawn, rendered with independently drawn layout choices,
// read with type1.Read and compared field by field with the model.
// Restrictions of the generated domain follow DESIGN.md section 10 (seac with
// asb = sbx(accent) = sbx(composite) and the base's advance width; stem3 not
// mixed with other stems of the same direction; stems of glyphs with hint
// replacement and of composites are not compared).

import (
	"bytes"
	"fmt"
	"io"
	"math/rand/v2"
	"strconv"
	"strings"
	"time"

	"seehuhn.de/go/geom/matrix"
	"seehuhn.de/go/postscript/funit"
	"seehuhn.de/go/postscript/type1"

	"verif/harness/mon"
	"verif/harness/ref"
	"verif/harness/rt"
)

func init() { register("C06", runC06) }

type modelFont struct {
	w         *ref.WFont
	lay       *ref.WLayout
	want      *type1.Font
	skipStems map[string]bool
	ratSB     map[string]bool // glyphs with a rational side bearing
	feat      map[string]bool
}

func genModelGlyph(rng *rand.Rand, name string, lay *ref.WLayout, feat map[string]bool) *ref.WGlyph {
	g := &ref.WGlyph{Name: name, Den: 1}
	if rng.IntN(4) == 0 {
		g.Den = []int64{2, 4, 5, 8, 10, 100, 3, 7}[rng.IntN(8)]
		feat["rational coordinates (p q div)"] = true
	}
	den := g.Den
	co := func() int64 { return int64(rng.IntN(2001)-1000) * den / []int64{1, 1, 1, den}[rng.IntN(4)] }
	intCo := func() int64 { return int64(rng.IntN(2001)-1000) * den }
	g.SBX = intCo()
	if rng.IntN(3) == 0 {
		g.SBX = 0
	}
	if den > 1 && rng.IntN(3) == 0 {
		// the left edge of a glyph with rational coordinates; stem edges stay
		// integers in absolute terms, so their relative positions are rational too
		g.SBX = co()
		feat["rational side bearing"] = true
	}
	g.WX = int64(rng.IntN(1500)) * den
	if rng.IntN(8) == 0 {
		g.UseSBW = true
		g.SBY = intCo()
		if den > 1 && rng.IntN(3) == 0 {
			g.SBY = co()
			feat["rational side bearing"] = true
		}
		g.WY = int64(rng.IntN(2001)-1000) * den
		feat["sbw with vertical components"] = true
	}
	if den > 1 && rng.IntN(3) == 0 {
		g.WX += int64(rng.IntN(int(den)))
		feat["fractional advance width"] = true
	}
	x, y := g.SBX, g.SBY
	nc := rng.IntN(4)
	for c := 0; c < nc; c++ {
		nx, ny := co(), co()
		switch rng.IntN(5) {
		case 0:
			nx = x
		case 1:
			ny = y
		}
		g.Cmds = append(g.Cmds, ref.WCmd{Op: 'M', Args: []int64{nx, ny}})
		x, y = nx, ny
		ns := 1 + rng.IntN(6)
		if modelSegBoost {
			ns = 30 + rng.IntN(60)
		}
		for s := 0; s < ns; s++ {
			switch rng.IntN(9) {
			case 0:
				x = co()
				g.Cmds = append(g.Cmds, ref.WCmd{Op: 'L', Args: []int64{x, y}})
			case 1:
				y = co()
				g.Cmds = append(g.Cmds, ref.WCmd{Op: 'L', Args: []int64{x, y}})
			case 2, 3:
				x, y = co(), co()
				g.Cmds = append(g.Cmds, ref.WCmd{Op: 'L', Args: []int64{x, y}})
			case 4:
				x1, x2, y2, y3 := co(), co(), co(), co()
				g.Cmds = append(g.Cmds, ref.WCmd{Op: 'C', Args: []int64{x1, y, x2, y2, x2, y3}})
				x, y = x2, y3
			case 5:
				y1, x2, y2, x3 := co(), co(), co(), co()
				g.Cmds = append(g.Cmds, ref.WCmd{Op: 'C', Args: []int64{x, y1, x2, y2, x3, y2}})
				x, y = x3, y2
			case 6:
				if lay.Flex {
					// two curves written as a flex; the preceding segment may be a move, a line or a curve
					a := []int64{co(), co(), co(), co(), co(), co()}
					b := []int64{co(), co(), co(), co(), co(), co()}
					g.Cmds = append(g.Cmds, ref.WCmd{Op: 'C', Args: a, Flex: true}, ref.WCmd{Op: 'C', Args: b})
					x, y = b[4], b[5]
					prev := g.Cmds[len(g.Cmds)-3].Op
					feat[fmt.Sprintf("flex after %c", prev)] = true
					continue
				}
				fallthrough
			default:
				a := []int64{co(), co(), co(), co(), co(), co()}
				g.Cmds = append(g.Cmds, ref.WCmd{Op: 'C', Args: a})
				x, y = a[4], a[5]
			}
		}
		g.Cmds = append(g.Cmds, ref.WCmd{Op: 'Z'})
	}
	if wildModel && rng.IntN(5) == 0 {
		// a staircase: many consecutive segments with the same fractional step,
		// so that rounding errors of one sign would add up if they were not compensated
		g.Den = []int64{250, 1000, 213, 427}[rng.IntN(4)]
		den = g.Den
		g.SBX, g.SBY, g.UseSBW = 0, 0, false
		g.WX, g.WY = 500*den, 0
		g.Cmds = nil
		sx, sy := int64(10*den+1+int64(rng.IntN(3))), int64(20*den+2)
		x, y = 100*den, 100*den
		g.Cmds = append(g.Cmds, ref.WCmd{Op: 'M', Args: []int64{x, y}})
		for i, n := 0, 4+rng.IntN(30); i < n; i++ {
			x, y = x+sx, y+sy
			if rng.IntN(4) == 0 {
				g.Cmds = append(g.Cmds, ref.WCmd{Op: 'C', Args: []int64{x - sx/2, y - sy/3, x - sx/3, y - sy/2, x, y}})
			} else {
				g.Cmds = append(g.Cmds, ref.WCmd{Op: 'L', Args: []int64{x, y}})
			}
		}
		g.Cmds = append(g.Cmds, ref.WCmd{Op: 'Z'})
		feat["staircase of equal fractional steps"] = true
		return g
	}
	// stems: integer edges in absolute coordinates
	stemList := func() [][2]int64 {
		var out [][2]int64
		for i, n := 0, rng.IntN(4); i < n; i++ {
			a := int64(rng.IntN(1601) - 800)
			out = append(out, [2]int64{a, a + int64(rng.IntN(200)-20)})
		}
		return out
	}
	g.HStem, g.VStem = stemList(), stemList()
	if rng.IntN(6) == 0 {
		g.HStem = [][2]int64{{10, 30}, {100, 120}, {190, 210}}
		g.Stem3H = true
		feat["hstem3"] = true
	}
	if rng.IntN(6) == 0 {
		g.VStem = [][2]int64{{-50, 0}, {100, 150}, {250, 300}}
		g.Stem3V = true
		feat["vstem3"] = true
	}
	if lay.HintRepl && len(g.Cmds) > 2 && rng.IntN(3) == 0 {
		g.HintRepl = true
		feat["hint replacement"] = true
	}
	if rng.IntN(8) == 0 {
		g.DotSection = true
		feat["dotsection"] = true
	}
	return g
}

// wantGlyph converts a model glyph into the expected library glyph.
func wantGlyph(g *ref.WGlyph) *type1.Glyph {
	den := float64(g.Den)
	out := &type1.Glyph{WidthX: float64(g.WX) / den, WidthY: float64(g.WY) / den}
	for _, c := range g.Cmds {
		args := make([]float64, len(c.Args))
		for i, a := range c.Args {
			args[i] = float64(a) / den
		}
		switch c.Op {
		case 'M':
			out.Cmds = append(out.Cmds, type1.GlyphOp{Op: type1.OpMoveTo, Args: args})
		case 'L':
			out.Cmds = append(out.Cmds, type1.GlyphOp{Op: type1.OpLineTo, Args: args})
		case 'C':
			out.Cmds = append(out.Cmds, type1.GlyphOp{Op: type1.OpCurveTo, Args: args})
		case 'Z':
			out.Cmds = append(out.Cmds, type1.GlyphOp{Op: type1.OpClosePath})
		}
	}
	for _, s := range g.HStem {
		out.HStem = append(out.HStem, funit.Int16(s[0]), funit.Int16(s[1]))
	}
	for _, s := range g.VStem {
		out.VStem = append(out.VStem, funit.Int16(s[0]), funit.Int16(s[1]))
	}
	return out
}

var c06Dates = []struct {
	text string
	t    time.Time
}{
	{"2021-03-04 05:06:07 +0100 CET", time.Date(2021, 3, 4, 5, 6, 7, 0, time.FixedZone("CET", 3600))},
	{"2021-03-04 05:06:07 +0000 UTC", time.Date(2021, 3, 4, 5, 6, 7, 0, time.UTC)},
	{"Thu Mar 4 05:06:07 2021", time.Date(2021, 3, 4, 5, 6, 7, 0, time.UTC)},
	{"Thu, 4 Mar 2021 05:06:07", time.Date(2021, 3, 4, 5, 6, 7, 0, time.UTC)},
	{"Thu Mar 4 2021", time.Date(2021, 3, 4, 0, 0, 0, 0, time.UTC)},
	{"", time.Time{}},
}

func genModelFont(rng *rand.Rand) *modelFont { return genModelFontOpt(rng, false) }

// wildModel makes genModelFontOpt leave C06's comparison domain towards
// unusual but legal content (C10's inputs): absent FontName, fonts without
// .notdef, the empty glyph name and names over unusual regular characters,
// huge/tiny numbers, real-valued Private entries, BlueScale next to its default.
var wildModel = false

// modelSegBoost makes genModelGlyph write long contours (large fonts: the
// encrypted section exceeds 64 KiB, the boundary of the PFB length bytes).
var modelSegBoost = false

// genModelFontOpt: with nested set, composites get StandardEncoding names and
// a composite of a composite is added (outside C06's domain; used where only
// determinism or robustness matter).
func genModelFontOpt(rng *rand.Rand, nested bool) *modelFont {
	mf := &modelFont{feat: map[string]bool{}, skipStems: map[string]bool{}, ratSB: map[string]bool{}}
	lay := &ref.WLayout{
		Container: []string{"pfa", "bin", "pfb", "plain"}[rng.IntN(4)],
		LenIV:     []int{0, 1, 2, 3, 4, 4, 4, 5, 8, 16}[rng.IntN(10)],
		Dash:      rng.IntN(2) == 0,
		Decorate:  rng.IntN(2) == 0,
		OtherSubr: rng.IntN(3) == 0,
		Flex:      rng.IntN(3) == 0,
		HintRepl:  rng.IntN(3) == 0,
		Factor:    rng.IntN(4),
		FiveByte:  []int{0, 0, 10, 100}[rng.IntN(4)],
		General:   []int{0, 0, 30, 100}[rng.IntN(4)],
		LineEnd:   []string{"\n", "\n", "\r", "\r\n"}[rng.IntN(4)],
	}
	mf.lay = lay
	mf.feat[fmt.Sprintf("clear text line ends %q", lay.LineEnd)] = true
	big := rng.IntN(60) == 0
	if big {
		modelSegBoost = true
		defer func() { modelSegBoost = false }()
		mf.feat["large font (sections beyond 64 KiB)"] = true
	}
	w := &ref.WFont{FontName: "Model-" + strconv.Itoa(rng.IntN(1000)), Info: map[string]string{}, Private: map[string]string{}}
	mf.w = w
	want := &type1.Font{FontInfo: &type1.FontInfo{}, Private: &type1.PrivateDict{BlueScale: 0.039625, BlueShift: 7, BlueFuzz: 1}, Glyphs: map[string]*type1.Glyph{}}
	mf.want = want
	want.FontInfo.FontName = w.FontName
	o := &fontOpts{hostileStr: true}
	infoStr := func(key string, dst *string) {
		if rng.IntN(4) == 0 {
			return // absent
		}
		s := genInfoString(rng, o)
		if key == "version" && s == "" {
			s = "001.001"
		}
		w.Info[key] = s
		*dst = s
	}
	infoStr("version", &want.FontInfo.Version)
	infoStr("Notice", &want.FontInfo.Notice)
	infoStr("Copyright", &want.FontInfo.Copyright)
	if big && rng.IntN(2) == 0 {
		// the clear-text part exceeds 64 KiB as well
		long := strings.Repeat("All rights reserved. ", 3500)
		w.Info["Copyright"], want.FontInfo.Copyright = long, long
	}
	infoStr("FullName", &want.FontInfo.FullName)
	infoStr("FamilyName", &want.FontInfo.FamilyName)
	infoStr("Weight", &want.FontInfo.Weight)
	// respell writes a real the way other font tools do: .5 for 0.5, -.5, 12. for 12.0, a leading +
	respell := func(t string) string {
		switch {
		case strings.HasPrefix(t, "0.") && rng.IntN(2) == 0:
			t = t[1:]
		case strings.HasPrefix(t, "-0.") && rng.IntN(2) == 0:
			t = "-" + t[2:]
		case strings.HasSuffix(t, ".0") && rng.IntN(3) == 0:
			t = t[:len(t)-1]
		}
		if !strings.HasPrefix(t, "-") && rng.IntN(8) == 0 {
			t = "+" + t
		}
		return t
	}
	num := func() (string, float64) {
		switch rng.IntN(4) {
		case 0:
			v := rng.IntN(2001) - 1000
			return strconv.Itoa(v), float64(v)
		case 1:
			v := float64(rng.IntN(200001)-100000) / 100
			return respell(ref.RenderReal(v)), v
		default:
			v := float64(rng.IntN(401)-200) / 4
			return respell(ref.RenderReal(v)), v
		}
	}
	if rng.IntN(4) > 0 {
		s, v := num()
		w.ItalicAngle, want.FontInfo.ItalicAngle = s, v
	}
	if rng.IntN(4) > 0 {
		b := rng.IntN(2) == 0
		w.IsFixedPitch, want.FontInfo.IsFixedPitch = &b, b
	}
	if rng.IntN(4) > 0 {
		s, v := num()
		w.UnderlinePos, want.FontInfo.UnderlinePosition = s, funit.Float64(v)
	}
	if rng.IntN(4) > 0 {
		s, v := num()
		w.UnderlineThk, want.FontInfo.UnderlineThickness = s, funit.Float64(v)
	}
	// FontMatrix (default when absent)
	want.FontInfo.FontMatrix = matrix.Matrix{0.001, 0, 0, 0.001, 0, 0}
	switch rng.IntN(7) {
	case 6:
		w.FontMatrix = []string{"0", "0", "0", "0", "0", "0"}
		want.FontInfo.FontMatrix = matrix.Matrix{0, 0, 0, 0, 0, 0}
		mf.feat["font matrix of six zeros"] = true
	case 4:
		w.FontMatrix = []string{"0", "0.001", "-0.001", "0", "0", "0"}
		want.FontInfo.FontMatrix = matrix.Matrix{0, 0.001, -0.001, 0, 0, 0}
		mf.feat["font matrix with a zero diagonal"] = true
	case 5:
		w.FontMatrix = []string{"-0.00025", "0.5", "-2", "0.0625", "-7.5", "1e3"}
		want.FontInfo.FontMatrix = matrix.Matrix{-0.00025, 0.5, -2, 0.0625, -7.5, 1000}
		mf.feat["general font matrix"] = true
	case 0:
	case 1:
		w.FontMatrix = []string{"0.001", "0", "0", "0.001", "0", "0"}
		if rng.IntN(2) == 0 {
			w.FontMatrix = []string{".001", "0", "0", ".001", "0", "0"} // the spelling Adobe's own tools use
			mf.feat["reals spelled with a leading point"] = true
		}
	case 2:
		w.FontMatrix = []string{"0.0005", "0", "0.0001", "0.0005", "10", "-20"}
		want.FontInfo.FontMatrix = matrix.Matrix{0.0005, 0, 0.0001, 0.0005, 10, -20}
	default:
		w.FontMatrix = []string{"1", "0", "0", "1", "0", "0"}
		want.FontInfo.FontMatrix = matrix.Matrix{1, 0, 0, 1, 0, 0}
	}
	// Private values with documented defaults when absent
	p := want.Private
	if rng.IntN(2) == 0 {
		n := 2 * (1 + rng.IntN(3))
		var parts []string
		for i := 0; i < n; i++ {
			v := rng.IntN(2001) - 1000
			parts = append(parts, strconv.Itoa(v))
			p.BlueValues = append(p.BlueValues, funit.Int16(v))
		}
		w.Private["BlueValues"] = "[" + strings.Join(parts, " ") + "]"
	}
	if rng.IntN(3) == 0 {
		var parts []string
		for i := 0; i < 2; i++ {
			v := rng.IntN(2001) - 1000
			parts = append(parts, strconv.Itoa(v))
			p.OtherBlues = append(p.OtherBlues, funit.Int16(v))
		}
		w.Private["OtherBlues"] = "[" + strings.Join(parts, " ") + "]"
	}
	if rng.IntN(2) == 0 {
		v := float64(rng.IntN(1000)) / 10000
		w.Private["BlueScale"], p.BlueScale = ref.RenderReal(v), v
	}
	if rng.IntN(2) == 0 {
		v := rng.IntN(30)
		w.Private["BlueShift"], p.BlueShift = strconv.Itoa(v), int32(v)
	}
	if rng.IntN(2) == 0 {
		v := rng.IntN(6)
		w.Private["BlueFuzz"], p.BlueFuzz = strconv.Itoa(v), int32(v)
	}
	if rng.IntN(2) == 0 {
		v := float64(rng.IntN(400)) / 2
		w.Private["StdHW"], p.StdHW = "["+ref.RenderReal(v)+"]", v
		if v == float64(int(v)) && rng.IntN(2) == 0 {
			w.Private["StdHW"] = "[" + strconv.Itoa(int(v)) + "]"
		}
	}
	if rng.IntN(2) == 0 {
		v := float64(rng.IntN(400)) / 2
		w.Private["StdVW"], p.StdVW = "["+ref.RenderReal(v)+"]", v
	}
	if rng.IntN(2) == 0 {
		b := rng.IntN(2) == 0
		w.Private["ForceBold"], p.ForceBold = fmt.Sprint(b), b
	}
	if rng.IntN(4) == 0 {
		w.Private["StemSnapH"] = "[50 60]"
		w.Private["UniqueID"] = "5000000"
	}
	d := c06Dates[rng.IntN(len(c06Dates))]
	w.DateLine, want.CreationDate = d.text, d.t

	// glyphs
	std := ref.MustStdEnc()
	var stdNames []string
	codeOf := map[string]int{}
	for i, n := range std {
		if n != ".notdef" {
			if _, dup := codeOf[n]; !dup {
				stdNames = append(stdNames, n)
				codeOf[n] = i
			}
		}
	}
	used := map[string]bool{".notdef": true}
	notdef := genModelGlyph(rng, ".notdef", lay, mf.feat)
	w.Glyphs = append(w.Glyphs, notdef)
	n := rng.IntN(12)
	if rng.IntN(20) == 0 {
		n = 40 + rng.IntN(20)
	}
	if big {
		n = 200 + rng.IntN(200)
	}
	for i := 0; i < n; i++ {
		name := stdNames[rng.IntN(len(stdNames))]
		if rng.IntN(5) == 0 || big && i > 100 {
			name = fmt.Sprintf("glyph%d", i)
		}
		if rng.IntN(12) == 0 {
			// a name spelled with multi-byte UTF-8 sequences (all bytes are regular characters)
			name = string([]rune{[]rune{0x0120, 0x0100, 0x4E00, 0x212F, 0x3000, 0x0128, 0x00E9, 0x1F600}[rng.IntN(8)], rune(0x100 + rng.IntN(0x3000))}) + strconv.Itoa(i)
			mf.feat["glyph name in UTF-8"] = true
		}
		if used[name] {
			continue
		}
		used[name] = true
		w.Glyphs = append(w.Glyphs, genModelGlyph(rng, name, lay, mf.feat))
	}
	// encoding
	encKind := rng.IntN(4)
	switch encKind {
	case 0:
		w.StdEncoding = true
		want.Encoding = append([]string(nil), std...)
	case 3:
		// an explicit array that agrees with the standard encoding wherever that assigns
		// a glyph, plus glyphs of this font at codes the standard leaves empty (code 0 first)
		w.Encoding = append([]string(nil), std...)
		placed := 0
		for _, g := range w.Glyphs {
			if g.Name == ".notdef" || codeOf[g.Name] != 0 || g.Name == std[0] {
				continue
			}
			at := 0
			if placed > 0 {
				at = []int{1, 31, 127, 128, 160, 255}[rng.IntN(6)]
				if std[at] != ".notdef" || w.Encoding[at] != ".notdef" {
					continue
				}
			}
			w.Encoding[at] = g.Name
			placed++
			if placed >= 3 {
				break
			}
		}
		mf.feat["standard encoding plus glyphs at empty codes"] = true
		want.Encoding = append([]string(nil), w.Encoding...)
	default:
		w.Encoding = make([]string, 256)
		for i := range w.Encoding {
			w.Encoding[i] = ".notdef"
		}
		perm := rng.Perm(256)
		for i, g := range w.Glyphs {
			if i >= 256 {
				break
			}
			if g.Name != ".notdef" && rng.IntN(4) > 0 {
				w.Encoding[perm[i]] = g.Name
			}
		}
		if rng.IntN(3) == 0 {
			w.Encoding[perm[255]] = "absentglyph"
		}
		want.Encoding = append([]string(nil), w.Encoding...)
	}
	if nested {
		encKind = 0
		w.StdEncoding, w.Encoding = true, nil
		want.Encoding = append([]string(nil), std...)
	}
	// composites (DESIGN.md 10.1); the component codes always refer to
	// StandardEncoding, whatever the font's own encoding is
	if nested || rng.IntN(2) == 0 {
		if encKind != 0 {
			mf.feat["seac composite in a font with its own encoding"] = true
		}
		var cands []*ref.WGlyph
		for _, g := range w.Glyphs {
			if _, ok := codeOf[g.Name]; ok && g.Den == 1 && !g.UseSBW {
				cands = append(cands, g)
			}
		}
		sameBase := rng.IntN(2) == 0
		var firstBase *ref.WGlyph
		var compNames []string
		for k := 0; k < 3 && len(cands) >= 2; k++ {
			base, acc := cands[rng.IntN(len(cands))], cands[rng.IntN(len(cands))]
			if sameBase && firstBase != nil {
				base = firstBase // several composites on one base glyph
			}
			firstBase = base
			name := fmt.Sprintf("comp%d", k)
			if nested {
				for _, sn := range stdNames {
					if !used[sn] {
						name = sn
						used[sn] = true
						break
					}
				}
			}
			compNames = append(compNames, name)
			comp := &ref.WGlyph{Name: name, Den: 1, SBX: acc.SBX, WX: base.WX,
				Seac: &ref.WSeac{Base: base.Name, Accent: acc.Name, BChar: codeOf[base.Name], AChar: codeOf[acc.Name], ADX: int64(rng.IntN(401) - 200), ADY: int64(rng.IntN(401) - 200)}}
			w.Glyphs = append(w.Glyphs, comp)
			mf.feat["seac composite"] = true
			mf.skipStems[name] = true
		}
		if nested && len(compNames) > 0 && len(cands) > 0 {
			if bc, ok := codeOf[compNames[0]]; ok {
				acc := cands[rng.IntN(len(cands))]
				w.Glyphs = append(w.Glyphs, &ref.WGlyph{Name: "nestedcomp", Den: 1, SBX: acc.SBX, WX: 500,
					Seac: &ref.WSeac{Base: compNames[0], Accent: acc.Name, BChar: bc, AChar: codeOf[acc.Name], ADX: 7, ADY: 9}})
			}
		}
	}
	// a second name for the same charstring, byte for byte (`A` and `A.alt`,
	// `Aacute` and `Aacute.sc`): each name has the outline, composites included
	if rng.IntN(3) == 0 && len(w.Glyphs) > 1 {
		for k, n := 0, 1+rng.IntN(2); k < n; k++ {
			g := w.Glyphs[rng.IntN(len(w.Glyphs))]
			if g.Seac == nil && rng.IntN(2) == 0 {
				// prefer a composite when there is one
				for _, h := range w.Glyphs {
					if h.Seac != nil && rng.IntN(2) == 0 {
						g = h
						break
					}
				}
			}
			name := g.Name + []string{".alt", ".sc", "0", "zz"}[rng.IntN(4)]
			if g.Name == "" || g.Name == ".notdef" || g.SameAs != "" || used[name] {
				continue
			}
			used[name] = true
			dup := *g
			dup.Name, dup.SameAs = name, g.Name
			w.Glyphs = append(w.Glyphs, &dup)
			if mf.skipStems[g.Name] {
				mf.skipStems[name] = true
			}
			mf.feat["two names for one charstring"] = true
			if g.Seac != nil {
				mf.feat["two names for one composite charstring"] = true
			}
		}
	}
	// expected glyphs
	byName := map[string]*ref.WGlyph{}
	for _, g := range w.Glyphs {
		byName[g.Name] = g
	}
	for _, g := range w.Glyphs {
		if g.Seac != nil && byName[g.Seac.Base].Seac != nil {
			continue // nested composite: no expectation (not in C06's domain)
		}
		if g.Seac != nil {
			base, acc := wantGlyph(byName[g.Seac.Base]), wantGlyph(byName[g.Seac.Accent])
			wg := &type1.Glyph{WidthX: base.WidthX, WidthY: base.WidthY}
			wg.Cmds = append(wg.Cmds, base.Cmds...)
			for _, c := range acc.Cmds {
				nc := type1.GlyphOp{Op: c.Op}
				for i, a := range c.Args {
					if i%2 == 0 {
						nc.Args = append(nc.Args, a+float64(g.Seac.ADX))
					} else {
						nc.Args = append(nc.Args, a+float64(g.Seac.ADY))
					}
				}
				wg.Cmds = append(wg.Cmds, nc)
			}
			want.Glyphs[g.Name] = wg
			continue
		}
		want.Glyphs[g.Name] = wantGlyph(g)
		if g.HintRepl {
			mf.skipStems[g.Name] = true
		}
	}
	if wildModel {
		if rng.IntN(4) == 0 {
			w.OmitFontName = true
		}
		if rng.IntN(4) == 0 {
			w.Glyphs = w.Glyphs[1:] // no .notdef
			mf.feat["font without .notdef"] = true
		}
		if rng.IntN(4) == 0 {
			g := genModelGlyph(rng, "", lay, mf.feat)
			w.Glyphs = append(w.Glyphs, g)
			mf.feat["empty glyph name"] = true
			if !w.StdEncoding && len(w.Encoding) == 256 && len(want.Encoding) == 256 && rng.IntN(2) == 0 {
				// ... and a code that selects it (`dup 66 / put`)
				code := rng.IntN(256)
				w.Encoding[code], want.Encoding[code] = "", ""
				mf.feat["empty glyph name in the encoding"] = true
			}
		}
		for i := 0; i < 3; i++ {
			name := genGlyphName(rng, i)
			if !used[name] && rng.IntN(2) == 0 {
				used[name] = true
				w.Glyphs = append(w.Glyphs, genModelGlyph(rng, name, lay, mf.feat))
			}
		}
		wildNum := func() string {
			return []string{"1e300", "1e-300", "-0.0", "1e38", "-1e21", "0.1", "123456789.125", "1e-7", "16#FF", "8#17", "1.", ".5", "-.5e1", "+7"}[rng.IntN(14)]
		}
		if rng.IntN(2) == 0 {
			w.ItalicAngle = wildNum()
		}
		if rng.IntN(2) == 0 {
			w.UnderlinePos = wildNum()
		}
		if rng.IntN(3) == 0 {
			w.UnderlineThk = wildNum()
		}
		if rng.IntN(3) == 0 {
			w.FontMatrix = []string{wildNum(), "0", wildNum(), "0.001", wildNum(), "0"}
		}
		switch rng.IntN(6) {
		case 0:
			w.Private["BlueValues"] = "[1.5 2 3 4.25]"
		case 1:
			w.Private["BlueScale"] = []string{"0.0396255", "0.0396245", "0.039626", "0.03962", "0.039625"}[rng.IntN(5)]
		case 2:
			w.Private["StdHW"] = "[" + wildNum() + "]"
		case 3:
			w.Private["BlueShift"] = "7.5"
		case 4:
			w.Private["StdVW"] = "[1 2]"
		case 5:
			w.Private["StdHW"] = []string{"[-30]", "[-0.5]", "[0]"}[rng.IntN(3)]
			w.Private["StdVW"] = []string{"[-12.5]", "[-1]", "[1e-3]"}[rng.IntN(3)]
		}
		if rng.IntN(4) == 0 {
			w.DateLine = []string{"not a date", "2021-13-45 99:99:99 +0000 UTC", "Thu Mar 4 05:06:07 2021 ", "2021-03-04 05:06:07 -0930 XYZ"}[rng.IntN(4)]
		}
		if rng.IntN(3) == 0 {
			w.Info["version"] = "1.0\nline2 % comment (x\r\fy"
		}
	}
	anyRat := false
	for _, g := range w.Glyphs {
		if g.Den > 1 && (g.SBX%g.Den != 0 || g.SBY%g.Den != 0) {
			mf.ratSB[g.Name] = true
			anyRat = true
		}
	}
	if anyRat {
		// composites are assembled from their components' (inexact) outlines
		for _, g := range w.Glyphs {
			if g.Seac != nil {
				mf.ratSB[g.Name] = true
			}
		}
	}
	lay.Desc = fmt.Sprintf("%+v", *lay)
	return mf
}

func runC06(r *rt.Runner) {
	n := r.N(40000, 400000)
	for k := 0; k < n; k++ {
		r.Case("model-font", func(c *rt.C) {
			rng := c.Rand()
			mf := genModelFont(rng)
			data := ref.RenderType1(rng, mf.w, mf.lay)
			if mf.lay.SparseSubrs && len(mf.lay.Subrs) > 0 && mf.lay.Subrs[len(mf.lay.Subrs)-1] != nil {
				c.Count("feature: subroutines behind unused Subrs slots")
			}
			c.SetDetail(func() string {
				return fmt.Sprintf("layout: container=%s lenIV=%d dash=%v decorate=%v flex=%v hintrepl=%v factor=%d fivebyte=%d%% general=%d%% subrs=%d\nexpected font:\n%s",
					mf.lay.Container, mf.lay.LenIV, mf.lay.Dash, mf.lay.Decorate, mf.lay.Flex, mf.lay.HintRepl, mf.lay.Factor, mf.lay.FiveByte, mf.lay.General, len(mf.lay.Subrs), describeFont(mf.want))
			})
			// self-check of the machinery: the independent reader (R4) must
			// understand the independent writer (R3) and see the model font
			if msg := selfCheckModel(data, mf); msg != "" {
				c.Inconclusive("harness self-check failed")
				c.Violation("SELF-CHECK", "harness inconsistency (independent writer vs independent reader): "+msg, "")
				return
			}
			// the source: a reader positioned at the start, a seekable reader
			// positioned behind other data, or a plain stream in arbitrary chunks
			var src io.Reader = bytes.NewReader(data)
			srcDesc := "bytes.Reader"
			switch rng.IntN(5) {
			case 0:
				const wrapper = "%!PS-AdobeFont-1.0: Wrapper\n\x80\x01\x00 /x def"
				prefix := make([]byte, 1+rng.IntN(300))
				for i := range prefix {
					prefix[i] = wrapper[rng.IntN(len(wrapper))]
				}
				br := bytes.NewReader(append(prefix, data...))
				if rng.IntN(2) == 0 {
					br.Seek(int64(len(prefix)), io.SeekStart)
				} else {
					io.CopyN(io.Discard, br, int64(len(prefix)))
				}
				src, srcDesc = br, fmt.Sprintf("seekable reader positioned at offset %d", len(prefix))
			case 1:
				src, srcDesc = &mon.PlanReader{Data: data, Chunks: randChunks(rng)}, "stream delivered in chunks"
			}
			f, err := type1.Read(src)
			c.Count("source: " + strings.SplitN(srcDesc, " at offset", 2)[0])
			if err != nil {
				c.Violation("read-error|"+errClass(err), fmt.Sprintf("type1.Read rejected a conforming font (%s, %s): %v", mf.lay.Container, srcDesc, err), "")
				return
			}
			if d := compareFonts(mf.want, f, fontTol{coord: 1e-9, skipStems: mf.skipStems, inexact: mf.ratSB}); len(d) > 0 {
				c.Violation("content|"+diffKind(d[0]), "the font read differs from the font the file describes:\n  "+joinLines(d), "")
			}
			// the font belongs to the caller: write into everything it holds (a
			// later Read in this process must not see any of it, and the shared
			// standard encoding table must stay as it is - see the canary)
			for i := range f.Encoding {
				f.Encoding[i] = "scribbled"
			}
			for _, g := range f.Glyphs {
				for _, cmd := range g.Cmds {
					for i := range cmd.Args {
						cmd.Args[i] += 1e6
					}
				}
				for i := range g.HStem {
					g.HStem[i] = -g.HStem[i] - 1
				}
				for i := range g.VStem {
					g.VStem[i] = -g.VStem[i] - 1
				}
			}
			c.Count("container " + mf.lay.Container)
			c.Count(fmt.Sprintf("lenIV %d", mf.lay.LenIV))
			if mf.lay.DeepChains > 0 {
				c.Count("feature: subroutine calls nested 10 deep")
			}
			if len(mf.lay.Subrs) > 0 {
				c.Count("fonts with subroutines")
			}
			for ft := range mf.feat {
				c.Count("feature: " + ft)
			}
			c.Nontrivial(data, func() string {
				return fmt.Sprintf("%d glyphs, %s, lenIV %d, %d subrs", len(mf.w.Glyphs), mf.lay.Container, mf.lay.LenIV, len(mf.lay.Subrs))
			})
		})
	}
}

func errClass(err error) string {
	s := err.Error()
	if i := strings.Index(s, ":"); i > 0 {
		s = s[:i]
	}
	if len(s) > 40 {
		s = s[:40]
	}
	return s
}

// selfCheckModel reads R3's output with R4 and compares outlines, widths and
// stems with the model.
func selfCheckModel(data []byte, mf *modelFont) string {
	payload := data
	if len(data) > 0 && data[0] == 0x80 {
		p, _, err := ref.DeframePFB(data)
		if err != nil {
			return err.Error()
		}
		payload = p
	}
	m, err := ref.ReadType1(payload, ref.MustStdEnc())
	if err != nil {
		return err.Error()
	}
	for _, g := range mf.w.Glyphs {
		mg := m.Glyphs[g.Name]
		if mg == nil {
			return "glyph " + g.Name + " missing"
		}
		if g.Seac != nil {
			if mg.Seac == nil {
				return "glyph " + g.Name + " is not a seac"
			}
			continue
		}
		w := wantGlyph(g)
		if msg := comparePath(w.Cmds, mg.Cmds, false); msg != "" {
			return "glyph " + g.Name + ": " + msg
		}
		den := float64(g.Den)
		if mg.WX != float64(g.WX)/den || mg.WY != float64(g.WY)/den {
			return fmt.Sprintf("glyph %s: width (%v,%v)", g.Name, mg.WX, mg.WY)
		}
		if !stemsMatch(w.HStem, mg.HStem) || !stemsMatch(w.VStem, mg.VStem) {
			return fmt.Sprintf("glyph %s: stems h=%v v=%v, model h=%v v=%v", g.Name, mg.HStem, mg.VStem, w.HStem, w.VStem)
		}
	}
	return ""
}
