package props

// C03 — Procedures, name lookup and control flow follow PostScript semantics.
//
// The operand stack is used as an execution trace: every body pushes literals
// that are unique in the program, loop bodies leave their loop operands on the
// stack, so the final stack (compared against the reference evaluator R1)
// shows which bodies ran, how often, in which order, with which operands, and
// whether a procedure literal was pushed or run.
//
// Clause map: deferred execution / literal procedures pushed at every position
// -> nested literals generated first, middle, last and alone; name resolution
// top-down at execution time, operators at bind time -> dictionary shadowing,
// redefinition between definition and call, bind + redefinition; one branch
// -> if/ifelse with unique literals; loops -> for/forall/loop/repeat shapes;
// exit/stop/invalidexit -> exit and stop at arbitrary points.

import (
	"fmt"
	"math/rand/v2"
	"strings"

	"verif/harness/ref"
	"verif/harness/rt"
)

func init() { register("C03", runC03) }

type g3 struct {
	rng   *rand.Rand
	next  int
	names int
	procs []string
	feat  map[string]bool
	maxD  int
	// multiDict allows forall over dictionaries with several entries (the
	// body discards the pair first). Only for comparisons against the model,
	// which knows that a run ending while the pair is on the stack is
	// order-dependent; real-vs-real comparisons (C05, C11, C12) must not use it.
	multiDict bool
}

func (g *g3) lit() ref.Tok { g.next++; return ref.TInt(1000 + g.next) }

func (g *g3) newName(prefix string) string {
	g.names++
	return fmt.Sprintf("%s%d", prefix, g.names)
}

func (g *g3) proc(depth, loops int) ref.TProc {
	return ref.TProc(g.body(depth+1, loops))
}

// body generates a token run. loops is the number of enclosing loops (exit is
// generated more often inside them).
func (g *g3) body(depth, loops int) []ref.Tok {
	n := g.rng.IntN(5)
	if depth == 0 {
		n = 2 + g.rng.IntN(6)
	}
	var out []ref.Tok
	for i := 0; i < n; i++ {
		out = append(out, g.element(depth, loops)...)
	}
	return out
}

func (g *g3) element(depth, loops int) []ref.Tok {
	deep := depth >= g.maxD
	k := g.rng.IntN(56)
	if deep && ((k >= 8 && k < 30) || k == 45 || k == 46 || k == 54) {
		k = g.rng.IntN(8)
	}
	switch {
	case k < 7:
		return []ref.Tok{g.lit()}
	case k < 10:
		g.feat["nested literal procedure"] = true
		return []ref.Tok{g.proc(depth, 0)}
	case k < 12:
		g.feat["exec"] = true
		return []ref.Tok{g.proc(depth, loops), xn("exec")}
	case k < 14:
		g.feat["if"] = true
		return []ref.Tok{g.cond(), g.proc(depth, loops), xn("if")}
	case k < 17:
		g.feat["ifelse"] = true
		return []ref.Tok{g.cond(), g.proc(depth, loops), g.proc(depth, loops), xn("ifelse")}
	case k < 20:
		g.feat["for"] = true
		shapes := [][3]int{{0, 1, 2}, {3, -1, 1}, {1, 1, 0}, {0, 2, 5}, {5, 1, 5}, {2, -2, -3}, {0, -1, 1}, {-1, 1, 1}}
		s := shapes[g.rng.IntN(len(shapes))]
		return []ref.Tok{ref.TInt(s[0]), ref.TInt(s[1]), ref.TInt(s[2]), g.proc(depth, loops+1), xn("for")}
	case k < 22:
		g.feat["repeat"] = true
		return []ref.Tok{ref.TInt(g.rng.IntN(4)), g.proc(depth, loops+1), xn("repeat")}
	case k < 25:
		g.feat["forall"] = true
		var coll []ref.Tok
		switch g.rng.IntN(4) {
		case 0:
			coll = append(coll, xn("["))
			for j := g.rng.IntN(4); j > 0; j-- {
				coll = append(coll, g.lit())
			}
			coll = append(coll, xn("]"))
		case 1:
			coll = []ref.Tok{ref.TStr([]byte("ab")[:g.rng.IntN(3)])}
		case 2:
			coll = []ref.Tok{xn("<<"), ln(g.newName("k")), g.lit(), xn(">>")}
		case 3:
			coll = []ref.Tok{xn("["), g.proc(depth, 0), g.lit(), xn("]")}
		}
		if g.multiDict && g.rng.IntN(5) == 0 {
			// several entries: the body discards the pair first, so the
			// enumeration order cannot show
			g.feat["forall over a multi-entry dictionary"] = true
			coll = []ref.Tok{xn("<<")}
			for j := 2 + g.rng.IntN(3); j > 0; j-- {
				coll = append(coll, ln(g.newName("k")), g.lit())
			}
			coll = append(coll, xn(">>"))
			body := append([]ref.Tok{xn("pop"), xn("pop")}, g.body(depth+1, loops+1)...)
			return append(coll, ref.TProc(body), xn("forall"))
		}
		return append(coll, g.proc(depth, loops+1), xn("forall"))
	case k < 27:
		g.feat["loop"] = true
		cn := g.newName("c")
		limit := 1 + g.rng.IntN(3)
		inner := []ref.Tok{ln(cn), xn(cn), ref.TInt(1), xn("add"), xn("def")}
		inner = append(inner, g.body(depth+1, loops+1)...)
		inner = append(inner, xn(cn), ref.TInt(int64(limit)), xn("eq"), ref.TProc{xn("exit")}, xn("if"))
		inner = append(inner, g.body(depth+1, loops+1)...)
		return []ref.Tok{ln(cn), ref.TInt(0), xn("def"), ref.TProc(inner), xn("loop")}
	case k < 28:
		if loops > 0 || g.rng.IntN(6) == 0 {
			g.feat["exit"] = true
			return []ref.Tok{xn("exit")}
		}
		return []ref.Tok{g.lit()}
	case k < 29:
		if g.rng.IntN(5) == 0 {
			g.feat["stop"] = true
			return []ref.Tok{xn("stop")}
		}
		return []ref.Tok{g.lit()}
	case k < 32:
		g.feat["define and call"] = true
		pn := g.newName("p")
		g.procs = append(g.procs, pn)
		out := []ref.Tok{ln(pn), g.proc(depth, loops), xn("def")}
		if g.rng.IntN(3) > 0 {
			out = append(out, xn(pn))
		}
		return out
	case k < 34:
		if len(g.procs) > 0 {
			pn := g.procs[g.rng.IntN(len(g.procs))]
			switch g.rng.IntN(4) {
			case 0:
				g.feat["load exec"] = true
				return []ref.Tok{ln(pn), xn("load"), xn("exec")}
			case 1:
				g.feat["redefinition before call (late binding)"] = true
				return []ref.Tok{ln(pn), g.proc(depth, loops), xn("def"), xn(pn)}
			default:
				return []ref.Tok{xn(pn)}
			}
		}
		return []ref.Tok{g.lit()}
	case k < 36:
		g.feat["dictionary shadowing"] = true
		vn := g.newName("v")
		out := []ref.Tok{ln(vn), g.lit(), xn("def"),
			xn("<<"), ln(vn), g.lit(), xn(">>"), xn("begin"), xn(vn)}
		if g.rng.IntN(2) == 0 {
			out = append(out, ln(vn), g.lit(), xn("def"), xn(vn))
		}
		out = append(out, g.body(depth+1, loops)...)
		if g.rng.IntN(8) > 0 {
			out = append(out, xn("end"), xn(vn))
		}
		return out
	case k < 38:
		g.feat["bind"] = true
		pn := g.newName("b")
		inner := []ref.Tok{g.lit(), g.lit(), xn("add"), ln("sub"), ref.TProc{g.lit(), xn("dup"), ln("dup")}, xn("exec")}
		if len(g.procs) > 0 {
			inner = append(inner, xn(g.procs[g.rng.IntN(len(g.procs))]))
		}
		var out []ref.Tok
		if g.rng.IntN(3) == 0 {
			// an operator name shadowed before bind stays a name
			g.feat["bind under shadowing"] = true
			out = append(out, ln("add"), ref.TProc{xn("exch"), xn("pop")}, xn("def"))
		}
		out = append(out, ln(pn), ref.TProc(inner), xn("bind"), xn("def"))
		// redefining operator names afterwards must not affect the bound body
		out = append(out, ln("add"), ref.TProc{xn("pop")}, xn("def"), ln("dup"), ref.TProc{xn("pop"), g.lit()}, xn("def"))
		out = append(out, xn(pn), ln(pn), xn("load"))
		return out
	case k < 40:
		ops := []string{"pop", "dup", "exch", "count", "add"}
		return []ref.Tok{xn(ops[g.rng.IntN(len(ops))])}
	case k < 42:
		// forall over strings of arbitrary bytes: one round per byte, the byte
		// value as an integer
		g.feat["forall over a byte string"] = true
		special := []byte{0, 9, 10, 13, 32, 40, 41, 92, 127, 128, 0xA9, 0xC3, 0xE2, 0xF0, 0xFE, 0xFF}
		b := make([]byte, g.rng.IntN(6))
		for i := range b {
			if g.rng.IntN(2) == 0 {
				b[i] = special[g.rng.IntN(len(special))]
			} else {
				b[i] = byte(g.rng.IntN(256))
			}
		}
		return []ref.Tok{ref.TStr(b), g.proc(depth, loops+1), xn("forall")}
	case k < 44:
		// a name is used, re-bound by writing into a dictionary that is on the
		// dictionary stack (put / copy, not def), and used again
		g.feat["rebinding through put or copy"] = true
		name := []string{"add", "dup", "exch", "sub"}[g.rng.IntN(4)]
		if len(g.procs) > 0 && g.rng.IntN(2) == 0 {
			name = g.procs[g.rng.IntN(len(g.procs))]
		}
		use := func() []ref.Tok { return []ref.Tok{g.lit(), g.lit(), xn(name)} }
		var out []ref.Tok
		if g.rng.IntN(4) > 0 {
			out = append(out, use()...)
		}
		newBody := ref.TProc{g.lit()}
		if g.rng.IntN(2) == 0 {
			newBody = ref.TProc{xn("pop"), g.lit()}
		}
		switch g.rng.IntN(4) {
		case 0:
			out = append(out, xn("userdict"), ln(name), newBody, xn("put"))
		case 1:
			out = append(out, xn("currentdict"), ln(name), newBody, xn("put"))
		case 2:
			out = append(out, xn("<<"), ln(name), newBody, xn(">>"), xn("currentdict"), xn("copy"), xn("pop"))
		default:
			out = append(out, ln(name), newBody, xn("def"))
		}
		out = append(out, use()...)
		if g.rng.IntN(3) == 0 {
			// inside a procedure and a loop as well (second pass sees the new binding)
			out = append(out, ref.TInt(2), ref.TProc(use()), xn("repeat"))
		}
		return out
	case k < 45:
		// a key bound to null is found by name lookup like any other key
		g.feat["name bound to null"] = true
		vn := g.newName("z")
		null := []ref.Tok{ref.TInt(1), xn("array"), ref.TInt(0), xn("get")}
		out := []ref.Tok{ln(vn), g.lit(), xn("def")}
		switch g.rng.IntN(3) {
		case 0:
			out = append(append(append(out, ln(vn)), null...), xn("def"), xn(vn))
		case 1:
			out = append(append(append(out, xn("<<"), ln(vn)), null...), xn(">>"), xn("begin"), xn(vn), ln(vn), xn("load"), xn("end"), xn(vn))
		default:
			out = append(append(append(out, xn("<<"), ln(vn)), null...), xn(">>"), xn("begin"), ln(vn), xn("where"),
				ref.TProc{xn("pop"), g.lit()}, ref.TProc{g.lit()}, xn("ifelse"), xn("end"))
		}
		return out
	case k < 46:
		g.feat["for with random bounds"] = true
		steps := []int{-3, -2, -1, 1, 2, 3}
		return []ref.Tok{ref.TInt(int64(g.rng.IntN(9) - 4)), ref.TInt(int64(steps[g.rng.IntN(len(steps))])), ref.TInt(int64(g.rng.IntN(11) - 5)),
			g.proc(depth, loops+1), xn("for")}
	case k < 47:
		g.feat["repeat with a larger count"] = true
		return []ref.Tok{ref.TInt(int64(4 + g.rng.IntN(6))), g.proc(depth, loops+1), xn("repeat")}
	case k < 49:
		// procedures made from arrays by cvx, or fetched from a container, and executed:
		// the elements run in order, a nested procedure is pushed
		g.feat["cvx array or fetched procedure executed"] = true
		if g.rng.IntN(2) == 0 {
			return []ref.Tok{xn("["), g.lit(), ref.TProc{g.lit()}, g.lit(), xn("]"), xn("cvx"), xn("exec")}
		}
		return []ref.Tok{xn("["), ref.TProc{g.lit(), ref.TProc{g.lit()}}, g.lit(), xn("]"), ref.TInt(0), xn("get"), xn("exec")}
	case k < 50:
		return []ref.Tok{g.lit()}
	case k < 52:
		// a string constant in a body is ONE object: every execution pushes a
		// reference to it (seen as sharing in the final state), and a write
		// through one reference shows through the others
		g.feat["string constant in a body"] = true
		g.next++
		out := []ref.Tok{ref.TStr(fmt.Sprintf("s%d", g.next))}
		if g.rng.IntN(3) == 0 {
			out = append(out, xn("dup"), ref.TInt(0), ref.TInt(int64(65+g.rng.IntN(26))), xn("put"))
		}
		return out
	case k < 54:
		// a name bound to an executable NAME (fetched out of a body): executing it
		// looks the other name up in turn, at that moment
		g.feat["name bound to an executable name"] = true
		al := g.newName("al")
		target := []string{"add", "dup", "exch", "pop", "count"}[g.rng.IntN(5)]
		if len(g.procs) > 0 && g.rng.IntN(2) == 0 {
			target = g.procs[g.rng.IntN(len(g.procs))]
		}
		if loops > 0 && g.rng.IntN(3) == 0 {
			target = "exit"
		}
		out := []ref.Tok{ln(al), ref.TProc{xn(target)}, ref.TInt(0), xn("get"), xn("def"), g.lit(), g.lit(), xn(al)}
		if g.rng.IntN(3) == 0 {
			// late binding through the alias: the target is re-bound before the next use
			out = append(out, ln(target), ref.TProc{xn("pop"), g.lit()}, xn("def"), g.lit(), g.lit(), xn(al))
		}
		return out
	case k < 55:
		// for between bounds that are far apart in the integer range
		g.feat["for with bounds far apart"] = true
		sh := [][3]int64{{-5000000000000000000, 2500000000000000000, 5000000000000000000}, {-4000000000000000000, 4000000000000000000, 9000000000000000000},
			{9223372036854775805, 1, 9223372036854775807}, {-9223372036854775806, -1, -9223372036854775808}, {-9223372036854775808, 4611686018427387904, 9223372036854775807},
			{9223372036854775807, -9223372036854775807, -9223372036854775808}, {-1, 1, 9223372036854775807}, {1, -1, -9223372036854775808}}[g.rng.IntN(8)]
		body := g.proc(depth, loops+1)
		if sh[1] == 1 || sh[1] == -1 {
			// many rounds: leave after a few
			cn := g.newName("n")
			body = append(ref.TProc{ln(cn), xn(cn), ref.TInt(1), xn("add"), xn("def"), xn(cn), ref.TInt(int64(2 + g.rng.IntN(3))), xn("eq"), ref.TProc{xn("exit")}, xn("if")}, body...)
			return []ref.Tok{ln(cn), ref.TInt(0), xn("def"), ref.TInt(sh[0]), ref.TInt(sh[1]), ref.TInt(sh[2]), body, xn("for")}
		}
		return []ref.Tok{ref.TInt(sh[0]), ref.TInt(sh[1]), ref.TInt(sh[2]), body, xn("for")}
	default:
		return []ref.Tok{g.lit()}
	}
}

func (g *g3) cond() ref.Tok {
	if g.rng.IntN(2) == 0 {
		return xn("true")
	}
	return xn("false")
}

var c03Pinned = []string{
	// a procedure bound twice: the second bind sees the names as they are then
	"/p { plus } def /p load bind pop /plus /add load def /p load bind pop /plus { mul } def 3 4 p",
	"/plus { sub } def /p { 3 4 plus } def /p load bind pop /plus /add load def /p load bind pop /plus { mul } def p",
	"/q { 1 2 w } def 3 { /q load bind pop } repeat /w /add load def /q load bind pop /w { pop } def q",
	// the same dictionary pushed twice: two entries on the dictionary stack, two ends
	"/d 3 dict def d begin d begin /x 1 def end x end",
	"3 dict begin currentdict begin /x 1 def end /y x def end",
	"/d 2 dict def 1 dict begin d begin d begin d begin end end /z 5 def end z end",
	// an operator redefined in userdict, met below further dictionaries
	"/add { sub } def 2 dict begin 1 dict begin 7 3 add end end",
	"/length 42 def 3 dict begin /x 1 def /p { length } def p end",
	"/exch { pop } def 1 dict begin { 1 2 exch } exec end",
	// bind replaces every name whose value is an operator at that moment -
	// also a name of the program's own that is an alias of an operator
	"/plus /add load def /f {1 2 plus} bind def /plus {sub} def f",
	"/plus /add load def /f { { 1 2 plus } exec } bind def /plus { sub } def f",
	"/plus /add load def /f {1 2 plus} def /plus {sub} def f",
	"/plus /add load def /f {1 2 plus} bind def /plus 7 def f",
	"/dup2 /dup load def /f { 5 dup2 } bind def /dup2 { pop 9 } def f",
	"<< /plus /add load >> begin {1 2 plus} bind end /plus {mul} def exec",
	"<< /plus /add load >> begin {1 2 plus} bind end exec",
	"/times /mul load def /plus /add load def /f { 2 3 times 4 plus } bind def /times { pop } def /plus { pop } def f",
	// forall hands its elements to the body as operands, whatever they are:
	// operator objects and executable names are pushed, not run
	"[ /add load /sub load /mul load ] { 7 3 3 -1 roll exec } forall",
	"<< /k /add load >> { exch pop 5 6 3 -1 roll exec } forall",
	"[ /add load ] { } forall",
	"[ /pop load /exch load ] { type } forall",
	"/q { add sub } def [ /q load 0 get /q load 1 get ] { } forall",
	"/q { nosuchname } def [ /q load 0 get ] { pop 5 } forall",
	"<< /k /exit load >> { pop pop } forall 9",
	"[ /stop load ] { pop 1 } forall 2",
	"1 2 [ /add load ] { pop } forall",
	"{ {1 2} } exec",
	"{ 7 {1 2} } exec",
	"{ {1 2} 7 } exec",
	"{ 7 {1 2} 8 } exec",
	"/p { 1 { 2 } } def p",
	"true { 5 { 6 } } if",
	"false { 1 } { 2 { 3 } } ifelse",
	"0 1 1 { { 9 } } for",
	"2 { { 9 } } repeat",
	"[1] { { 9 } } forall",
	"/c 0 def { /c c 1 add def c 2 eq { exit } if { 9 } } loop",
	"0 3 { 1 add dup 2 eq {exit} if } repeat",
	"3 { 7 exit 8 } repeat 9",
	"3 { 7 stop 8 } repeat 9",
	"0 1 5 { dup 2 eq {exit} if } for 99",
	"[1 2 3] { dup 2 eq {exit} if } forall 99",
	"{ 1 exit 2 } loop 3",
	"0 1 2 { 0 1 2 { exit 5 } for 6 } for",
	"2 { 2 { exit 5 } repeat 6 } repeat",
	"/p { exit } def 0 1 3 { p 9 } for 8",
	"1 exit 2",
	"{ exit } exec 5",
	"true { exit } if 5",
	"1 stop 2",
	"{ 1 stop 2 } exec 3",
	"0 1 3 { stop } for 4",
	"/x 1 def /p { x } def /x 2 def p",
	"/p { x } def << /x 5 >> begin p end /x 6 def p",
	"/p { 1 2 add } bind def /add { sub } def p",
	"/p { 1 2 add } def /add { sub } def p",
	"/q { 3 4 add } def /p { q { 5 6 add } exec } bind def /add { sub } def p",
	"/p { /add /dup 1 } bind def p",
	"/p { [ 1 2 add ] } bind def /add { sub } def p",
	"/myadd { add } def /p { 1 2 myadd } bind def /myadd { sub } def p",
	"/p { 1 2 add } def /p load exec",
	"/p { 1 2 add } def /p load",
	"1 1 0 { 9 } for 8",
	"0 0 { 9 } repeat 8",
	"[] { 9 } forall 8",
	"() { 9 } forall 8",
	"(ab) { } forall",
	"<< /k 7 >> { } forall",
	"3 -1 1 { } for",
	"0 2 5 { } for",
	"true { 1 } { 2 } ifelse false { 3 } { 4 } ifelse",
	"false { 1 } if true { 2 } if",
	"{ } exec 1",
	"{ { } } exec",
	"/p { } def p 1",
	"/a { b 1 } def /b { 2 } def a",
	"0 << /a 1 /b 2 /c 3 >> { pop pop 1 add } forall",
	"0 << /a 1 /b 2 /c 3 >> { pop pop 1 add exit 100 add } forall",
	"0 3 { << /a 1 /b 2 /c 3 /d 4 >> { pop pop 1 add dup 2 eq { exit } if } forall 10 add } repeat",
	"<< /a 1 /b 2 >> { pop pop 7 } forall",
	"/add { sub } def /f { 5 3 add } bind def f",
	"<< /add { sub } >> begin /f { 5 3 add } bind def end f",
	"/add 7 def /f { add } bind def f",
	"/f { { 5 3 add } exec } bind def /add { sub } def f",
	"0 1 150 { pop { 1 exit 2 } loop pop } for 7",
	"150 { 0 1 3 { dup 1 eq { exit } if pop } for pop } repeat 7",
	"0 1 150 { pop [ 1 2 ] { exit 3 } forall pop } for { { { { 9 } exec } exec } exec } exec",
	"/p { 1 exit 2 } def 150 { { p } loop pop } repeat 8",
	// for whose control value would pass the largest or smallest integer after the last round
	"9223372036854775806 1 9223372036854775807 { } for 7",
	"9223372036854775807 1 9223372036854775807 { } for 7",
	"9223372036854775800 5 9223372036854775807 { } for 7",
	"0 9223372036854775807 9223372036854775807 { } for 7",
	"-9223372036854775807 -1 -9223372036854775808 { } for 7",
	"-9223372036854775808 -1 -9223372036854775808 { } for 7",
	"0 -9223372036854775808 -9223372036854775808 { } for 7",
	"9223372036854775805 1 9223372036854775807 { dup 9223372036854775806 eq { exit } if } for 7",
	"-5 4611686018427387904 9223372036854775807 { } for",
	"-5000000000000000000 2500000000000000000 5000000000000000000 { } for",
	"-1 1 9223372036854775807 { dup 3 eq { exit } if } for",
	"1 -1 -9223372036854775808 { dup -3 eq { exit } if } for",
	"5000000000000000000 -2500000000000000000 -5000000000000000000 { } for",
	// names bound to executable names
	"/plus { add } 0 get def 1 2 plus",
	"/a { b } 0 get def /b { c } 0 get def /c 7 def a",
	"/out { exit } 0 get def 0 1 5 { dup 2 eq { out } if } for 9",
	"/a { b } 0 get def /b 1 def a /b 2 def a",
	"/body { 7 } def /al { body } 0 get def 2 { al } repeat",
	// a string constant in a body is one object
	"/p { (abc) } def p 0 88 put p 0 get",
	"2 { (a) dup 0 get exch 0 66 put } repeat",
	"/p { (xy) } def p p",
	"3 { (s) } repeat",
}

func runC03(r *rt.Runner) {
	env := newPSEnv()
	for _, p := range c03Pinned {
		p := p
		r.Case("pinned", func(c *rt.C) {
			out := env.runPS(c, ref.MustParse(p), "pinned:"+p, false)
			c.Count("pinned:" + out.class)
			c.Nontrivial([]byte("pinned|"+p), func() string { return p + " -> " + out.class })
		})
	}

	// literal procedure at every position of a body, in every execution context
	contexts := []struct{ name, pre, post string }{
		{"exec", "", "exec"}, {"if", "true", "if"}, {"ifelse-1", "true", "{ 77 } ifelse"}, {"ifelse-2", "false { 77 }", "ifelse"},
		{"for", "0 1 1", "for"}, {"repeat", "2", "repeat"}, {"forall", "[ 5 6 ]", "forall"}, {"name", "/pp", "def pp"},
		{"loop", "/cc 0 def /bb", "def { bb /cc cc 1 add def cc 2 eq { exit } if } loop"},
	}
	for _, ctx := range contexts {
		for pos := 0; pos < 4; pos++ {
			for n := 1; n <= 4; n++ {
				if pos >= n {
					continue
				}
				ctx, pos, n := ctx, pos, n
				r.Case("literal-position/"+ctx.name, func(c *rt.C) {
					body := "{"
					for i := 0; i < n; i++ {
						if i == pos {
							body += fmt.Sprintf(" { %d %d }", 500+i, 600+i)
						} else {
							body += fmt.Sprintf(" %d", 100+i)
						}
					}
					body += " }"
					text := ctx.pre + " " + body + " " + ctx.post
					if ctx.name == "loop" {
						text = ctx.pre + " " + body + " " + ctx.post
					}
					out := env.runPS(c, ref.MustParse(text), fmt.Sprintf("literal-position:%s:%d/%d", ctx.name, pos, n), false)
					c.Count("literal position " + ctx.name + " -> " + out.class)
					c.Nontrivial([]byte("litpos|"+text), func() string { return text + " -> " + out.class })
				})
			}
		}
	}

	// every operand tuple from a small pool for the control operators (wrong
	// operand types must give typecheck, not run or push something)
	ctlPool := []string{"0", "1", "-1", "2", "1.5", "true", "false", "{ 901 }", "{ 902 903 }", "[ 1 2 ]", "(ab)", "/nm", "<< /k 1 >>", "mark"}
	ctlOps := []struct {
		name  string
		arity int
	}{{"exec", 1}, {"loop", 1}, {"if", 2}, {"repeat", 2}, {"forall", 2}, {"ifelse", 3}, {"for", 4}}
	for _, op := range ctlOps {
		op := op
		for n := 0; n <= op.arity; n++ {
			idx := make([]int, n)
			for {
				if r.Mine() {
					text := ""
					for _, k := range idx {
						text += ctlPool[k] + " "
					}
					text += op.name
					r.Case("control-operands/"+op.name, func(c *rt.C) {
						out := env.runPS(c, ref.MustParse(text), "control-operands:"+op.name, false)
						c.Count("control op " + op.name + " -> " + out.class)
						if out.class != "unsupported" {
							c.Nontrivial([]byte("ctl|"+text), func() string { return text + " -> " + out.class })
						}
					})
				} else {
					r.SkipCase()
				}
				i := n - 1
				for i >= 0 {
					idx[i]++
					if idx[i] < len(ctlPool) {
						break
					}
					idx[i] = 0
					i--
				}
				if i < 0 {
					break
				}
			}
		}
	}

	// several programs, one after the other, on ONE interpreter: what an earlier
	// call left behind (a loop left by stop or by an error, open dictionaries,
	// definitions) must not change how control flow works in a later call
	leavers := []string{
		"0 1 5 { dup 3 eq { stop } if } for",
		"3 { 7 stop 8 } repeat",
		"{ 1 stop } loop",
		"[ 1 2 3 ] { stop } forall",
		"<< /a 1 /b 2 >> { stop } forall",
		"0 1 5 { 1 (a) add } for",
		"{ 1 (a) add } loop",
		"2 { nosuchname } repeat",
		"[ 1 2 ] { pop nosuchname } forall",
		"/q { 1 (a) add } def 3 { q } repeat",
		"0 1 2 { 0 1 2 { stop } for } for",
		"{ { stop } exec } loop",
		"true { 4 { stop } repeat } if",
		"1 2 add",
		"/w { exit } def",
	}
	strays := []string{"7 exit 8", "{ exit } exec 5", "true { exit } if 5", "/w2 { 1 exit 2 } def w2 3", "1 2 add exit", "0 1 3 { exit } for exit 9",
		"0 1 2 { pop } for 7", "2 { 5 } repeat", "[ 1 2 ] { } forall", "{ exit } loop 6", "<< /k 1 >> { pop pop exit } forall 4"}
	nHist := r.N(40000, 400000)
	for k := 0; k < nHist; k++ {
		r.Case("history", func(c *rt.C) {
			rng := c.Rand()
			var progs [][]ref.Tok
			for i, n := 0, 1+rng.IntN(3); i < n; i++ {
				if rng.IntN(3) > 0 {
					progs = append(progs, ref.MustParse(leavers[rng.IntN(len(leavers))]))
				} else {
					g := &g3{rng: rng, feat: map[string]bool{}, maxD: 2, multiDict: true}
					progs = append(progs, g.body(0, 0))
				}
			}
			if rng.IntN(4) > 0 {
				progs = append(progs, ref.MustParse(strays[rng.IntN(len(strays))]))
			} else {
				g := &g3{rng: rng, feat: map[string]bool{}, maxD: 2, multiDict: true}
				progs = append(progs, g.body(0, 0))
			}
			var raw []string
			if rng.IntN(3) == 0 {
				// the first call ends by stop or by an error with the NEXT byte of
				// its input a delimiter (nothing of that input may reach the next call)
				tight := []string{"1 stop(abc)", "1 stop/x 2", "1 (a) add[ 3 ]", "nosuchname<41>", "1 stop%comment", "2 stop{ 5 }", "1 (a) add/y", "3 stop<< /k 1 >>", "{ 4 stop } exec(rest)", "1 stop\n%%Title: left over\n"}
				t := tight[rng.IntN(len(tight))]
				progs[0] = ref.MustParse(t)
				raw = []string{t}
				if rng.IntN(2) == 0 && len(progs) > 1 {
					nxt := []string{"%%Title: next call\n7 8", "(s) length", "/k 5 def k", "[ 1 2 ] length"}[rng.IntN(4)]
					progs[1] = ref.MustParse(nxt)
					raw = append(raw, nxt)
				}
			}
			out := env.runPSHistory(c, progs, "history", raw...)
			c.Count("history -> " + out)
			if out != "unsupported" {
				var sb strings.Builder
				for _, p := range progs {
					sb.WriteString(ref.RenderTokens(p) + " || ")
				}
				c.Nontrivial([]byte("hist|"+sb.String()), func() string { return sb.String() + "-> " + out })
			}
		})
	}

	nRand := r.N(400000, 4000000)
	for k := 0; k < nRand; k++ {
		r.Case("generated", func(c *rt.C) {
			g := &g3{rng: c.Rand(), feat: map[string]bool{}, maxD: 2 + c.Rand().IntN(2), multiDict: true}
			if !r.Quick() {
				g.maxD = 2 + c.Rand().IntN(3)
			}
			prog := g.body(0, 0)
			out := env.runPS(c, prog, "generated", false)
			c.Count("generated program -> " + out.class)
			if out.class != "unsupported" {
				for f := range g.feat {
					c.Count("feature: " + f)
				}
				c.Nontrivial([]byte("gen|"+ref.RenderTokens(prog)), func() string { return ref.RenderTokens(prog) + " -> " + out.class })
			}
		})
	}
}
