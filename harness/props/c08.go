package props

// C08 — Type 1 writer emits conforming files that say what the font says.
//
// Reference-model monitor with an independent, strict reader (ref.ReadType1 /
// ref.DeframePFB: PFB framing, eexec 55665 with four lead bytes, charstrings
// 4330 with lenIV lead bytes, number and command tables from the Type 1 book,
// the font program executed by the harness's own PostScript evaluator). What
// it reads is compared with the font value; byte-level clauses (binary eexec
// start, WritePDF lengths) are read straight off the bytes.

import (
	"bytes"
	"fmt"
	"math"

	"seehuhn.de/go/postscript/funit"
	"seehuhn.de/go/postscript/type1"

	"verif/harness/mon"
	"verif/harness/ref"
	"verif/harness/rt"
)

func init() { register("C08", runC08) }

func mStr(o ref.Obj) (string, bool) {
	s, ok := o.(ref.Str)
	if !ok {
		return "", false
	}
	return string(s.Bytes()), true
}

func mNum(o ref.Obj) (float64, bool) {
	switch o := o.(type) {
	case ref.Int:
		return float64(o), true
	case ref.Real:
		return float64(o), true
	}
	return 0, false
}

func mInts(o ref.Obj) ([]float64, bool) {
	a, ok := o.(ref.Arr)
	if !ok {
		return nil, false
	}
	var out []float64
	for _, e := range a.Elems() {
		v, ok := mNum(e)
		if !ok {
			return nil, false
		}
		out = append(out, v)
	}
	return out, true
}

// compareModelFont compares what the independent reader understood (mf) with
// the font value f.
func compareModelFont(f *type1.Font, mf *ref.MFont) []string {
	var d []string
	add := func(format string, a ...any) {
		if len(d) < 10 {
			d = append(d, fmt.Sprintf(format, a...))
		}
	}
	if !mf.HasFontName || mf.FontName != f.FontName {
		add("FontName in the file is %q, the font's is %q", mf.FontName, f.FontName)
	}
	// glyph set, outlines, widths, stems
	for _, n := range sortedGlyphNames(f) {
		g, mg := f.Glyphs[n], mf.Glyphs[n]
		if mg == nil {
			add("glyph %q is not in the file", n)
			continue
		}
		if mg.Seac != nil {
			add("glyph %q is written as a seac composite", n)
			continue
		}
		if mg.WX != math.Round(g.WidthX) || mg.WY != math.Round(g.WidthY) {
			add("glyph %q: file declares the width (%v,%v), the font has (%v,%v)", n, mg.WX, mg.WY, g.WidthX, g.WidthY)
		}
		allInt := true
		for _, cmd := range g.Cmds {
			for _, a := range cmd.Args {
				if a != math.Trunc(a) {
					allInt = false
				}
			}
		}
		if msg := comparePath(g.Cmds, mg.Cmds, allInt); msg != "" {
			add("glyph %q: %s", n, msg)
		}
		if !stemsMatch(g.HStem, mg.HStem) || !stemsMatch(g.VStem, mg.VStem) {
			add("glyph %q: file declares stems h=%v v=%v, the font has h=%v v=%v", n, mg.HStem, mg.VStem, g.HStem, g.VStem)
		}
		for _, t := range mg.Tokens {
			if t.IsNum && !ref.ProperForm(t.Val, t.Form) {
				add("glyph %q: the integer %d is written in the %d-byte form", n, t.Val, t.Form)
				break
			}
		}
	}
	for _, n := range mf.GlyphNames() {
		if f.Glyphs[n] == nil {
			add("the file has an extra glyph %q", n)
		}
	}
	// encoding: the glyph that each code selects
	eff := func(name string) string {
		if _, ok := f.Glyphs[name]; ok {
			return name
		}
		return ".notdef"
	}
	if f.Encoding == nil {
		if mf.Encoding != nil {
			add("the font has no encoding, the file defines one")
		}
	} else if len(f.Encoding) == 256 {
		if mf.Encoding == nil {
			add("the file defines no Encoding")
		} else {
			for i := 0; i < 256; i++ {
				if eff(mf.Encoding[i]) != eff(f.Encoding[i]) {
					add("code %d selects %q in the file, %q in the font", i, mf.Encoding[i], f.Encoding[i])
					break
				}
			}
		}
	}
	// FontInfo
	fi := f.FontInfo
	strs := []struct {
		key, want string
		optional  bool
	}{{"version", fi.Version, false}, {"Notice", fi.Notice, true}, {"Copyright", fi.Copyright, true}, {"FullName", fi.FullName, false},
		{"FamilyName", fi.FamilyName, false}, {"Weight", fi.Weight, false}}
	for _, s := range strs {
		got, ok := mStr(mf.Info[s.key])
		if !ok && s.optional && s.want == "" {
			continue
		}
		if !ok || got != s.want {
			add("FontInfo /%s is %q in the file, %q in the font", s.key, got, s.want)
		}
	}
	nums := []struct {
		key  string
		want float64
	}{{"ItalicAngle", fi.ItalicAngle}, {"UnderlinePosition", float64(fi.UnderlinePosition)}, {"UnderlineThickness", float64(fi.UnderlineThickness)}}
	for _, s := range nums {
		got, ok := mNum(mf.Info[s.key])
		if !ok || got != s.want {
			add("FontInfo /%s is %v in the file, %v in the font", s.key, got, s.want)
		}
	}
	if b, ok := mf.Info["isFixedPitch"].(ref.Bool); !ok || bool(b) != fi.IsFixedPitch {
		add("FontInfo /isFixedPitch is %v in the file, %v in the font", mf.Info["isFixedPitch"], fi.IsFixedPitch)
	}
	if len(mf.FontMatrix) != 6 {
		add("FontMatrix has %d entries", len(mf.FontMatrix))
	} else {
		for i := 0; i < 6; i++ {
			if mf.FontMatrix[i] != fi.FontMatrix[i] {
				add("FontMatrix is %v in the file, %v in the font", mf.FontMatrix, fi.FontMatrix)
				break
			}
		}
	}
	// Private, with the Type 1 defaults for absent keys
	p := f.Private
	int16s := func(key string, want []funit.Int16) {
		got, ok := mInts(mf.Private[key])
		if _, present := mf.Private[key]; !present {
			ok, got = true, nil
		}
		if !ok || len(got) != len(want) {
			add("Private /%s is %v in the file, %v in the font", key, got, want)
			return
		}
		for i := range want {
			if got[i] != float64(want[i]) {
				add("Private /%s is %v in the file, %v in the font", key, got, want)
				return
			}
		}
	}
	int16s("BlueValues", p.BlueValues)
	int16s("OtherBlues", p.OtherBlues)
	numDef := func(key string, want, def float64) {
		got, ok := mNum(mf.Private[key])
		if _, present := mf.Private[key]; !present {
			got, ok = def, true
		}
		if !ok || got != want {
			add("Private /%s is %v in the file (default %v), %v in the font", key, got, def, want)
		}
	}
	numDef("BlueScale", p.BlueScale, 0.039625)
	numDef("BlueShift", float64(p.BlueShift), 7)
	numDef("BlueFuzz", float64(p.BlueFuzz), 1)
	std := func(key string, want float64) {
		v, present := mf.Private[key]
		if !present {
			if want != 0 {
				add("Private /%s missing in the file, %v in the font", key, want)
			}
			return
		}
		got, ok := mInts(v)
		if !ok || len(got) != 1 || got[0] != want {
			add("Private /%s is %v in the file, %v in the font", key, got, want)
		}
	}
	std("StdHW", p.StdHW)
	std("StdVW", p.StdVW)
	fb := false
	if b, ok := mf.Private["ForceBold"].(ref.Bool); ok {
		fb = bool(b)
	}
	if fb != p.ForceBold {
		add("Private /ForceBold is %v in the file, %v in the font", fb, p.ForceBold)
	}
	return d
}

func runC08(r *rt.Runner) {
	stdEnc := ref.MustStdEnc()
	n := r.N(20000, 200000)
	for k := 0; k < n; k++ {
		r.Case("font", func(c *rt.C) {
			rng := c.Rand()
			o := &fontOpts{maxGlyphs: 12, fractional: true, hostileStr: true, features: map[string]bool{}}
			if rng.IntN(25) == 0 {
				o.maxGlyphs = 250
			}
			o.noNotdef = rng.IntN(3) == 0 // subset fonts built for embedding have no .notdef entry; the file must not gain one
			f := genFont(rng, o)
			if rng.IntN(40) == 0 {
				// a large font: the PFB binary segment exceeds 64 KiB
				for i := 0; i < 150; i++ {
					g := &type1.Glyph{WidthX: 500}
					g.MoveTo(0, 0)
					for j := 0; j < 160; j++ {
						g.LineTo(float64(2000+j*3+i), float64(3000+j*7))
					}
					g.ClosePath()
					f.Glyphs[fmt.Sprintf("big%03d", i)] = g
				}
				o.f("encrypted portion larger than 64 KiB")
			}
			c.SetDetail(func() string { return describeFont(f) })
			for _, fm := range allFormats {
				var buf bytes.Buffer
				if err := f.Write(&buf, &type1.WriterOptions{Format: fm.f}); err != nil {
					c.Violation("write-error|"+fm.name, fmt.Sprintf("Write(%s) failed: %v", fm.name, err), "")
					continue
				}
				data := buf.Bytes()
				// the same font into a destination that has a Close method (a file, a
				// pipe, a compressor): the bytes are the same and the destination is
				// the caller's to close
				if rng.IntN(3) == 0 {
					sink := &mon.ClosableSink{}
					err := f.Write(sink, &type1.WriterOptions{Format: fm.f})
					c.Count("files written to a destination with a Close method")
					if err != nil || !bytes.Equal(sink.Buf, data) {
						c.Violation("closable-destination|"+fm.name, fmt.Sprintf("Write(%s) to a destination with a Close method: err=%v, %d bytes (into a bytes.Buffer: %d bytes), Close was called %d time(s) by the library, %d write(s) came after it", fm.name, err, len(sink.Buf), len(data), sink.CloseCalls, sink.LateWrites), "")
					}
				}
				c.Eval()
				if fm.f == type1.FormatPFB {
					payload, segs, err := ref.DeframePFB(data)
					if err != nil {
						c.Violation("pfb-framing", fmt.Sprintf("%v", err), fmt.Sprintf("head: % x", head2(data, 64)))
						continue
					}
					if len(segs) != 3 || segs[0][0] != 1 || segs[1][0] != 2 || segs[2][0] != 1 {
						c.Violation("pfb-segments", fmt.Sprintf("PFB segments (type,length): %v; expected text, binary, text", segs), "")
					}
					c.Count("PFB files de-framed")
					data = payload
				}
				mf, err := ref.ReadType1(data, stdEnc)
				if err != nil {
					c.Violation("independent-reader|"+fm.name, fmt.Sprintf("the independent decoder cannot read the %s output: %v", fm.name, err), fmt.Sprintf("bytes (head): %q", head(data, 1500)))
					continue
				}
				if d := compareModelFont(f, mf); len(d) > 0 {
					c.Violation("content|"+fm.name+"|"+diffKind(d[0]), fmt.Sprintf("the %s file says something else than the font:\n  %s", fm.name, joinLines(d)), "")
				}
				switch fm.f {
				case type1.FormatBinary, type1.FormatPFB:
					if !mf.EexecBinary || mf.EexecStart < 0 {
						c.Violation("binary-eexec|"+fm.name, "the encrypted portion was not recognised as binary eexec", "")
					} else if !ref.LegalBinaryStart(data[mf.EexecStart:]) {
						c.Violation("binary-eexec-start|"+fm.name, fmt.Sprintf("binary ciphertext starts with % x: first byte white space or all of the first four hexadecimal digits", data[mf.EexecStart:mf.EexecStart+4]), "")
					}
				case type1.FormatPFA:
					if mf.EexecBinary || mf.EexecStart < 0 {
						c.Violation("hex-eexec", "the PFA output's encrypted portion is not hexadecimal", "")
					}
				case type1.FormatNoEExec:
					if mf.EexecStart >= 0 {
						c.Violation("noeexec", "the no-eexec output contains an eexec section", "")
					}
				}
				c.Count("files decoded by the independent reader: " + fm.name)
			}
			// PDF embedding form
			cw := &mon.FaultWriter{FailCall: -1, FailByte: -1, Keep: true}
			l1, l2, err := f.WritePDF(cw)
			c.Eval()
			if err != nil {
				c.Violation("write-error|PDF", fmt.Sprintf("WritePDF failed: %v", err), "")
			} else {
				data := cw.Buf
				if l1+l2 != len(data) || l1 <= 0 || l2 <= 0 {
					c.Violation("pdf-lengths|sum", fmt.Sprintf("WritePDF returned lengths %d + %d, but wrote %d bytes", l1, l2, len(data)), "")
				} else {
					clear := data[:l1]
					if !bytes.HasSuffix(clear[:len(clear)-1], []byte("eexec")) || !bytes.ContainsAny(clear[len(clear)-1:], " \t\r\n") {
						c.Violation("pdf-lengths|clear", fmt.Sprintf("the first %d bytes do not end in `eexec` and one white-space byte: …%q", l1, clear[max(0, len(clear)-30):]), "")
					}
					mf, err := ref.ReadType1(data, stdEnc)
					if err != nil {
						c.Violation("independent-reader|PDF", fmt.Sprintf("the independent decoder cannot read the WritePDF output: %v", err), "")
					} else {
						if mf.EexecStart != l1 || mf.EexecEnd != l1+l2 {
							c.Violation("pdf-lengths|cipher", fmt.Sprintf("ciphertext occupies bytes %d..%d, WritePDF reported length1=%d length2=%d", mf.EexecStart, mf.EexecEnd, l1, l2), "")
						}
						if !ref.LegalBinaryStart(data[l1:]) {
							c.Violation("binary-eexec-start|PDF", fmt.Sprintf("binary ciphertext starts with % x", data[l1:l1+4]), "")
						}
						plain := ref.Decrypt(data[l1:l1+l2], ref.EexecKey)
						if !bytes.Contains(plain[max(0, len(plain)-40):], []byte("closefile")) {
							c.Violation("pdf-lengths|closefile", "the encrypted portion does not end with closefile", "")
						}
						if d := compareModelFont(f, mf); len(d) > 0 {
							c.Violation("content|PDF|"+diffKind(d[0]), "the WritePDF output says something else than the font:\n  "+joinLines(d), "")
						}
						c.Count("files decoded by the independent reader: PDF")
					}
				}
			}
			for ft := range o.features {
				c.Count("feature: " + ft)
			}
			c.Nontrivial([]byte(describeFont(f)), func() string { return head([]byte(describeFont(f)), 400) })
		})
	}
}
