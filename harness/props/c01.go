package props

// C01 — Hostile input never crashes or hangs the readers.
//
// The monitors are Go's runtime checks observed from outside the call:
// recovered panics per case (rt.Runner), process deaths attributed to the
// case through the write-ahead shard log (supervisor), and the no-progress
// monitor (no interpreter step, no reader call for the whole window, twice).
// The oracle demands nothing of the result: the call returns (value, nil) or
// (_, err).
//
// All generators work below the encryption layers and wrap the hostile
// payload into an otherwise valid container.

import (
	"bytes"
	"fmt"
	"io"
	"math"
	"math/rand/v2"
	"sort"
	"strings"

	"seehuhn.de/go/postscript"
	"seehuhn.de/go/postscript/afm"
	"seehuhn.de/go/postscript/pfb"
	"seehuhn.de/go/postscript/type1"

	"verif/harness/mon"
	"verif/harness/ref"
	"verif/harness/rt"
)

func init() { register("C01", runC01) }

// feed runs one entry point on data; the step hook counts progress.
func feed(kind string, data []byte) error {
	postscript.VerifStepHook = func(_ *postscript.Interpreter, s postscript.VerifStep) { rt.Progress.Add(1) }
	defer func() { postscript.VerifStepHook = nil }()
	r := &mon.PlanReader{Data: data}
	switch kind {
	case kPS:
		intp := postscript.NewInterpreter()
		intp.MaxOps = 200000
		return intp.Execute(r)
	case kCMap:
		_, err := postscript.ReadCMap(r)
		return err
	case kType1:
		_, err := type1.Read(r)
		return err
	case kAFM:
		_, err := afm.Read(r)
		return err
	case kPFB:
		_, err := io.ReadAll(pfb.Decode(r))
		return err
	}
	return nil
}

var hostileInts = []int64{0, 1, -1, 2, 255, 256, 65535, 65536, 65537, 1<<31 - 1, 1 << 31, 1<<31 + 1, -(1 << 31), 1 << 53, math.MaxInt64, math.MaxInt64 - 1, math.MinInt64, math.MinInt64 + 1}

func hostilePool() (full, reduced []string) {
	for i, v := range hostileInts {
		full = append(full, fmt.Sprint(v))
		if i%3 == 0 || v == math.MaxInt64 || v == math.MinInt64 {
			reduced = append(reduced, fmt.Sprint(v))
		}
	}
	both := []string{"1e308", "-1e308", "0.5", "()", "(a)", "65536 string", "[]", "[ 1 ]", "65536 array",
		"1 array dup dup 0 exch put", "{ } dup bind", "/selfp { selfp } def /selfp load", "5 dict dup dup /me exch put", "mark", "currentfile",
		"/nm", "/add load", "true", "systemdict", "userdict", "errordict", "StandardEncoding", "{ 1 2 }", "<< /a 1 >>", "/add", "(add)"}
	full = append(full, both...)
	reduced = append(reduced, "1e308", "()", "65536 string", "1 array dup dup 0 exch put", "5 dict dup dup /me exch put", "mark", "currentfile", "/nm", "{ 1 2 }", "systemdict", "/add load", "true")
	return
}

func runC01(r *rt.Runner) {
	env := newPSEnv()

	// ---- (1) operator sweep: every operator found at run time x hostile operand tuples
	probe := postscript.NewInterpreter()
	var opNames []string
	for k := range probe.SystemDict {
		opNames = append(opNames, string(k))
	}
	var cidNames []string
	if ps, ok := probe.Resources["ProcSet"].(postscript.Dict); ok {
		if ci, ok := ps["CIDInit"].(postscript.Dict); ok {
			for k := range ci {
				cidNames = append(cidNames, string(k))
			}
		}
	}
	sort.Strings(opNames)
	sort.Strings(cidNames)
	full, reduced := hostilePool()
	type opT struct {
		name string
		cid  bool
	}
	var ops []opT
	for _, n := range opNames {
		ops = append(ops, opT{n, false})
	}
	for _, n := range cidNames {
		ops = append(ops, opT{n, true})
	}
	r.Count("operators found at run time", int64(len(ops)))
	for _, op := range ops {
		op := op
		for n := 0; n <= 3; n++ {
			pool := full
			if n == 3 || (n == 2 && r.Quick() && len(ops) > 0) {
				pool = reduced
			}
			if n == 2 && !r.Quick() {
				pool = full
			}
			idx := make([]int, n)
			for {
				if r.Mine() {
					var sb strings.Builder
					if op.cid {
						sb.WriteString("/CIDInit /ProcSet findresource begin 12 dict begin begincmap\n")
						if strings.HasPrefix(op.name, "end") && op.name != "endcmap" {
							sb.WriteString("3 " + strings.Replace(op.name, "end", "begin", 1) + " ")
						}
					}
					for _, k := range idx {
						sb.WriteString(pool[k] + " ")
					}
					sb.WriteString(op.name)
					text := sb.String()
					r.Case("op-sweep/"+op.name, func(c *rt.C) {
						c.SetDetail(func() string { return "program: " + text })
						err := feed(kPS, []byte(text))
						c.Count("op sweep: " + map[bool]string{true: "returned error", false: "returned nil"}[err != nil])
						c.Nontrivial([]byte("ops|"+text), func() string { return text })
					})
				} else {
					r.SkipCase()
				}
				i := n - 1
				for i >= 0 {
					idx[i]++
					if idx[i] < len(pool) {
						break
					}
					idx[i] = 0
					i--
				}
				if i < 0 {
					break
				}
			}
		}
	}

	// ---- (1b) CMap operators with well-formed blocks in which exactly one
	// operand is hostile (the blocks pass the count and stack-depth checks, so
	// the per-operand code - including every error message - is reached)
	cyc := append(append([]string(nil), full...),
		"{ 0 } dup dup 0 exch put", "2 array dup dup 0 exch put dup dup 1 exch put",
		"1 array 1 array 2 copy 0 exch put 2 copy exch 0 exch put pop",
		"[ 1 ] 50 { dup [ 3 1 roll ] } repeat", "{ 1 } 50 { [ 0 0 ] cvx dup 0 3 index put dup 1 3 index put exch pop } repeat",
		"5 dict dup dup /a exch put [ exch ]", "(\\000\\377)", "<>", "<0000000000000000000000>", "/", "[ <41> <42> ]", "[ /a /b ]", "[ [ ] ]", "null")
	type cmOp struct {
		name  string
		entry []string // a well-formed entry
	}
	cmOps := []cmOp{
		{"codespacerange", []string{"<00>", "<ff>"}}, {"cidchar", []string{"<41>", "7"}}, {"cidrange", []string{"<41>", "<43>", "7"}},
		{"bfchar", []string{"<41>", "<0041>"}}, {"bfrange", []string{"<41>", "<43>", "<0041>"}}, {"bfrange", []string{"<41>", "<43>", "[ <0041> <0042> <0043> ]"}},
		{"notdefchar", []string{"<41>", "7"}}, {"notdefrange", []string{"<41>", "<43>", "7"}},
		// entries whose codes are both empty strings (equal length, not reversed)
		{"codespacerange", []string{"<>", "<>"}}, {"cidrange", []string{"<>", "<>", "7"}}, {"bfrange", []string{"<>", "<>", "<0041>"}}, {"bfrange", []string{"<>", "<>", "[ <0041> ]"}},
		{"bfrange", []string{"<>", "<>", "[ ]"}}, {"notdefrange", []string{"<>", "<>", "7"}}, {"cidchar", []string{"<>", "7"}}, {"bfchar", []string{"<>", "<>"}},
		{"bfrange", []string{"<41>", "<41>", "[ ]"}}, {"bfrange", []string{"<41>", "<ff>", "[ <0041> ]"}}, {"bfrange", []string{"<00ff>", "<01ff>", "[ <0041> <0042> ]"}},
	}
	for _, op := range cmOps {
		for pos := range op.entry {
			for _, h := range cyc {
				for _, nEnt := range []int{1, 2, 9} {
					op, pos, h, nEnt := op, pos, h, nEnt
					r.Case("cmap-operand/"+op.name, func(c *rt.C) {
						var sb strings.Builder
						sb.WriteString("/CIDInit /ProcSet findresource begin\n12 dict begin\nbegincmap\n/CMapName /Evil def\n1 begincodespacerange <00> <ff> endcodespacerange\n")
						fmt.Fprintf(&sb, "%d begin%s\n", nEnt, op.name)
						hostileAt := c.Rand().IntN(nEnt)
						for e := 0; e < nEnt; e++ {
							for i, a := range op.entry {
								if e == hostileAt && i == pos {
									a = h
								}
								sb.WriteString(a + " ")
							}
							sb.WriteString("\n")
						}
						fmt.Fprintf(&sb, "end%s\nendcmap\nCMapName currentdict /CMap defineresource pop\nend end\n", op.name)
						text := sb.String()
						c.SetDetail(func() string { return "program: " + text })
						feed(kCMap, []byte(text))
						feed(kPS, []byte(text))
						c.Count("CMap blocks with one hostile operand")
						c.Nontrivial([]byte("cmo|"+text), func() string { return text })
					})
				}
			}
		}
	}
	// ---- (1c) what the readers do after the interpreter has finished: hostile
	// objects in the places the post-processing looks at
	var post []string
	for _, h := range cyc {
		post = append(post,
			"FontDirectory /F "+h+" put", "/F "+h+" /Font defineresource pop", "/F "+h+" /CMap defineresource pop", "/F "+h+" /CIDFont defineresource pop",
			"/F "+h+" definefont pop", h+" /F exch definefont pop", h+" "+h+" /Font defineresource",
			"/F << /FontType 1 /FontName /F /FontInfo "+h+" /Private "+h+" /CharStrings "+h+" /Encoding "+h+" /FontMatrix "+h+" >> definefont pop",
			"/F << /FontType "+h+" >> definefont pop", "/F << /FontType 1 /Private << /Subrs "+h+" /lenIV "+h+" /BlueValues "+h+" >> /CharStrings << /a "+h+" >> /Encoding [ "+h+" ] /FontMatrix [ "+h+" ] /FontInfo << /version "+h+" /Notice "+h+" >> >> definefont pop",
			"/CIDInit /ProcSet findresource begin 12 dict begin begincmap /CMapName "+h+" def /CIDSystemInfo "+h+" def /WMode "+h+" def /CMapType "+h+" def endcmap /N currentdict /CMap defineresource pop end end",
			"/CIDInit /ProcSet findresource begin 12 dict begin begincmap "+h+" usecmap endcmap /N currentdict /CMap defineresource pop end end",
			"/N << /CMapName "+h+" /CodeMap "+h+" /CodeSpaceRanges "+h+" >> /CMap defineresource pop",
			// the same places overwritten AFTER a successful registration (the
			// checks made by defineresource / definefont are then in the past)
			"/CIDInit /ProcSet findresource begin 12 dict begin begincmap /CMapName /N def 1 begincodespacerange <00> <ff> endcodespacerange endcmap /N currentdict /CMap defineresource pop /CodeMap "+h+" def end end",
			"/CIDInit /ProcSet findresource begin 12 dict begin begincmap /CMapName /N def endcmap /N currentdict /CMap defineresource /CodeMap "+h+" put /N /CMap findresource /CMapName "+h+" put end end",
			"/CIDInit /ProcSet findresource begin 12 dict begin begincmap /CMapName /N def endcmap /N currentdict /CMap defineresource pop end end /N /CMap findresource dup /WMode "+h+" put dup /CIDSystemInfo "+h+" put dup /CMapType "+h+" put /CodeMap "+h+" put",
			"/CIDInit /ProcSet findresource begin 12 dict begin begincmap /CMapName /N def endcmap /N currentdict /CMap defineresource pop end end /N /CMap findresource { pop "+h+" def } forall",
			"/F << /FontType 1 /FontName /F /FontInfo 2 dict /Private 2 dict /CharStrings 2 dict /Encoding StandardEncoding /FontMatrix [ 0.001 0 0 0.001 0 0 ] >> definefont dup /Private "+h+" put dup /CharStrings "+h+" put dup /FontInfo "+h+" put /Encoding "+h+" put",
			"/F << /FontType 1 /FontName /F /FontInfo 2 dict /Private 2 dict /CharStrings 2 dict /Encoding StandardEncoding /FontMatrix [ 0.001 0 0 0.001 0 0 ] >> definefont pop /F findfont /FontMatrix "+h+" put FontDirectory /F get /FontName "+h+" put /F findfont /Private get /Subrs "+h+" put /F findfont /CharStrings get /a "+h+" put")
	}
	for _, text := range post {
		text := text
		r.Case("post-processing", func(c *rt.C) {
			c.SetDetail(func() string { return "program after a %! line: " + text })
			for _, hd := range []string{"%!\n", "%!PS-AdobeFont-1.0: F 1.0\n"} {
				feed(kType1, []byte(hd+text+"\n"))
			}
			feed(kCMap, []byte(text))
			feed(kPS, []byte(text))
			c.Count("programs aimed at the readers' post-processing")
			c.Nontrivial([]byte("post|"+text), func() string { return text })
		})
	}

	// ---- (2) recursion and runaway programs through every program-reading entry point
	shapes := make([]string, 0, len(c11Shapes)+20)
	for _, s := range c11Shapes {
		shapes = append(shapes, s.text)
	}
	shapes = append(shapes,
		strings.Repeat("{ ", 200000)+strings.Repeat("} ", 200000)+"bind",
		strings.Repeat("{ ", 100000)+"1"+strings.Repeat(" } ", 100000)+"dup bind exec",
		strings.Repeat("[ ", 400)+strings.Repeat("] ", 400),
		strings.Repeat("<< /a ", 300)+"1 "+strings.Repeat(">> ", 300),
		strings.Repeat("( ", 100000)+strings.Repeat(") ", 100000),
		// 16 MB of nested braces (tokens inside braces are not budgeted)
		strings.Repeat("{", 8000000)+strings.Repeat("}", 8000000)+" bind pop",
		strings.Repeat("{", 8000000)+strings.Repeat("}", 8000000)+" dup length exch 0 get eq",
		strings.Repeat("[", 600)+strings.Repeat("]", 600), strings.Repeat("<<", 600)+strings.Repeat(">>", 600),
		"/a 1 array def a 0 a put a { } forall a a eq a length a 0 get 0 get 0 get",
		"/p { [ p ] } def p", "/p { << /k p >> } def p", "{ currentfile eexec } loop", "currentfile eexec currentfile eexec",
		"currentfile eexec", "currentfile closefile 1 2", "16#FFFFFFFFFFFFFFFFFFFFFFFF 1e999 -1e999 1e-999 36#ZZZZZZZZZZZZZZZZZZ",
		"10 string currentfile exch readstring", "65536 string currentfile exch readstring pop pop", "currentfile 0 string readstring",
		"errordict /interrupt { { } loop } put { } loop", "errordict /stackoverflow { 1 } put { 1 } loop",
		"/CIDInit /ProcSet findresource begin begincmap 100 begincidrange endcidrange 9223372036854775807 begincidrange -1 begincidchar 101 beginbfchar endcmap endcmap",
		"/CIDInit /ProcSet findresource begin endcmap endcidrange endbfchar usecmap",
		// bind over procedures that share sub-procedures (a DAG with 2^N paths)
		"{1} 40 { [0 0] cvx dup 0 3 index put dup 1 3 index put exch pop } repeat bind",
		"{ add } 64 { dup [ 3 1 roll ] cvx } repeat pop {1} 30 { dup [ exch dup ] cvx exch pop } repeat bind",
		"/p {1} def 50 { /p [ /p load dup ] cvx def } repeat /p load bind pop",
		// error handlers that manipulate the operand stack while a procedure body is open
		"errordict /syntaxerror { pop pop pop } put 7 8 9 { 1 2 > 3 }",
		"errordict /syntaxerror { clear } put { 1 2 > 3 } 4",
		"errordict /syntaxerror { cleartomark } put mark { 1 2 ) 3 } 4",
		"errordict /typecheck { pop pop pop pop } put { 1 (a) add } exec }",
		"errordict /undefined { count { pop } repeat } put { { nosuch } exec",
		"errordict /typecheck get exec", "errordict { exch pop exec } forall", "errordict /handleerror get exec errordict /interrupt get exec",
		"{ currentfile eexec\n< { end } exec", "currentfile eexec\n7b203c207b20656e64207d2065786563 } exec",
		"/CIDInit /ProcSet findresource begin begincmap 2 begincidrange <00> <01> 1 (x) <05> 2 endcidrange",
		// a section that ends with a body still open, started from inside a looping operator
		"{ currentfile eexec } loop\n"+hexSection("{ "),
		"1000000000 { currentfile eexec } repeat\n"+hexSection("1 { 2 "),
		"0 1 1000000000 { pop currentfile eexec } for\n"+hexSection("{ { "),
		"[ 1 2 3 ] { pop currentfile eexec } forall 7\n"+hexSection("/x { 1 "),
		"/ee { currentfile eexec } def { ee } loop\n"+hexSection("[ { "),
	)
	for _, text := range shapes {
		text := text
		for _, kind := range []string{kPS, kCMap, kType1} {
			kind := kind
			r.Case("runaway/"+kind, func(c *rt.C) {
				data := []byte(text)
				if kind == kType1 {
					data = append([]byte("%!PS-AdobeFont-1.0\n"), data...)
				}
				c.SetDetail(func() string { return fmt.Sprintf("%s: %q", kind, head(data, 600)) })
				feed(kind, data)
				c.Nontrivial(append([]byte(kind+"|"), data...), func() string { return kind + ": " + head(data, 120) })
			})
		}
	}

	// ---- (2b) data structures far deeper than any literal can be: the scanner
	// limits `{` nesting to 1000 levels, but a loop with `put` builds a chain
	// whose depth is limited by the operation budget alone. With a budget that
	// is "set" but generous (C01 names no upper limit) a chain of 8 million
	// levels costs 1.2e8 operations and a few seconds; an operator that walks
	// the chain recursively then needs more than the 1 GB goroutine stack and
	// the process dies (`bind` did: known-findings "deep-structure"). Three
	// cases, ~1 GB of heap each, on different shards.
	for i, text := range []string{
		"{0} 8000000 { 1 array cvx dup 0 4 -1 roll put } repeat bind pop",
		"{0} 8000000 { 1 array cvx dup 0 4 -1 roll put } repeat dup bind exec pop",
		"[0] 8000000 { 1 array dup 0 4 -1 roll put } repeat dup length pop dup { pop } forall dup 1 array copy pop dup type pop cvx bind pop",
	} {
		text := text
		r.Case(fmt.Sprintf("deep-structure/%d", i), func(c *rt.C) {
			c.SetDetail(func() string { return "MaxOps=2000000000: " + text })
			postscript.VerifStepHook = func(_ *postscript.Interpreter, s postscript.VerifStep) { rt.Progress.Add(1) }
			defer func() { postscript.VerifStepHook = nil }()
			intp := postscript.NewInterpreter()
			intp.MaxOps = 2000000000
			err := intp.ExecuteString(text)
			if err != nil {
				c.Count("deep structure: ended with an error")
				c.Inconclusive(fmt.Sprintf("the deep-structure program did not run to its end: %v", err))
			} else {
				c.Count("deep structure: walked")
			}
			r.Count("deep structure: operations", int64(intp.NumOps))
			c.Nontrivial([]byte("deep|"+text), func() string { return text })
		})
	}

	// ---- (3)+(4) hostile charstrings and font dictionaries in valid containers
	nFonts := r.N(30000, 600000)
	for k := 0; k < nFonts; k++ {
		r.Case("hostile-font", func(c *rt.C) {
			rng := c.Rand()
			data, desc := genHostileFont(rng)
			c.SetDetail(func() string { return fmt.Sprintf("%s\nfile head: %q", desc, head(data, 1500)) })
			err := feed(kType1, data)
			c.Count("hostile font: " + map[bool]string{true: "rejected", false: "accepted"}[err != nil])
			c.Count("hostile font kind: " + strings.SplitN(desc, ":", 2)[0])
			c.Nontrivial(data, func() string { return desc })
		})
	}

	// ---- (3b) hostile programs inside eexec sections (dictionary-stack games around the section)
	nEx := r.N(30000, 600000)
	for k := 0; k < nEx; k++ {
		r.Case("hostile-eexec", func(c *rt.C) {
			rng := c.Rand()
			vocab := []string{"errordict /syntaxerror { pop pop pop } put", "errordict /undefined { clear } put", "errordict /typecheck { count { pop } repeat } put",
				"{ <z 1 2 }", "{ 1 2 ) }", "{ { > } }", "7 8 9", "end", "end", "end", "begin", "3 dict begin", "currentdict", "/x 1 def", "currentdict /y 2 put", "dup", "pop", "mark", "cleartomark",
				"currentfile closefile", "currentfile eexec", "stop", "exit", "{ end } exec", "systemdict begin", "userdict begin", "errordict begin", "count", "exch",
				"10 string currentfile exch readstring pop", "/RD { string currentfile exch readstring pop } def", "4 RD abcd", "{ end } loop", "2 { end } repeat",
				"systemdict /end { } put", "1 (a) add", "undefinedname", "} ", "{ ", ")", "<", "9223372036854775807 copy"}
			words := func(n int) string {
				var w []string
				for i := 0; i < n; i++ {
					w = append(w, vocab[rng.IntN(len(vocab))])
				}
				return strings.Join(w, " ")
			}
			var file bytes.Buffer
			file.WriteString("%!PS-AdobeFont-1.0: X 1\n")
			for i, n := 0, rng.IntN(4); i < n; i++ {
				file.WriteString("5 dict begin ")
			}
			file.WriteString(words(rng.IntN(4)) + "\n")
			// the section is started at the top level, or from inside a looping
			// operator or a procedure (which then goes on when the section has ended)
			switch rng.IntN(8) {
			case 0:
				file.WriteString("{ currentfile eexec } loop\n")
			case 1:
				file.WriteString("1000000 { currentfile eexec } repeat\n")
			case 2:
				file.WriteString("0 1 1000000 { pop currentfile eexec } for\n")
			case 3:
				file.WriteString("/ee { currentfile eexec } def ee\n")
			default:
				file.WriteString("currentfile eexec\n")
			}
			body := words(rng.IntN(6))
			if rng.IntN(2) == 0 {
				// more dictionaries popped inside the section than it pushed
				body += strings.Repeat(" end", rng.IntN(6)) + " " + words(rng.IntN(3))
			}
			plain := []byte(body + " currentfile closefile\n")
			if rng.IntN(4) == 0 {
				// the input ends inside the section, possibly with a body still open
				plain = []byte(body + []string{"", " { ", " { { 1 ", " [ ", " << /a ", " ( "}[rng.IntN(6)])
			}
			bm := newPairBitmap()
			lay := layoutSection(rng, plain, bm, rng.IntN(4) == 0)
			file.Write(lay.text)
			file.WriteString("\n" + words(rng.IntN(4)) + "\n")
			if rng.IntN(2) == 0 {
				file.WriteString("/x 1 def currentdict /y 2 put currentdict length end end\n")
			}
			data := file.Bytes()
			c.SetDetail(func() string { return fmt.Sprintf("plaintext of the section: %q\nfile: %q", plain, head(data, 1200)) })
			feed(kPS, data)
			feed(kType1, data)
			feed(kCMap, data)
			c.Count("hostile eexec sections")
			c.Nontrivial(data, nil)
		})
	}

	// ---- (5) PFB: length fields, truncation, garbage; also through type1.Read
	nPFB := r.N(20000, 400000)
	for k := 0; k < nPFB; k++ {
		r.Case("hostile-pfb", func(c *rt.C) {
			rng := c.Rand()
			var b []byte
			for i, n := 0, 1+rng.IntN(5); i < n; i++ {
				typ := []byte{1, 2, 3, 0, 4, 0x80, 0xff}[rng.IntN(7)]
				ln := []uint32{0, 1, 2, 5, 1 << 31, 1<<32 - 1, 1 << 24, 65536, 6}[rng.IntN(9)]
				b = append(b, 0x80, typ, byte(ln), byte(ln>>8), byte(ln>>16), byte(ln>>24))
				m := rng.IntN(40)
				if ln < 1000 && rng.IntN(2) == 0 {
					m = int(ln)
				}
				for j := 0; j < m; j++ {
					const filler = "%!PS /a 1 def currentfile eexec\x80\x01\x02\x03\x00\xff"
					b = append(b, filler[rng.IntN(len(filler))])
				}
			}
			if rng.IntN(3) == 0 {
				b = b[:rng.IntN(len(b)+1)]
			}
			c.SetDetail(func() string { return fmt.Sprintf("PFB bytes: % x", head2(b, 300)) })
			feed(kPFB, b)
			feed(kType1, b)
			c.Count("hostile PFB streams")
			c.Nontrivial(b, nil)
		})
	}

	// ---- (6) AFM line-grammar fuzz
	nAFM := r.N(20000, 400000)
	for k := 0; k < nAFM; k++ {
		r.Case("hostile-afm", func(c *rt.C) {
			rng := c.Rand()
			data := genHostileAFM(rng)
			c.SetDetail(func() string { return fmt.Sprintf("AFM text: %q", head(data, 1500)) })
			err := feed(kAFM, data)
			if err == nil {
				// an accepted hostile file must also be writable without panic
				if m, e2 := afm.Read(bytes.NewReader(data)); e2 == nil {
					m.Write(io.Discard)
					m.GlyphList()
					m.FontBBoxPDF()
				}
			}
			c.Count("hostile AFM texts")
			c.Nontrivial(data, nil)
		})
	}

	// ---- (7) CMap: hostile counts, order and operand types
	nCM := r.N(20000, 400000)
	for k := 0; k < nCM; k++ {
		r.Case("hostile-cmap", func(c *rt.C) {
			rng := c.Rand()
			data := genHostileCMap(rng)
			c.SetDetail(func() string { return fmt.Sprintf("CMap text: %q", head(data, 1500)) })
			feed(kCMap, data)
			c.Count("hostile CMap files")
			c.Nontrivial(data, nil)
		})
	}

	// ---- (7b) structured comments: the readers look at `%%Key: value` lines
	// after the program has run (the creation date of a font is taken from one),
	// so their values are input as hostile as everything else
	{
		dscWords := []string{"(", ")", "(", ")", " ", "  ", "Mon", "Jan", "2", "02", "15:04:05", "2006", "+0100", "-0700", "UTC", "Z", "MST", "-", ":", "D:", "20060102150405", "\x00",
			"\xe9", "99999999999999999999", "am", "PM", "/", "T", ".5", ",", "2006-01-02", "1/2/06", "\\", "%%", "%", "+", "\t", "Sat", "February", "31", "24:00:00", "1e9", "UTC+3", "GMT"}
		dscKeys := []string{"CreationDate", "CreationDate", "CreationDate", "Title", "Creator", "VMusage", "BeginResource", "EndComments", "+", "", "For", "BoundingBox", "Pages"}
		base := ref.RenderType1(rand.New(rand.NewPCG(7, 7)), &ref.WFont{FontName: "Dsc", Info: map[string]string{}, Private: map[string]string{}, StdEncoding: true,
			Glyphs: []*ref.WGlyph{{Name: ".notdef", Den: 1, WX: 500}}}, &ref.WLayout{Container: "plain", LenIV: 4})
		nl := bytes.IndexByte(base, '\n') + 1
		nDsc := r.N(20000, 400000)
		for k := 0; k < nDsc; k++ {
			r.Case("hostile-dsc", func(c *rt.C) {
				rng := c.Rand()
				var lines strings.Builder
				for i, n := 0, 1+rng.IntN(3); i < n; i++ {
					lines.WriteString("%%" + dscKeys[rng.IntN(len(dscKeys))])
					lines.WriteString([]string{": ", ":", " ", ":\t", ""}[rng.IntN(5)])
					for j, m := 0, rng.IntN(7); j < m; j++ {
						lines.WriteString(dscWords[rng.IntN(len(dscWords))])
						if rng.IntN(2) == 0 {
							lines.WriteString(" ")
						}
					}
					if rng.IntN(40) == 0 {
						lines.WriteString(strings.Repeat(dscWords[rng.IntN(len(dscWords))], 1+rng.IntN(20000)))
					}
					lines.WriteString([]string{"\n", "\r", "\r\n"}[rng.IntN(3)])
				}
				var data []byte
				switch rng.IntN(3) {
				case 0: // behind the first line
					data = append(append(append(data, base[:nl]...), lines.String()...), base[nl:]...)
				case 1: // behind the program
					data = append(append(data, base...), lines.String()...)
				default: // both
					data = append(append(append(append(data, base[:nl]...), lines.String()...), base[nl:]...), lines.String()...)
				}
				c.SetDetail(func() string { return fmt.Sprintf("font file with the comment lines %q", lines.String()) })
				feed(kType1, data)
				feed(kCMap, data)
				cm := append([]byte("%!PS-Adobe-3.0 Resource-CMap\n"+lines.String()), []byte("/CIDInit /ProcSet findresource begin 12 dict begin begincmap /CMapName /N def endcmap CMapName currentdict /CMap defineresource pop end end\n"+lines.String())...)
				feed(kCMap, cm)
				c.Count("files with hostile structured comments")
				c.Nontrivial([]byte("dsc|"+lines.String()), func() string { return head([]byte(lines.String()), 100) })
			})
		}
	}

	// ---- (8) byte-level mutation of valid files of every kind
	nMut := r.N(40000, 800000)
	for k := 0; k < nMut; k++ {
		r.Case("mutated", func(c *rt.C) {
			rng := c.Rand()
			kind := allKinds[rng.IntN(len(allKinds))]
			it := genCorpusItem(c, env, kind, false)
			d := append([]byte(nil), it.data...)
			for i, n := 0, 1+rng.IntN(6); i < n && len(d) > 0; i++ {
				switch rng.IntN(5) {
				case 0:
					d[rng.IntN(len(d))] ^= byte(1 << rng.IntN(8))
				case 1:
					d = d[:rng.IntN(len(d))]
				case 2:
					p, q := rng.IntN(len(d)), rng.IntN(len(d))
					if p > q {
						p, q = q, p
					}
					d = append(append(append([]byte(nil), d[:p]...), d[q:]...), d[p:q]...)
				case 3:
					p := rng.IntN(len(d))
					d[p] = []byte{0, 0xff, 0x80, '{', '}', '(', ')', '<', '>', '%', '/', '\n', '[', ']'}[rng.IntN(14)]
				case 4:
					p := rng.IntN(len(d))
					ins := []string{"9223372036854775807 ", "-9223372036854775808 ", " { ", " } ", " [ ", " >> ", " currentfile eexec ", " exec ", " copy ", " 65536 string ", " loop "}[rng.IntN(11)]
					d = append(append(append([]byte(nil), d[:p]...), ins...), d[p:]...)
				}
			}
			c.SetDetail(func() string { return fmt.Sprintf("%s (%s) mutated: %q", kind, it.desc, head(d, 1500)) })
			feed(kind, d)
			c.Count("mutated files: " + kind)
			c.Nontrivial(append([]byte(kind+"|"), d...), nil)
		})
	}
}

// genHostileFont builds a font file around hostile charstrings or hostile
// dictionary entries.
func genHostileFont(rng *rand.Rand) ([]byte, string) {
	save := wildModel
	wildModel = false
	mf := genModelFont(rng)
	wildModel = save
	if len(mf.w.Glyphs) > 6 {
		var keep []*ref.WGlyph
		for _, g := range mf.w.Glyphs[:6] {
			if g.Seac == nil {
				keep = append(keep, g)
			}
		}
		mf.w.Glyphs = keep
	}
	lay := mf.lay
	num := func(buf *[]byte, v int64) {
		u := uint32(int32(v))
		switch {
		case v >= -107 && v <= 107:
			*buf = append(*buf, byte(v+139))
		default:
			*buf = append(*buf, 255, byte(u>>24), byte(u>>16), byte(u>>8), byte(u))
		}
	}
	hostileCS := func(nsub int) []byte {
		var b []byte
		if rng.IntN(4) > 0 {
			b = append(b, 139, 139+50, 13) // 0 50 hsbw
		}
		var elem func()
		elem = func() {
			switch rng.IntN(13) {
			case 12:
				// a motif repeated many times: state that a command accumulates
				// (flex points, hint lists, the PostScript stack, the path) grows
				// with every round although each command is well-formed by itself
				start := len(b)
				switch rng.IntN(6) {
				case 0:
					b = append(b, 139, 139+2, 12, 16) // 0 2 callothersubr (flex: add point)
				case 1:
					num(&b, int64(rng.IntN(5)))
					num(&b, int64(rng.IntN(5)))
					b = append(b, 21)                 // rmoveto
					b = append(b, 139, 139+2, 12, 16) // 0 2 callothersubr
				case 2:
					b = append(b, 139, 139+1, 12, 16) // 0 1 callothersubr (flex start)
				case 3:
					num(&b, int64(rng.IntN(300)))
					b = append(b, 139+1, 139+3, 12, 16) // n 1 3 callothersubr (hint replacement), result left on the PostScript stack
				case 4:
					num(&b, int64(rng.IntN(300)))
					num(&b, int64(rng.IntN(40)))
					b = append(b, byte(1+2*rng.IntN(2))) // hstem / vstem
				default:
					for j := 1 + rng.IntN(3); j > 0; j-- {
						elem()
					}
				}
				motif := append([]byte(nil), b[start:]...)
				for k := []int{2, 6, 7, 8, 9, 16, 25, 50, 120}[rng.IntN(9)]; k > 1 && len(b) < 4000; k-- {
					b = append(b, motif...)
				}
			case 0, 1, 2, 3:
				num(&b, []int64{0, 1, -1, 3, 4, 107, -107, 108, 1000, 70000, math.MaxInt32, math.MinInt32, 255, 256, int64(nsub), int64(nsub - 1), int64(rng.IntN(40)) - 5}[rng.IntN(17)])
			case 4:
				b = append(b, byte(247+rng.IntN(8))) // possibly truncated 2-byte number
				if rng.IntN(3) > 0 {
					b = append(b, byte(rng.IntN(256)))
				}
			case 5:
				b = append(b, byte(rng.IntN(32))) // any one-byte opcode incl. undefined ones
			case 6:
				b = append(b, 12, byte(rng.IntN(40))) // any escape opcode
			case 7:
				// callothersubr with every (index, count)
				num(&b, int64(rng.IntN(33)-2))
				num(&b, int64(rng.IntN(33)-2))
				b = append(b, 12, 16)
			case 8:
				num(&b, int64(rng.IntN(nsub+3)-1))
				b = append(b, 10) // callsubr
			case 9:
				b = append(b, 12, 17) // pop
			case 10:
				// seac with codes outside 0..255 / naming absent glyphs
				for j := 0; j < 5; j++ {
					num(&b, []int64{0, 65, 255, 256, -1, 1000, math.MaxInt32, 32}[rng.IntN(8)])
				}
				b = append(b, 12, 6)
			default:
				b = append(b, 12, 12) // div (possibly by zero)
			}
		}
		n := rng.IntN(40)
		for i := 0; i < n; i++ {
			elem()
		}
		switch rng.IntN(4) {
		case 0:
			b = append(b, 14)
		case 1:
			b = append(b, 11)
		}
		return b
	}
	mode := rng.IntN(5)
	desc := ""
	if mode == 0 && rng.IntN(8) == 0 {
		mode = 5
	}
	if mode == 1 && rng.IntN(8) == 0 {
		mode = 6
	}
	switch mode {
	case 6:
		// accented composites of accented composites: every glyph of a chain is
		// assembled from two copies of the one before (codes of the standard
		// encoding, A-Z then a-z), so the outlines double along the chain
		links := []int{3, 8, 20, 24, 30, 40, 51}[rng.IntN(7)]
		codes := make([]int, 0, 52)
		for c := 'A'; c <= 'Z'; c++ {
			codes = append(codes, int(c))
		}
		for c := 'a'; c <= 'z'; c++ {
			codes = append(codes, int(c))
		}
		var gl []*ref.WGlyph
		first := []byte{139, 255, 0, 0, 1, 244, 13} // 0 500 hsbw
		for j, n := 0, 1+rng.IntN(3); j < n; j++ {
			first = append(first, 139+10, 139+10, 21, 139+5, 139+7, 5, 9) // 10 10 rmoveto 5 7 rlineto closepath
		}
		first = append(first, 14)
		gl = append(gl, &ref.WGlyph{Name: ".notdef", Den: 1, WX: 500, Raw: []byte{139, 139, 13, 14}}, &ref.WGlyph{Name: "A", Den: 1, Raw: first})
		for i := 1; i <= links && i < len(codes); i++ {
			var b []byte
			b = append(b, 139, 255, 0, 0, 1, 244, 13) // 0 500 hsbw
			num(&b, 0)
			num(&b, int64(rng.IntN(3)))
			num(&b, int64(rng.IntN(3)))
			prev := int64(codes[i-1])
			acc := prev
			if rng.IntN(4) == 0 && i >= 2 {
				acc = int64(codes[i-2])
			}
			if rng.IntN(6) == 0 {
				acc = int64(codes[i]) // the glyph names itself as its accent
			} else if rng.IntN(8) == 0 {
				prev = int64(codes[i]) // ... or as its base
			}
			num(&b, prev)
			num(&b, acc)
			b = append(b, 12, 6)
			gl = append(gl, &ref.WGlyph{Name: string(rune(codes[i])), Den: 1, Raw: b})
		}
		mf.w.Glyphs = gl
		mf.w.StdEncoding, mf.w.Encoding = true, nil
		lay.RawSubrs = nil
		desc = fmt.Sprintf("accented composites chained %d deep", links)
	case 5:
		// a call tree: subroutine k calls subroutine k-1 m times, the glyph
		// calls the top one; m^depth calls from a file of a few hundred bytes
		depth := 2 + rng.IntN(9)
		m := []int{2, 3, 5, 8, 16, 30, 60}[rng.IntN(7)]
		lay.RawSubrs = make([][]byte, depth)
		leaf := []byte{11}
		if rng.IntN(2) == 0 {
			leaf = []byte{140, 140, 5, 11} // 1 1 rlineto return
		}
		lay.RawSubrs[0] = leaf
		for k := 1; k < depth; k++ {
			var b []byte
			for j := 0; j < m; j++ {
				num(&b, int64(k-1))
				b = append(b, 10)
			}
			lay.RawSubrs[k] = append(b, 11)
		}
		for _, g := range mf.w.Glyphs {
			var b []byte
			b = append(b, 139, 139, 13) // 0 0 hsbw
			num(&b, int64(depth-1))
			g.Raw = append(b, 10, 14)
		}
		desc = fmt.Sprintf("subroutine call tree: fan-out %d, depth %d", m, depth)
	case 0, 1:
		// hostile charstrings and subroutine graphs (self calls, mutual calls, depth up to 64)
		nsub := rng.IntN(70)
		lay.RawSubrs = make([][]byte, nsub)
		for i := range lay.RawSubrs {
			switch rng.IntN(4) {
			case 0:
				var b []byte
				num(&b, int64(i)) // self call, with and without a trailing return
				b = append(b, 10)
				if rng.IntN(2) == 0 {
					b = append(b, 11)
				}
				lay.RawSubrs[i] = b
			case 1:
				var b []byte
				num(&b, int64((i+1)%max(nsub, 1))) // chain / cycle
				b = append(b, 10)
				if rng.IntN(2) == 0 {
					b = append(b, 11)
				}
				lay.RawSubrs[i] = b
			default:
				lay.RawSubrs[i] = hostileCS(nsub)
			}
		}
		for _, g := range mf.w.Glyphs {
			if rng.IntN(4) > 0 {
				g.Raw = hostileCS(nsub)
			}
		}
		desc = fmt.Sprintf("hostile charstrings: %d subroutines", nsub)
	case 2:
		// lenIV extremes and charstrings shorter than lenIV
		lay.LenIVText = []string{"-9223372036854775808", "-1099511627776", "-5", "-1", "0", "3", "8", "2147483648", "9223372036854775807", "4.5", "(4)", "/four", "[4]", "true"}[rng.IntN(14)]
		lay.LenIV = []int{0, 1, 4, 8}[rng.IntN(4)]
		lay.CutShort = rng.IntN(2) == 0
		desc = "hostile lenIV: " + lay.LenIVText
	default:
		desc = "hostile dictionary entry"
	}
	lay.Container = []string{"plain", "pfa", "bin", "pfb"}[rng.IntN(4)]
	if mode >= 3 {
		lay.Container = "plain"
	}
	data := ref.RenderType1(rng, mf.w, lay)
	if mode >= 3 {
		// replace the value of one key the reader extracts by a hostile value
		keys := []string{"FontType", "FontName", "FontInfo", "version", "Notice", "FullName", "ItalicAngle", "isFixedPitch", "UnderlinePosition", "FontMatrix", "Encoding",
			"Private", "BlueValues", "OtherBlues", "BlueScale", "BlueShift", "BlueFuzz", "StdHW", "StdVW", "ForceBold", "lenIV", "Subrs", "CharStrings", "PaintType", "FontBBox"}
		vals := []string{"5", "(str)", "/name", "[ 1 (a) /b ]", "true", "1e308", "-9223372036854775808", "[ ]", "<< >>", "256 array", "{ }", "257 array", "255 array",
			"[ 1 2 3 4 5 6 7 ]", "[ (a) (b) (c) (d) (e) (f) ]", "1 array dup dup 0 exch put", "currentfile", "mark", "0 dict", "65536 string", "StandardEncoding", "systemdict",
			"[ 257 { /a } repeat ]", "[ 300 { /.notdef } repeat ]", "[ 256 { /A } repeat /B ]", "[ 1000 { /x } repeat ]", "[ 255 { /a } repeat ]", "[ 256 { (a) } repeat ]", "[ 65535 { /a } repeat ]"}
		key := keys[rng.IntN(len(keys))]
		val := vals[rng.IntN(len(vals))]
		s := string(data)
		marker := "/" + key + " "
		if i := strings.Index(s, marker); i >= 0 {
			switch rng.IntN(4) {
			case 0:
				// drop the definition line
				j := strings.Index(s[i:], "\n")
				if j > 0 {
					s = s[:i] + s[i+j:]
				}
				desc = "hostile dictionary entry: " + key + " removed"
			default:
				s = s[:i] + marker + val + " def " + marker + s[i+len(marker):]
				// the original definition follows; swap order half of the time so that the hostile one wins
				if rng.IntN(2) == 0 {
					s = strings.Replace(s, marker+val+" def "+marker, marker+val+" def /Shadowed"+key+" ", 1)
				}
				desc = "hostile dictionary entry: " + key + " = " + val
			}
		}
		switch rng.IntN(6) {
		case 0:
			s = strings.Replace(s, "definefont pop", "pop pop", 1) // zero fonts
			desc += "; no font defined"
		case 1:
			s = strings.Replace(s, "definefont pop", "definefont /Second exch definefont pop", 1) // two fonts
			desc += "; two fonts defined"
		case 2:
			s += "\nFontDirectory /Junk 5 put\n" // a non-dictionary entry in the font directory
			desc += "; junk in FontDirectory"
		}
		data = []byte(s)
	}
	return data, desc
}

func genHostileAFM(rng *rand.Rand) []byte {
	m := genMetrics(rng, &afmOpts{}, 6)
	text := string(ref.WriteAFM(rng, toAFMModel(rng, m)))
	hostileNum := []string{"99999999999999999999", "-99999999999999999999", "1e400", "NaN", "Inf", "-Inf", "0x10", "1_000", "1e308", "-1e308", "", " ", "1.5.2", "9223372036854775807", "-9223372036854775808", "32768", "+", "-"}
	lines := strings.Split(text, "\n")
	for i, n := 0, 1+rng.IntN(5); i < n; i++ {
		li := rng.IntN(len(lines))
		f := strings.Fields(lines[li])
		if len(f) == 0 {
			continue
		}
		switch rng.IntN(7) {
		case 0:
			f[rng.IntN(len(f))] = hostileNum[rng.IntN(len(hostileNum))]
			lines[li] = strings.Join(f, " ")
		case 1:
			lines[li] = "C 65 ; WX " + hostileNum[rng.IntN(len(hostileNum))] + " ; N A ; B " + strings.Repeat("1 ", []int{0, 3, 5, 1000}[rng.IntN(4)]) + ";"
		case 2:
			lines[li] = strings.Repeat("C 1 ; N x ; L a b ; ", 4000) // a 70 KiB line
		case 3:
			lines[li] = strings.Replace(lines[li], " ", "\x00", -1)
		case 4:
			lines[li] = lines[li] + "\r" + lines[li]
		case 5:
			lines[li] = "KPX a b " + hostileNum[rng.IntN(len(hostileNum))]
		case 6:
			// the counts that section keywords announce (nothing has to be reserved for them)
			kw := []string{"StartCharMetrics", "StartKernPairs", "StartKernPairs0", "StartKernPairs1", "StartKernData", "StartTrackKern", "StartComposites", "StartFontMetrics", "StartDirection"}[rng.IntN(9)]
			cnt := hostileNum[rng.IntN(len(hostileNum))]
			if rng.IntN(2) == 0 {
				cnt = []string{"2305843009213693952", "4611686018427387904", "1099511627776", "68719476736", "4294967296", "2147483648", "1152921504606846976", "576460752303423488"}[rng.IntN(8)]
			}
			lines[li] = kw + " " + cnt
		}
	}
	return []byte(strings.Join(lines, "\n"))
}

func genHostileCMap(rng *rand.Rand) []byte {
	m := ref.GenCMap(rng, "Hostile")
	if len(m.Blocks) > 6 {
		m.Blocks = m.Blocks[:6]
	}
	for i := range m.Blocks {
		b := &m.Blocks[i]
		switch rng.IntN(6) {
		case 0:
			b.Declared = []int{-1, 101, math.MaxInt32, 0, 100, len(b.Entries) + 50}[rng.IntN(6)]
		case 1:
			for j := range b.Entries {
				if rng.IntN(3) == 0 {
					b.Entries[j].Dst = ref.MDst{Kind: []string{"int", "str", "name", "arr", "real", "bool", "dict", "mark"}[rng.IntN(8)], S: []byte("x"), Arr: [][]byte{{1}}, I: math.MaxInt64}
				}
			}
		case 2:
			for j := range b.Entries {
				if rng.IntN(3) == 0 {
					b.Entries[j].Lo = nil
				}
			}
		}
	}
	m.NoBegin = rng.IntN(6) == 0
	text := string(ref.RenderFile(rng, []*ref.MCMap{m}))
	if rng.IntN(3) == 0 {
		hostile := []string{"9223372036854775807 begincidrange", "endcidrange", "endbfchar endbfrange endnotdefchar", "-1 begincodespacerange", "usecmap", "(x) usecmap", "endcmap endcmap",
			"<00> <ff> 9223372036854775807 endcidrange", "1 begincidchar 1 begincidchar", "100 begincidrange 100 beginbfrange endcidrange", "begincmap begincmap"}
		lines := strings.Split(text, "\n")
		p := rng.IntN(len(lines))
		lines = append(lines[:p], append([]string{hostile[rng.IntN(len(hostile))]}, lines[p:]...)...)
		text = strings.Join(lines, "\n")
	}
	return []byte(text)
}
