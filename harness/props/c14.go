package props

// C14 — PFB decoding reproduces the segment contents for every read pattern.
//
// Reference-model monitor with schedule injection: R8 (below) frames a segment
// list and gives the expected output (text verbatim, binary as lower-case hex,
// stop at the end marker or at end of input after a complete segment); the
// decoder is driven with every kind of caller buffer plan over every kind of
// underlying delivery plan.

import (
	"bytes"
	"errors"
	"fmt"
	"io"
	"math/rand/v2"

	"seehuhn.de/go/postscript/pfb"

	"verif/harness/mon"
	"verif/harness/rt"
)

func init() { register("C14", runC14) }

type pfbSeg struct {
	typ  byte
	data []byte
}

const lowerHex = "0123456789abcdef"

// framePFB renders segments (R8 encoder) and returns the stream and the
// expected decoder output.
func framePFB(segs []pfbSeg, marker bool, garbage []byte) (stream, want []byte) {
	for _, s := range segs {
		n := len(s.data)
		stream = append(stream, 0x80, s.typ, byte(n), byte(n>>8), byte(n>>16), byte(n>>24))
		stream = append(stream, s.data...)
		if s.typ == 1 {
			want = append(want, s.data...)
		} else {
			for _, b := range s.data {
				want = append(want, lowerHex[b>>4], lowerHex[b&15])
			}
		}
	}
	if marker {
		stream = append(stream, 0x80, 3)
		stream = append(stream, garbage...)
	}
	return
}

type readPlan struct {
	sizes []int // caller buffer sizes, cycled
	desc  string
}

func genCallerPlan(rng *rand.Rand) readPlan {
	switch rng.IntN(8) {
	case 0:
		return readPlan{[]int{1}, "1"}
	case 1:
		return readPlan{[]int{2}, "2"}
	case 2:
		return readPlan{[]int{3}, "3"}
	case 3:
		s := []int{5, 7, 512}[rng.IntN(3)]
		return readPlan{[]int{s}, fmt.Sprint(s)}
	case 4:
		return readPlan{[]int{4096}, "4096"}
	default:
		n := 1 + rng.IntN(8)
		p := make([]int, n)
		for i := range p {
			switch rng.IntN(5) {
			case 0:
				p[i] = 0
			case 1:
				p[i] = 1 + 2*rng.IntN(5) // odd
			case 2:
				p[i] = 2 * (1 + rng.IntN(5))
			default:
				p[i] = 1 + rng.IntN(700)
			}
		}
		return readPlan{p, fmt.Sprint(p)}
	}
}

func genDeliveryPlan(rng *rand.Rand) ([]int, bool, string) {
	eofWithData := rng.IntN(4) == 0
	switch rng.IntN(5) {
	case 0:
		return nil, eofWithData, fmt.Sprintf("all-at-once eof-with-data=%v", eofWithData)
	case 1:
		return []int{1}, eofWithData, fmt.Sprintf("one byte at a time eof-with-data=%v", eofWithData)
	default:
		n := 1 + rng.IntN(6)
		p := make([]int, n)
		for i := range p {
			p[i] = 1 + rng.IntN(20)
			if rng.IntN(4) == 0 {
				p[i] = 1 + rng.IntN(700)
			}
		}
		return p, eofWithData, fmt.Sprintf("chunks %v eof-with-data=%v", p, eofWithData)
	}
}

// drive reads from the decoder with the caller plan; it returns the bytes,
// the terminating error and a protocol violation message, if any.
func drivePFB(stream []byte, chunks []int, eofWithData bool, plan readPlan) (out []byte, err error, proto string, reads int) {
	return drivePFBStalls(stream, chunks, eofWithData, plan, 0)
}

// drivePFBStalls: the source answers `stalls` reads with (0, nil) in front of
// every delivery.
func drivePFBStalls(stream []byte, chunks []int, eofWithData bool, plan readPlan, stalls int) (out []byte, err error, proto string, reads int) {
	return drivePFBNested(stream, chunks, eofWithData, plan, stalls, 1)
}

// drivePFBNested: `depth` decoders on top of each other (the text segments of
// the outer stream carry a PFB stream themselves).
func drivePFBNested(stream []byte, chunks []int, eofWithData bool, plan readPlan, stalls, depth int) (out []byte, err error, proto string, reads int) {
	src := &mon.PlanReader{Data: stream, Chunks: chunks, EOFWithData: eofWithData, Stalls: stalls}
	dec := pfb.Decode(src)
	for i := 1; i < depth; i++ {
		dec = pfb.Decode(dec)
	}
	for i := 0; i < 1<<22; i++ {
		size := plan.sizes[i%len(plan.sizes)]
		buf := make([]byte, size)
		n, e := dec.Read(buf)
		reads++
		if n < 0 || n > size {
			return out, e, fmt.Sprintf("Read returned n=%d for a buffer of %d bytes", n, size), reads
		}
		out = append(out, buf[:n]...)
		if e != nil {
			return out, e, "", reads
		}
		if n < size {
			return out, nil, fmt.Sprintf("Read %d returned %d bytes for a buffer of %d with a nil error although the stream had not ended", i, n, size), reads
		}
		if size == 0 && allZero(plan.sizes) {
			return out, nil, "", reads
		}
	}
	return out, nil, "decoder did not end after 4M reads", reads
}

func allZero(s []int) bool {
	for _, v := range s {
		if v != 0 {
			return false
		}
	}
	return true
}

func runC14(r *rt.Runner) {
	// well-formed streams x caller plans x delivery plans
	n := r.N(1000000, 8000000)
	for k := 0; k < n; k++ {
		r.Case("stream", func(c *rt.C) {
			rng := c.Rand()
			ns := rng.IntN(7)
			var segs []pfbSeg
			for i := 0; i < ns; i++ {
				var ln int
				switch rng.IntN(6) {
				case 0:
					ln = 0
				case 1:
					ln = 1 + rng.IntN(3)
				case 2:
					ln = 500 + rng.IntN(2500)
				default:
					ln = rng.IntN(60)
				}
				d := make([]byte, ln)
				for j := range d {
					d[j] = byte(rng.IntN(256))
				}
				if rng.IntN(5) == 0 {
					// payloads that begin with (or are) hexadecimal text: a binary segment is
					// converted whatever it holds
					for j := 0; j < len(d) && (j < 4+rng.IntN(8) || rng.IntN(3) == 0); j++ {
						d[j] = "0123456789abcdefABCDEF"[rng.IntN(22)]
					}
				}
				segs = append(segs, pfbSeg{typ: byte(1 + rng.IntN(2)), data: d})
			}
			marker := rng.IntN(4) > 0
			var garbage []byte
			if marker && rng.IntN(2) == 0 {
				garbage = make([]byte, rng.IntN(12))
				for j := range garbage {
					garbage[j] = []byte{0, 0, 0, 0x80, 1, 2, 3, 0xff, 'a'}[rng.IntN(9)]
				}
			}
			stream, want := framePFB(segs, marker, garbage)
			plan := genCallerPlan(rng)
			chunks, ewd, ddesc := genDeliveryPlan(rng)
			c.SetDetail(func() string {
				return fmt.Sprintf("stream: %x\ncaller buffer sizes: %s\nunderlying delivery: %s", head2(stream, 400), plan.desc, ddesc)
			})
			// one stream in six comes from a source that is polled before its data
			// have arrived: reads answered with (0, nil), up to several hundred in a row
			stalls := 0
			if rng.IntN(6) == 0 {
				stalls = []int{1, 2, 7, 50, 99, 100, 101, 128, 250, 1000}[rng.IntN(10)]
				if stalls >= 50 && len(chunks) > 0 {
					for i := range chunks {
						chunks[i] += 200 // keep the number of deliveries, and with it the run time, small
					}
				}
				ddesc += fmt.Sprintf(", %d reads answered with (0, nil) in front of every delivery", stalls)
				c.Count("streams from a stalling source")
			}
			// one stream in eight is itself carried in the text segments of another
			// PFB stream and read through two decoders, one on top of the other
			depth := 1
			if rng.IntN(8) == 0 && len(stream) > 0 {
				var outer []pfbSeg
				for rest := stream; len(rest) > 0; {
					n := 1 + rng.IntN(len(rest))
					if rng.IntN(3) == 0 {
						n = 1 + rng.IntN(min(len(rest), 9))
					}
					outer = append(outer, pfbSeg{typ: 1, data: rest[:n]})
					rest = rest[n:]
				}
				stream, _ = framePFB(outer, rng.IntN(2) == 0, nil)
				depth = 2
				ddesc += ", wrapped in the text segments of an outer stream (two decoders)"
				c.Count("streams read through two nested decoders")
			}
			out, err, proto, reads := drivePFBNested(stream, chunks, ewd, plan, stalls, depth)
			c.Runner().Count("decoder Read calls", int64(reads))
			if proto != "" {
				c.Violation("stream|short-read", proto, "")
				return
			}
			if allZero(plan.sizes) {
				return
			}
			if err != io.EOF {
				c.Violation("stream|error", fmt.Sprintf("well-formed stream: reading ended with %v instead of io.EOF after %d of %d expected bytes", err, len(out), len(want)), "")
				return
			}
			if !bytes.Equal(out, want) {
				c.Violation("stream|bytes", fmt.Sprintf("decoded %d bytes, expected %d; first difference at %d\n got: %q\nwant: %q", len(out), len(want), firstDiffAt(out, want), head(out, 300), head(want, 300)), "")
			}
			for _, s := range segs {
				if len(s.data) == 0 {
					c.Count("empty segments")
				}
			}
			if !marker {
				c.Count("streams ending without marker")
			}
			if len(garbage) > 0 {
				c.Count("streams with garbage after the marker")
			}
			c.Nontrivial(append([]byte(plan.desc+"|"+ddesc+"|"), stream...), func() string {
				return fmt.Sprintf("%d segments, marker=%v, caller %s, delivery %s", len(segs), marker, plan.desc, ddesc)
			})
		})
	}

	// large streams: long runs of empty segments, segments of tens of
	// kilobytes, caller buffers larger than any internal block (the decoder
	// converts in place inside the caller's buffer)
	nLarge := r.N(4000, 60000)
	for k := 0; k < nLarge; k++ {
		r.Case("stream/large", func(c *rt.C) {
			rng := c.Rand()
			var segs []pfbSeg
			total := 0
			for i, ns := 0, 1+rng.IntN(4); i < ns; i++ {
				switch rng.IntN(4) {
				case 0:
					// a run of empty segments of both types
					for j, m := 0, []int{3, 50, 99, 100, 101, 102, 150, 400, 1000}[rng.IntN(9)]; j < m; j++ {
						segs = append(segs, pfbSeg{typ: byte(1 + rng.IntN(2))})
					}
					c.Count("long runs of empty segments")
				default:
					ln := []int{4095, 4096, 4097, 8191, 8192, 8193, 12288, 16385, 40000, 65535, 65536, 70001}[rng.IntN(12)]
					if rng.IntN(3) == 0 {
						ln = 3000 + rng.IntN(40000)
					}
					if total+ln > 150000 {
						ln = 5000
					}
					total += ln
					d := make([]byte, ln)
					for j := range d {
						d[j] = byte(rng.IntN(256))
					}
					segs = append(segs, pfbSeg{typ: byte(1 + rng.IntN(2)), data: d})
				}
			}
			marker := rng.IntN(4) > 0
			stream, want := framePFB(segs, marker, nil)
			var plan readPlan
			switch rng.IntN(4) {
			case 0:
				s := []int{4096, 8192, 8193, 8194, 10000, 16384, 16385, 20001, 65536, 200000}[rng.IntN(10)]
				plan = readPlan{[]int{s}, fmt.Sprint(s)}
			case 1:
				// doubling buffers, as io.ReadAll and bytes.Buffer.ReadFrom use them
				plan = readPlan{[]int{512, 1024, 2048, 4096, 8192, 16384, 32768, 65536, 131072}, "doubling"}
			case 2:
				p := make([]int, 1+rng.IntN(5))
				for i := range p {
					p[i] = 1 + rng.IntN(30000)
				}
				plan = readPlan{p, fmt.Sprint(p)}
			default:
				plan = genCallerPlan(rng)
				if len(plan.sizes) == 1 && plan.sizes[0] < 5 {
					plan = readPlan{[]int{9001}, "9001"}
				}
			}
			chunks, ewd, ddesc := genDeliveryPlan(rng)
			c.SetDetail(func() string {
				return fmt.Sprintf("%d segments, %d bytes in all\nstream starts: %x\ncaller buffer sizes: %s\nunderlying delivery: %s", len(segs), len(stream), head2(stream, 200), plan.desc, ddesc)
			})
			out, err, proto, reads := drivePFB(stream, chunks, ewd, plan)
			c.Runner().Count("decoder Read calls", int64(reads))
			if proto != "" {
				c.Violation("large|short-read", proto, "")
				return
			}
			if allZero(plan.sizes) {
				return
			}
			if err != io.EOF {
				c.Violation("large|error", fmt.Sprintf("well-formed stream: reading ended with %v instead of io.EOF after %d of %d expected bytes", err, len(out), len(want)), "")
				return
			}
			if !bytes.Equal(out, want) {
				c.Violation("large|bytes", fmt.Sprintf("decoded %d bytes, expected %d; first difference at %d", len(out), len(want), firstDiffAt(out, want)), "")
			}
			c.Count("large streams")
			c.Nontrivial(append([]byte(plan.desc+"|"+ddesc+"|"), stream...), func() string {
				return fmt.Sprintf("%d segments, %d bytes, marker=%v, caller %s, delivery %s", len(segs), len(stream), marker, plan.desc, ddesc)
			})
		})
	}

	// one segment of more than 64 MiB (lengths are 32-bit; nothing in the format
	// limits a segment to the size of a typical font)
	nGiant := r.N(1, 3)
	for k := 0; k < nGiant; k++ {
		k := k
		r.Case("stream/giant-segment", func(c *rt.C) {
			rng := c.Rand()
			ln := []int{64<<20 + 1, 70_000_001, 33<<20 + 12345}[k%3]
			typ := byte(1 + k%2)
			stream := make([]byte, 0, ln+40)
			stream = append(stream, 0x80, 1, 3, 0, 0, 0, 'a', 'b', 'c')
			stream = append(stream, 0x80, typ, byte(ln), byte(ln>>8), byte(ln>>16), byte(ln>>24))
			body := len(stream)
			stream = stream[:body+ln]
			pat := make([]byte, 8191)
			for i := range pat {
				pat[i] = byte(rng.IntN(256))
			}
			for i := body; i < len(stream); i += len(pat) {
				copy(stream[i:], pat)
			}
			stream = append(stream, 0x80, 3)
			c.SetDetail(func() string {
				return fmt.Sprintf("a type-%d segment of %d bytes between a small text segment and the end marker", typ, ln)
			})
			src := &mon.PlanReader{Data: stream, Chunks: []int{1 << 20}}
			dec := pfb.Decode(src)
			buf := make([]byte, 1<<16)
			pos, bad := 0, -1
			const hexd = "0123456789abcdef"
			expect := func(i int) byte { // byte i of the expected output
				if i < 3 {
					return "abc"[i]
				}
				i -= 3
				if typ == 1 {
					return stream[body+i]
				}
				b := stream[body+i/2]
				if i%2 == 0 {
					return hexd[b>>4]
				}
				return hexd[b&15]
			}
			total := 3 + ln
			if typ == 2 {
				total = 3 + 2*ln
			}
			var err error
			for {
				var n int
				n, err = dec.Read(buf)
				for i := 0; i < n && bad < 0; i++ {
					if pos+i >= total || buf[i] != expect(pos+i) {
						bad = pos + i
					}
				}
				pos += n
				if err != nil {
					break
				}
			}
			c.Count("segments beyond 64 MiB decoded")
			if err != io.EOF {
				c.Violation("giant|error", fmt.Sprintf("well-formed stream with a segment of %d bytes: reading ended with %v after %d of %d expected bytes", ln, err, pos, total), "")
			} else if bad >= 0 || pos != total {
				c.Violation("giant|bytes", fmt.Sprintf("segment of %d bytes: decoded %d bytes, expected %d; first difference at %d", ln, pos, total, bad), "")
			}
			c.Nontrivial([]byte(fmt.Sprintf("giant|%d|%d", typ, ln)), func() string { return fmt.Sprintf("type-%d segment of %d bytes", typ, ln) })
		})
	}

	// all 65536 first-two-byte header values
	for hi := 0; hi < 256; hi++ {
		hi := hi
		r.Case(fmt.Sprintf("header/%02X", hi), func(c *rt.C) {
			rng := c.Rand()
			for lo := 0; lo < 256; lo++ {
				stream := []byte{byte(hi), byte(lo), 3, 0, 0, 0, 'a', 'b', 'c', 0x80, 3}
				plan := genCallerPlan(rng)
				out, err, _, _ := drivePFB(stream, nil, false, plan)
				c.Eval()
				valid := hi == 0x80 && lo >= 1 && lo <= 3
				fp := fmt.Sprintf("header:%02x%02x", hi, lo)
				switch {
				case allZero(plan.sizes):
				case !valid:
					if !errors.Is(err, pfb.ErrInvalidPFB) {
						c.Violation(fp+"|not-rejected", fmt.Sprintf("segment header % x: reading returned %v (after %q), expected ErrInvalidPFB", stream[:2], err, out), "")
					}
					c.Count("invalid headers rejected")
				case lo == 3:
					if err != io.EOF || len(out) != 0 {
						c.Violation(fp+"|marker", fmt.Sprintf("end marker first: got %q, %v", out, err), "")
					}
				default:
					want := "abc"
					if lo == 2 {
						want = "616263"
					}
					if err != io.EOF || string(out) != want {
						c.Violation(fp+"|valid", fmt.Sprintf("valid header % x: got %q, %v; expected %q, io.EOF", stream[:2], out, err, want), "")
					}
				}
				c.Nontrivial(stream[:2], nil)
			}
		})
	}
	// an invalid header after valid segments
	r.Case("header/mid-stream", func(c *rt.C) {
		rng := c.Rand()
		for i := 0; i < 2000; i++ {
			pre, want := framePFB([]pfbSeg{{1, []byte("%!PS\n")}, {2, []byte{1, 2, 3, byte(i)}}}, false, nil)
			b0, b1 := byte(rng.IntN(256)), byte(rng.IntN(256))
			if b0 == 0x80 && b1 >= 1 && b1 <= 3 {
				continue
			}
			stream := append(append([]byte(nil), pre...), b0, b1, 1, 0, 0, 0, 'x')
			plan := genCallerPlan(rng)
			if allZero(plan.sizes) {
				continue
			}
			out, err, _, _ := drivePFB(stream, nil, false, plan)
			c.Eval()
			if !errors.Is(err, pfb.ErrInvalidPFB) || !bytes.Equal(out, want) {
				c.Violation("header-mid-stream", fmt.Sprintf("bad header % x after two good segments: got %q, %v; expected %q then ErrInvalidPFB (caller %s)", []byte{b0, b1}, out, err, want, plan.desc), "")
			}
			c.Nontrivial(append([]byte("mid|"+plan.desc), b0, b1), nil)
		}
	})

	// one stray byte between two well-formed segments (a line break added by a
	// transfer, a text segment declared one byte too short): the header position
	// then holds <byte> 80 <type> ..., whose first byte is not the marker
	r.Case("header/stray-byte", func(c *rt.C) {
		rng := c.Rand()
		for stray := 0; stray < 256; stray++ {
			if stray == 0x80 {
				continue
			}
			for _, first := range []pfbSeg{{1, []byte("%!PS\n")}, {2, []byte{1, 2, 3}}, {1, []byte("ends in a line break\r")}, {1, nil}} {
				pre, want := framePFB([]pfbSeg{first}, false, nil)
				rest, _ := framePFB([]pfbSeg{{byte(1 + stray%2), []byte("next segment")}}, true, nil)
				stream := append(append(append([]byte(nil), pre...), byte(stray)), rest...)
				plan := genCallerPlan(rng)
				if allZero(plan.sizes) {
					continue
				}
				chunks, ewd, _ := genDeliveryPlan(rng)
				out, err, _, _ := drivePFB(stream, chunks, ewd, plan)
				c.Eval()
				c.Count("streams with one stray byte in front of a header")
				if !errors.Is(err, pfb.ErrInvalidPFB) || !bytes.Equal(out, want) {
					c.Violation("header-stray-byte", fmt.Sprintf("stray byte %02x between two segments: got %q, %v; expected %q then ErrInvalidPFB (caller %s)", stray, out, err, want, plan.desc), "")
				}
			}
		}
		c.Nontrivial([]byte("stray"), nil)
	})

	// declared lengths of 2^31 and more with only a few bytes following
	r.Case("huge-declared-length", func(c *rt.C) {
		rng := c.Rand()
		for _, ln := range []uint32{1 << 31, 1<<31 + 1, 3 << 30, 1<<32 - 1, 1<<31 - 1, 1 << 30} {
			for _, typ := range []byte{1, 2} {
				for avail := 0; avail < 6; avail++ {
					stream := []byte{0x80, 1, 3, 0, 0, 0, 'a', 'b', 'c', 0x80, typ, byte(ln), byte(ln >> 8), byte(ln >> 16), byte(ln >> 24)}
					stream = append(stream, []byte("xyzuvw")[:avail]...)
					plan := genCallerPlan(rng)
					if allZero(plan.sizes) {
						continue
					}
					out, err, _, _ := drivePFB(stream, nil, false, plan)
					c.Eval()
					c.Count("segments declaring 2^30 bytes or more")
					if typ == 2 && (err == nil || err == io.EOF) {
						c.Violation("huge-length|clean-eof", fmt.Sprintf("binary segment declares %d bytes, %d follow: reading ended with %v", ln, avail, err), "")
					}
					if !bytes.HasPrefix(out, []byte("abc")) {
						c.Violation("huge-length|bytes", fmt.Sprintf("output %q does not start with the first segment", out), "")
					}
					c.Nontrivial(append([]byte(plan.desc), stream...), nil)
				}
			}
		}
	})

	// binary segments truncated at every position x caller plans
	nt := r.N(4000, 30000)
	for k := 0; k < nt; k++ {
		r.Case("truncated-binary", func(c *rt.C) {
			rng := c.Rand()
			ln := 1 + rng.IntN(40)
			d := make([]byte, ln)
			for j := range d {
				d[j] = byte(rng.IntN(256))
			}
			var pre []pfbSeg
			if rng.IntN(2) == 0 {
				pre = append(pre, pfbSeg{1, []byte("%!PS-AdobeFont\n")})
			}
			full, want := framePFB(append(pre, pfbSeg{2, d}), false, nil)
			hdrEnd := len(full) - ln
			for cut := hdrEnd; cut < len(full); cut++ {
				for _, plan := range []readPlan{{[]int{1}, "1"}, {[]int{2}, "2"}, {[]int{3}, "3"}, {[]int{10}, "10"}, {[]int{64}, "64"}, genCallerPlan(rng), {[]int{2 * (cut - hdrEnd)}, "exactly the available data"}} {
					if allZero(plan.sizes) {
						continue
					}
					chunks, ewd, ddesc := genDeliveryPlan(rng)
					out, err, _, _ := drivePFB(full[:cut], chunks, ewd, plan)
					c.Eval()
					c.Count("truncated binary segments read")
					if err == nil || err == io.EOF {
						c.SetDetail(func() string {
							return fmt.Sprintf("stream (cut at %d of %d): %x\ncaller %s, delivery %s", cut, len(full), full[:cut], plan.desc, ddesc)
						})
						c.Violation("truncated-binary|clean-eof", fmt.Sprintf("binary segment declares %d bytes but only %d follow: reading ended with %v (a clean end) after %d bytes; caller buffers %s", ln, cut-hdrEnd, err, len(out), plan.desc), "")
					}
					if !bytes.HasPrefix(want, out) {
						c.Violation("truncated-binary|bytes", fmt.Sprintf("bytes delivered before the error are not a prefix of the segment's hex form: %q", out), "")
					}
					c.Nontrivial(append([]byte(fmt.Sprintf("trunc|%s|%s|%d|", plan.desc, ddesc, cut)), full...), nil)
				}
			}
		})
	}
}

func head2(b []byte, n int) []byte {
	if len(b) > n {
		return b[:n]
	}
	return b
}

func firstDiffAt(a, b []byte) int {
	n := min(len(a), len(b))
	for i := 0; i < n; i++ {
		if a[i] != b[i] {
			return i
		}
	}
	return n
}
