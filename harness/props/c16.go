package props

// C16 — Glyph names and Unicode text map to each other as the AGL specifies.
//
// Clause map (property statement -> oracle clause):
//  (a) every scalar value's chosen name maps back to that character or its
//      documented compatibility expansion          -> roundtrip/* cases
//  (b) different characters never share a name    -> inject-all case
//  (c) ToUnicode follows the AGL specification    -> glyphlist/dingbats/aglfn/
//      uni/u/composite cases against ref.AGL (R9) over the pinned tables
//  (d) IsValid accepts exactly the allowed names  -> isvalid/* cases
// Nothing else (e.g. validity of generated names) is demanded.

import (
	"fmt"
	"os"
	"os/exec"
	"path/filepath"
	"strings"

	"seehuhn.de/go/postscript/type1/names"

	"verif/harness/ref"
	"verif/harness/rt"
)

func init() { register("C16", runC16) }

func runesEq(a, b []rune) bool {
	if len(a) != len(b) {
		return false
	}
	for i := range a {
		if a[i] != b[i] {
			return false
		}
	}
	return true
}

func fmtRunes(rr []rune) string {
	var sb strings.Builder
	sb.WriteByte('[')
	for i, r := range rr {
		if i > 0 {
			sb.WriteByte(' ')
		}
		fmt.Fprintf(&sb, "U+%04X", r)
	}
	sb.WriteByte(']')
	return sb.String()
}

func runC16(r *rt.Runner) {
	if first := os.Getenv("VERIF_C16_FIRST"); first != "" {
		// child process: the very first look-up of the process (nothing else has
		// touched the name tables yet)
		db := strings.HasSuffix(first, "|true")
		name := strings.TrimSuffix(strings.TrimSuffix(first, "|true"), "|false")
		fmt.Printf("FIRST %s\n", fmtRunes(names.ToUnicode(name, db)))
		return
	}
	agl, err := ref.LoadAGL("/verif/refdata")
	if err != nil {
		panic(err)
	}

	checkTU := func(c *rt.C, name string, dingbats bool) {
		// the two deliberately re-mapped names are a known finding keyed by the
		// plain call; other spellings reaching the same table entry are not
		// generated (see DESIGN.md section 6)
		want := agl.ToUnicode(name, dingbats)
		got := names.ToUnicode(name, dingbats)
		c.Count("ToUnicode calls")
		c.Eval()
		c.Nontrivial([]byte(fmt.Sprintf("tu|%s|%t", name, dingbats)), func() string {
			return fmt.Sprintf("ToUnicode(%q,%t) = %s", name, dingbats, fmtRunes(got))
		})
		if !runesEq(want, got) {
			c.Violation(fmt.Sprintf("ToUnicode:%s:%t", name, dingbats),
				fmt.Sprintf("ToUnicode(%q, %t) = %s, AGL specification gives %s", name, dingbats, fmtRunes(got), fmtRunes(want)), "")
		}
		// the result belongs to the caller: writing into it (reversing
		// right-to-left text in place, say) must not reach any later call
		for i := range got {
			got[i] = 0xFFFD
		}
		if cap(got) > len(got) {
			got = append(got, 0xFFFD)
		}
	}

	// (a) round trip over all scalar values, in blocks of 4096
	const block = 4096
	for lo := rune(0); lo <= 0x10FFFF; lo += block {
		lo := lo
		r.Case(fmt.Sprintf("roundtrip/%06X", lo), func(c *rt.C) {
			for x := lo; x < lo+block && x <= 0x10FFFF; x++ {
				if x >= 0xD800 && x <= 0xDFFF {
					continue
				}
				name := names.FromUnicode(x)
				got := names.ToUnicode(name, false)
				c.Count("FromUnicode round trips")
				c.Eval()
				c.Nontrivial([]byte(fmt.Sprintf("ru|%d", x)), func() string {
					return fmt.Sprintf("FromUnicode(U+%04X) = %q -> ToUnicode = %s", x, name, fmtRunes(got))
				})
				if runesEq(got, []rune{x}) {
					continue
				}
				if exp, ok := agl.Compat[x]; ok && runesEq(got, exp) {
					c.Count("round trips via compatibility expansion")
					continue
				}
				c.Violation(fmt.Sprintf("roundtrip:U+%04X", x),
					fmt.Sprintf("FromUnicode(U+%04X) = %q, which maps back to %s (documented expansion: %s)", x, name, fmtRunes(got), fmtRunes(agl.Compat[x])), "")
			}
		})
	}

	// (b) injectivity: one case sees all names
	r.Case("inject-all", func(c *rt.C) {
		seen := make(map[string]rune, 1200000)
		for x := rune(0); x <= 0x10FFFF; x++ {
			if x >= 0xD800 && x <= 0xDFFF {
				continue
			}
			name := names.FromUnicode(x)
			if y, dup := seen[name]; dup {
				c.Violation(fmt.Sprintf("shared-name:%s", name),
					fmt.Sprintf("U+%04X and U+%04X share the glyph name %q", y, x, name), "")
				continue
			}
			seen[name] = x
		}
		c.Runner().Count("distinct names over all scalars", int64(len(seen)))
		c.Nontrivial([]byte("inject-all"), func() string { return fmt.Sprintf("%d scalars -> %d distinct names", 1112064, len(seen)) })
	})

	// (c1) every glyph list entry
	for i := 0; i < len(agl.GLNames); i += 128 {
		i := i
		r.Case(fmt.Sprintf("glyphlist/%d", i), func(c *rt.C) {
			for _, n := range agl.GLNames[i:min(i+128, len(agl.GLNames))] {
				checkTU(c, n, false)
				if len(agl.GlyphList[n]) > 1 {
					c.Count("multi-code glyph list entries")
				}
			}
			// once more, after the first results were written into; also as the
			// first and as a later component, and with a suffix
			for _, n := range agl.GLNames[i:min(i+128, len(agl.GLNames))] {
				if n == "Tcommaaccent" || n == "tcommaaccent" {
					continue
				}
				checkTU(c, n, false)
				if len(agl.GlyphList[n]) > 1 {
					checkTU(c, n+".alt", false)
					checkTU(c, n+"_A", false)
					checkTU(c, "A_"+n, false)
					checkTU(c, n, false)
				}
			}
		})
	}
	// (c2) dingbats, with and without the flag
	r.Case("dingbats", func(c *rt.C) {
		for _, n := range agl.DBNames {
			checkTU(c, n, true)
			checkTU(c, n, false)
		}
	})
	// (c3) AGLFN names
	r.Case("aglfn", func(c *rt.C) {
		for _, n := range agl.AGLFNames {
			checkTU(c, n, false)
			if n != "Tcommaaccent" && n != "tcommaaccent" {
				checkTU(c, n, true)
			}
		}
	})

	// (c4) uniXXXX over the whole BMP, plus malformed relatives
	for hi := 0; hi < 256; hi++ {
		hi := hi
		r.Case(fmt.Sprintf("uni-bmp/%02X", hi), func(c *rt.C) {
			rng := c.Rand()
			for lo := 0; lo < 256; lo++ {
				v := hi<<8 | lo
				up := fmt.Sprintf("%04X", v)
				checkTU(c, "uni"+up, false)
				checkTU(c, "u"+up, false)
				lw := strings.ToLower(up)
				if lw != up {
					checkTU(c, "uni"+lw, false)
					checkTU(c, "u"+lw, false)
				}
				switch lo % 8 {
				case 0:
					checkTU(c, "uni"+up[:3], false)
					checkTU(c, "u"+up[:3], false)
				case 1:
					checkTU(c, "uni"+up+"0", false)
					checkTU(c, "u"+up+"000", false) // 7 digits
				case 2:
					w := rng.IntN(0x10000)
					checkTU(c, fmt.Sprintf("uni%s%04X", up, w), false)
				case 3:
					checkTU(c, fmt.Sprintf("uni%sD800", up), false)
					checkTU(c, fmt.Sprintf("uniDFFF%s", up), false)
				case 4:
					checkTU(c, "uni"+up+".alt", true)
					checkTU(c, "Uni"+up, false)
				case 5:
					checkTU(c, "u0"+up, false)
					checkTU(c, "u00"+up, false)
				case 6:
					checkTU(c, fmt.Sprintf("uni%s%04X%04X", up, rng.IntN(0x10000), rng.IntN(0x10000)), false)
				case 7:
					checkTU(c, "uni"+up+"_u"+up, false)
				}
				// a component that fails part-way (a surrogate group or a bad digit
				// behind good groups) contributes nothing - and leaves nothing behind
				// for the components that follow it in the same name
				if lo%16 == 9 {
					checkTU(c, fmt.Sprintf("uni%sD800_uni0042", up), false)
					checkTU(c, fmt.Sprintf("uni%s004G_uni%s", up, up), false)
					checkTU(c, fmt.Sprintf("uni%sDFFF_A_uni%s_u%s", up, up, up), false)
					checkTU(c, fmt.Sprintf("u%sG_uni0041%s", up, up), false)
					checkTU(c, fmt.Sprintf("uni%s%s00_uni0042_uni%sD9AB_uni0043", up, up, up), true)
				}
			}
		})
	}
	// (c4b) every byte value at every digit position of the uni and u forms (a sign,
	// a blank or a lower-case digit is not a hexadecimal digit of these forms)
	r.Case("hex-digit-bytes", func(c *rt.C) {
		for _, form := range []string{"uni0041", "uni00410042", "u0041", "u10041", "u10FFFD"} {
			start := 3
			if form[1] != 'n' {
				start = 1
			}
			for pos := start; pos < len(form); pos++ {
				for b := 0; b < 256; b++ {
					nm := form[:pos] + string([]byte{byte(b)}) + form[pos+1:]
					checkTU(c, nm, false)
					if b%16 == 3 {
						checkTU(c, "A_"+nm, true)
					}
				}
			}
		}
	})
	// (c4b') digits replaced by multi-byte characters whose code points END in the
	// byte of a hexadecimal digit (U+0141, U+4E30, ...), at byte lengths that are
	// right for the form: such a character is not a hexadecimal digit
	r.Case("hex-digit-runes", func(c *rt.C) {
		rng := c.Rand()
		const hexd = "0123456789ABCDEF"
		bases := []rune{0x100, 0x200, 0x300, 0x4E00, 0x2000, 0x1F600, 0x10000}
		for i := 0; i < 30000; i++ {
			var body []byte
			target := []int{4, 5, 6, 4, 8, 12}[rng.IntN(6)]
			for len(body) < target {
				h := rune(hexd[rng.IntN(16)])
				if rng.IntN(4) == 0 {
					body = append(body, string(bases[rng.IntN(len(bases))]+h)...)
				} else {
					body = append(body, byte(h))
				}
			}
			if len(body) != target {
				continue
			}
			pre := "u"
			if target%4 == 0 && rng.IntN(2) == 0 {
				pre = "uni"
			}
			nm := pre + string(body)
			switch rng.IntN(4) {
			case 0:
				nm = "A_" + nm + "_B"
			case 1:
				nm += ".alt"
			}
			checkTU(c, nm, rng.IntN(2) == 0)
		}
	})
	// (c4c) the first look-up of a process: fresh child processes whose very first
	// call is a multi-code entry, a dingbat, a uni name, a composite
	{
		var firsts []string
		for _, n := range agl.GLNames {
			if len(agl.GlyphList[n]) > 1 {
				firsts = append(firsts, n+"|false", n+"|true")
			}
		}
		firsts = append(firsts, "a100|true", "a100|false", "uni20AC0308|false", "A_B.alt|false", "f_f_i|true", "u1F600|false", "Aacute|false")
		nFirst := r.N(16, 120)
		for k := 0; k < nFirst; k++ {
			k := k
			r.Case("first-call", func(c *rt.C) {
				arg := firsts[(k*37+int(r.Seed)*11)%len(firsts)]
				exe, err := os.Executable()
				if err != nil {
					c.Inconclusive("cannot locate the worker binary")
					return
				}
				logPath := filepath.Join(r.LogDir, fmt.Sprintf("c16-first-%d.log", c.Seq))
				cmd := exec.Command(exe, "-prop", "C16", "-tier", r.Tier, "-seed", fmt.Sprint(r.Seed), "-only", "0", "-log", logPath, "-noprogress", "0")
				cmd.Env = append(os.Environ(), "VERIF_C16_FIRST="+arg)
				outB, err := cmd.Output()
				os.Remove(logPath)
				os.Remove(logPath + ".hashes")
				if err != nil {
					c.Inconclusive(fmt.Sprintf("child process failed: %v", err))
					return
				}
				db := strings.HasSuffix(arg, "|true")
				name := strings.TrimSuffix(strings.TrimSuffix(arg, "|true"), "|false")
				want := "FIRST " + fmtRunes(agl.ToUnicode(name, db))
				got := ""
				for _, l := range strings.Split(string(outB), "\n") {
					if strings.HasPrefix(l, "FIRST ") {
						got = l
					}
				}
				c.Count("first look-ups of a fresh process")
				if got != want {
					c.Violation(fmt.Sprintf("first-call:%s", arg), fmt.Sprintf("as the first look-up of a fresh process ToUnicode(%q, %t) gives %q, the AGL specification gives %q", name, db, strings.TrimPrefix(got, "FIRST "), strings.TrimPrefix(want, "FIRST ")), "")
				}
				c.Nontrivial([]byte("first|"+arg), func() string { return arg + " -> " + got })
			})
		}
	}
	// (c5) u-forms at the boundaries, every digit count
	r.Case("u-boundaries", func(c *rt.C) {
		bounds := []int{0, 0xD7FF, 0xD800, 0xDFFF, 0xE000, 0xFFFF, 0x10000, 0xFFFFF, 0x100000, 0x10FFFF, 0x110000, 0xFFFFFF}
		for _, b := range bounds {
			for d := -3; d <= 3; d++ {
				v := b + d
				if v < 0 {
					continue
				}
				for _, f := range []string{"%X", "%04X", "%05X", "%06X", "%07X", "%08X", "%x", "%04x", "%06x"} {
					s := fmt.Sprintf(f, v)
					checkTU(c, "u"+s, false)
					checkTU(c, "uni"+s, false)
					checkTU(c, "u"+s, true)
				}
			}
		}
		for n := 1; n <= 20; n++ {
			// uni components of 1..20 groups (4 to 80 digits), well-formed and with one bad group
			s, bad := "uni", "uni"
			for q := 0; q < n; q++ {
				s += fmt.Sprintf("%04X", 0x41+q)
				if q == n-1 {
					bad += "D800"
				} else {
					bad += fmt.Sprintf("%04X", 0x41+q)
				}
			}
			for _, nm := range []string{s, bad, s + ".alt", "A_" + s, s + "_B", s + "0"} {
				checkTU(c, nm, false)
				checkTU(c, nm, true)
			}
		}
		for _, s := range []string{"", ".", "_", "__", "u", "un", "uni", "u_", "uni_", ".notdef", ".null", "a.", "_a", "a_", "a__b", "uni.", "u.1234",
			"uni0041.sc", "A.sc_B.alt", "A_B.alt_C", "unknown", "unknown_A_unknown", "u12345678", "uniD83DDE00", "uD83D", "u1F600", "u01F600"} {
			checkTU(c, s, false)
			checkTU(c, s, true)
		}
	})
	// (c6) seeded random composites
	pool := make([]string, 0, len(agl.GLNames)+len(agl.DBNames))
	for _, n := range agl.GLNames {
		if n != "Tcommaaccent" && n != "tcommaaccent" {
			pool = append(pool, n)
		}
	}
	nGL := len(pool)
	pool = append(pool, agl.DBNames...)
	nComp := r.N(30000, 300000)
	for k := 0; k < nComp; k++ {
		r.Case("composite", func(c *rt.C) {
			rng := c.Rand()
			for j := 0; j < 128; j++ {
				var parts []string
				np := 1 + rng.IntN(4)
				for p := 0; p < np; p++ {
					switch rng.IntN(12) {
					case 0, 1, 2, 3:
						parts = append(parts, pool[rng.IntN(nGL)])
					case 4:
						parts = append(parts, pool[nGL+rng.IntN(len(pool)-nGL)])
					case 5:
						parts = append(parts, fmt.Sprintf("uni%04X", rng.IntN(0x10000)))
					case 6:
						n := 1 + rng.IntN(3)
						if rng.IntN(4) == 0 {
							n = 4 + rng.IntN(12) // long components: the name length limit of IsValid is not a limit of the mapping
						}
						s := "uni"
						for q := 0; q < n; q++ {
							s += fmt.Sprintf("%04X", rng.IntN(0x10000))
						}
						parts = append(parts, s)
					case 7:
						parts = append(parts, fmt.Sprintf("u%04X", rng.IntN(0x120000)))
					case 8:
						parts = append(parts, fmt.Sprintf("u%06X", rng.IntN(0x120000)))
					case 9:
						parts = append(parts, "")
					case 10:
						parts = append(parts, randName(rng.IntN(6), func() int { return rng.IntN(1 << 30) }))
					case 11:
						parts = append(parts, strings.ToLower(pool[rng.IntN(nGL)]))
					}
				}
				name := strings.Join(parts, "_")
				if rng.IntN(3) == 0 {
					// a suffix after the first period, possibly with further underscores
					name += "." + randName(rng.IntN(5), func() int { return rng.IntN(1 << 30) })
					if rng.IntN(4) == 0 {
						name += "_" + pool[rng.IntN(nGL)]
					}
				}
				if strings.Contains(name, "commaaccent") && (strings.Contains(name, "Tcommaaccent") || strings.Contains(name, "tcommaaccent")) {
					continue // cannot arise: the two names are not in the pool
				}
				checkTU(c, name, rng.IntN(2) == 0)
			}
		})
	}

	// (d) IsValid
	alphabet := []byte("ABCXYZabcxyz0189._-/ \x00\x80{")
	r.Case("isvalid/short", func(c *rt.C) {
		var rec func(prefix []byte, depth int)
		rec = func(prefix []byte, depth int) {
			checkIV(c, string(prefix))
			if depth == 3 {
				return
			}
			for _, b := range alphabet {
				rec(append(prefix[:len(prefix):len(prefix)], b), depth+1)
			}
		}
		rec(nil, 0)
	})
	r.Case("isvalid/full-alphabet", func(c *rt.C) {
		// every byte value as first, middle and last character
		for b := 0; b < 256; b++ {
			ch := string([]byte{byte(b)})
			checkIV(c, ch)
			checkIV(c, ch+"a")
			checkIV(c, "a"+ch)
			checkIV(c, "a"+ch+"a")
			checkIV(c, "."+ch)
			checkIV(c, ".notde"+ch)
			checkIV(c, ".notdef"+ch)
		}
		for n := 0; n <= 40; n++ {
			checkIV(c, strings.Repeat("a", n))
			checkIV(c, strings.Repeat("_", n))
			checkIV(c, "A"+strings.Repeat(".", n))
			checkIV(c, "a"+strings.Repeat("9", n))
			if n > 0 {
				checkIV(c, strings.Repeat("a", n-1)+"-")
				checkIV(c, "1"+strings.Repeat("a", n-1))
			}
		}
		for _, s := range []string{".notdef", ".notde", ".notdeff", ".Notdef", "notdef", ".null", "é", "aé", "a b", "a\n", "\xff", "a\xffb"} {
			checkIV(c, s)
		}
	})
	// every Unicode character, alone and inside a name: none outside ASCII is a
	// letter of the specification, whatever the Unicode tables say about its
	// case mapping (U+212A KELVIN SIGN lower-cases to k, U+0130 to i, U+017F
	// upper-cases to S)
	for plane := 0; plane <= 16; plane++ {
		plane := plane
		r.Case(fmt.Sprintf("isvalid/every-rune/plane-%d", plane), func(c *rt.C) {
			n := 0
			for cp := plane << 16; cp < (plane+1)<<16; cp++ {
				if cp < 0x80 || (cp >= 0xD800 && cp < 0xE000) {
					continue
				}
				ch := string(rune(cp))
				for _, s := range []string{ch, "a" + ch, ch + "1", "A" + ch + ".alt", "x_" + ch} {
					n++
					want := ref.IsValidGlyphName(s)
					if got := names.IsValid(s); got != want {
						c.Violation(fmt.Sprintf("IsValid:%q", s), fmt.Sprintf("IsValid(%q) = %t, specification says %t (U+%04X is not one of the 64 characters of the name alphabet)", s, got, want, cp), "")
					}
				}
			}
			c.Eval()
			c.Runner().Count("IsValid calls", int64(n))
			c.Runner().Count("IsValid calls with a non-ASCII character", int64(n))
			c.Nontrivial([]byte(fmt.Sprintf("iv-plane|%d", plane)), func() string { return fmt.Sprintf("plane %d: %d names", plane, n) })
		})
	}
	nIV := r.N(8000, 120000)
	for k := 0; k < nIV; k++ {
		r.Case("isvalid/random", func(c *rt.C) {
			rng := c.Rand()
			for j := 0; j < 256; j++ {
				n := rng.IntN(36)
				b := make([]byte, n)
				for i := range b {
					if rng.IntN(20) == 0 {
						b[i] = byte(rng.IntN(256))
					} else {
						b[i] = "ABCDEFGHIJKLMNOPQRSTUVWXYZabcdefghijklmnopqrstuvwxyz0123456789._"[rng.IntN(64)]
					}
				}
				checkIV(c, string(b))
			}
		})
	}
	r.Count("flag:exhaustive", 1)
}

func checkIV(c *rt.C, s string) {
	want := ref.IsValidGlyphName(s)
	got := names.IsValid(s)
	c.Count("IsValid calls")
	c.Eval()
	if want {
		c.Count("IsValid: valid names")
	}
	c.Nontrivial([]byte("iv|"+s), func() string { return fmt.Sprintf("IsValid(%q) = %t", s, got) })
	if want != got {
		c.Violation(fmt.Sprintf("IsValid:%q", s), fmt.Sprintf("IsValid(%q) = %t, specification says %t", s, got, want), "")
	}
}

func randName(n int, next func() int) string {
	const al = "abcdefghijklmnopqrstuvwxyzABCDEFGHIJKLMNOPQRSTUVWXYZ0123456789"
	b := make([]byte, n)
	for i := range b {
		b[i] = al[next()%len(al)]
	}
	return string(b)
}
