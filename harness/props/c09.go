package props

// C09 — Writing a font and reading it back returns the same font in all formats.
//
// Round-trip monitor: for generated fonts F in the writable domain and each of
// the four formats, type1.Read(F.Write(format)) is compared field by field
// with F (compareFonts): glyph set, outlines (exact for all-integer glyphs,
// 0.005 otherwise), widths, stems, the glyph name at each of the 256 codes
// (names of absent glyphs read back as .notdef - the reader's documented
// mapping), FontName and info strings byte for byte, FontMatrix, Private
// values, creation time as an instant to the second.

import (
	"bytes"
	"fmt"
	"math/rand/v2"
	"strings"

	"seehuhn.de/go/postscript/type1"

	"verif/harness/rt"
)

func init() { register("C09", runC09) }

// shadowNames are glyph names that the customary CharStrings idiom
// (`/name n RD ~data~ ND` inside `dict dup begin ... end`) looks up while the
// CharStrings dictionary is on top of the dictionary stack.
var shadowNames = []string{"RD", "ND", "def", "end", "string", "currentfile", "exch", "readstring", "pop",
	// names that shadow nothing in today's layout (the customary alternative procedure names, other operators): must work
	"-|", "|-", "|", "NP", "put", "dup", "noaccess", "readonly", "executeonly", "index", "closefile", "mark", "dict", "begin", "array", "for", "eexec", "definefont", "true", "systemdict"}

func runC09(r *rt.Runner) {
	for _, sn := range shadowNames {
		sn := sn
		r.Case("pinned-shadow", func(c *rt.C) {
			o := &fontOpts{maxGlyphs: 3}
			f := genFont(c.Rand(), o)
			f.Glyphs[sn] = genGlyph(c.Rand(), o)
			f.Glyphs["zzlast"] = genGlyph(c.Rand(), o)
			c.SetDetail(func() string { return describeFont(f) })
			for _, fm := range allFormats {
				var buf bytes.Buffer
				if err := f.Write(&buf, &type1.WriterOptions{Format: fm.f}); err != nil {
					c.Violation("glyph-named:"+sn, fmt.Sprintf("Write(%s) failed: %v", fm.name, err), "")
					break
				}
				g, err := type1.Read(bytes.NewReader(buf.Bytes()))
				if err != nil {
					c.Violation("glyph-named:"+sn, fmt.Sprintf("a font with a glyph named %q cannot be read back (%s): %v", sn, fm.name, err), "")
					break
				}
				if d := compareFonts(f, g, fontTol{coord: 0.005}); len(d) > 0 {
					c.Violation("glyph-named:"+sn, fmt.Sprintf("a font with a glyph named %q reads back differently (%s):\n  %s", sn, fm.name, joinLines(d)), "")
					break
				}
			}
			c.Nontrivial([]byte("shadow|"+sn), func() string { return "font with a glyph named " + sn })
		})
	}
	// fonts of several megabytes: thousands of glyphs, more than a million
	// charstring commands in all (each format is one case, so they spread over the shards)
	nHuge := r.N(1, 3)
	for k := 0; k < nHuge; k++ {
		for _, fm := range allFormats {
			k, fm := k, fm
			r.Case("huge-font/"+fm.name, func(c *rt.C) {
				rng := rand.New(rand.NewPCG(r.Seed, uint64(k)+77))
				o := &fontOpts{maxGlyphs: 3}
				f := genFont(rng, o)
				nGlyphs, nCont, nSeg := 4000+rng.IntN(400), 5, 50+rng.IntN(10)
				total := 0
				for i := 0; i < nGlyphs; i++ {
					g := &type1.Glyph{WidthX: float64(rng.IntN(1000))}
					for ct := 0; ct < nCont; ct++ {
						g.MoveTo(float64(rng.IntN(1001)), float64(rng.IntN(1001)))
						for j := 0; j < nSeg; j++ {
							if j%7 == 3 {
								g.CurveTo(float64(rng.IntN(1001)), float64(rng.IntN(1001)), float64(rng.IntN(1001)), float64(rng.IntN(1001)), float64(rng.IntN(1001)), float64(rng.IntN(1001)))
							} else {
								g.LineTo(float64(rng.IntN(1001)), float64(rng.IntN(1001)))
							}
						}
						g.ClosePath()
						total += nSeg + 2
					}
					f.Glyphs[fmt.Sprintf("g%04d", i)] = g
				}
				c.SetDetail(func() string { return fmt.Sprintf("%d glyphs, %d path commands in all", len(f.Glyphs), total) })
				var buf bytes.Buffer
				if err := f.Write(&buf, &type1.WriterOptions{Format: fm.f}); err != nil {
					c.Violation("huge|write-error|"+fm.name, fmt.Sprintf("Write(%s) failed on a font of %d glyphs / %d path commands: %v", fm.name, len(f.Glyphs), total, err), "")
					return
				}
				g, err := type1.Read(bytes.NewReader(buf.Bytes()))
				if err != nil {
					c.Violation("huge|read-error|"+fm.name, fmt.Sprintf("Read(Write(F, %s)) failed on a font of %d glyphs / %d path commands (%d bytes): %v", fm.name, len(f.Glyphs), total, buf.Len(), err), "")
					return
				}
				if d := compareFonts(f, g, fontTol{coord: 0.005}); len(d) > 0 {
					c.Violation("huge|roundtrip|"+fm.name+"|"+diffKind(d[0]), fmt.Sprintf("Read(Write(F, %s)) differs from F:\n  %s", fm.name, joinLines(d[:min(5, len(d))])), "")
				}
				c.Count("round trips of fonts with more than a million path commands")
				c.Runner().Max("largest font written and read back (bytes)", int64(buf.Len()))
				c.Nontrivial([]byte(fmt.Sprintf("huge|%d|%s|%d", k, fm.name, total)), func() string {
					return fmt.Sprintf("%d glyphs, %d path commands, %d bytes, %s", len(f.Glyphs), total, buf.Len(), fm.name)
				})
			})
		}
	}
	n := r.N(16000, 200000)
	for k := 0; k < n; k++ {
		r.Case("font", func(c *rt.C) {
			rng := c.Rand()
			o := &fontOpts{maxGlyphs: 12, fractional: true, hostileStr: true, features: map[string]bool{}}
			if rng.IntN(20) == 0 {
				o.maxGlyphs = 300
			}
			f := genFont(rng, o)
			if rng.IntN(40) == 0 {
				// a large font: clear-text and encrypted parts beyond 64 KiB
				for i := 0; i < 120+rng.IntN(200); i++ {
					g := &type1.Glyph{WidthX: float64(rng.IntN(1000))}
					g.MoveTo(0, 0)
					for j, n := 0, 100+rng.IntN(100); j < n; j++ {
						g.LineTo(float64(rng.IntN(4001)-2000), float64(rng.IntN(4001)-2000))
					}
					g.ClosePath()
					f.Glyphs[fmt.Sprintf("big%d", i)] = g
				}
				if rng.IntN(2) == 0 {
					f.FontInfo.Notice = strings.Repeat("All rights reserved. ", 3500)
				}
				o.f("large font (sections beyond 64 KiB)")
			}
			c.SetDetail(func() string { return describeFont(f) })
			for _, fm := range allFormats {
				var buf bytes.Buffer
				err := f.Write(&buf, &type1.WriterOptions{Format: fm.f})
				c.Eval()
				if err != nil {
					c.Violation("write-error|"+fm.name, fmt.Sprintf("Write(%s) failed: %v", fm.name, err), "")
					continue
				}
				g, err := type1.Read(bytes.NewReader(buf.Bytes()))
				if err != nil {
					c.Violation("read-error|"+fm.name, fmt.Sprintf("Read(Write(F, %s)) failed: %v", fm.name, err), fmt.Sprintf("written bytes (head): %q", head(buf.Bytes(), 1500)))
					continue
				}
				if d := compareFonts(f, g, fontTol{coord: 0.005}); len(d) > 0 {
					c.Violation("roundtrip|"+fm.name+"|"+diffKind(d[0]), fmt.Sprintf("Read(Write(F, %s)) differs from F:\n  %s", fm.name, joinLines(d)), "")
				}
				c.Count("round trips " + fm.name)
			}
			for ft := range o.features {
				c.Count("feature: " + ft)
			}
			c.Nontrivial([]byte(describeFont(f)), func() string { return head([]byte(describeFont(f)), 500) })
		})
	}
}

func head(b []byte, n int) string {
	if len(b) > n {
		return string(b[:n]) + "…"
	}
	return string(b)
}

func joinLines(d []string) string {
	out := ""
	for i, s := range d {
		if i > 0 {
			out += "\n  "
		}
		if len(s) > 600 {
			s = s[:600] + "…"
		}
		out += s
	}
	return out
}

// diffKind reduces a difference message to its field class for fingerprints.
func diffKind(d string) string {
	for _, k := range []string{"encoding", "CreationDate", "FontName", "Version", "Notice", "Copyright", "FullName", "FamilyName", "Weight", "ItalicAngle",
		"UnderlinePosition", "UnderlineThickness", "StdHW", "StdVW", "IsFixedPitch", "FontMatrix", "BlueValues", "OtherBlues", "BlueScale", "BlueShift",
		"width", "path commands", "command", "HStem", "VStem", "is missing", "unexpected glyph"} {
		if bytes.Contains([]byte(d), []byte(k)) {
			return k
		}
	}
	return "other"
}
