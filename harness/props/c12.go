package props

// C12 — Results do not depend on how the input stream is delivered.
//
// I/O-boundary schedule injection + differential monitor: the result of each
// public entry point under a delivery plan (mon.PlanReader) must equal the
// result under the reference plan (everything in one read, not seekable).
// Multi-call clause: a program cut at token boundaries and fed to one
// interpreter in consecutive Execute calls must end in the state of the
// single-call run.

import (
	"bufio"
	"bytes"
	"fmt"
	"io"
	"sort"
	"strings"

	"seehuhn.de/go/postscript"
	"seehuhn.de/go/postscript/type1"

	"verif/harness/mon"
	"verif/harness/ref"
	"verif/harness/rt"
)

func init() { register("C12", runC12) }

type outcome struct {
	digest string
	err    string
}

func runPlan(env *psEnv, kind string, data []byte, chunks []int, eofWithData, seekable bool, bounds ...int) (outcome, int) {
	var r io.Reader
	var reads *int
	if seekable {
		sr := &mon.SeekPlanReader{PlanReader: mon.PlanReader{Data: data, Chunks: chunks, EOFWithData: eofWithData, Boundaries: bounds}}
		r, reads = sr, &sr.Reads
	} else {
		pr := &mon.PlanReader{Data: data, Chunks: chunks, EOFWithData: eofWithData, Boundaries: bounds}
		r, reads = pr, &pr.Reads
	}
	d, err := runEntry(env, kind, r)
	o := outcome{digest: d}
	if err != nil {
		o.err = err.Error()
	}
	return o, *reads
}

type namedReader struct {
	name string
	r    io.Reader
}

// stdReaders returns the data behind the reader types callers actually pass.
func stdReaders(data []byte) []namedReader {
	return []namedReader{
		{"bytes.Reader", bytes.NewReader(data)},
		{"strings.Reader", strings.NewReader(string(data))},
		{"bytes.Buffer", bytes.NewBuffer(append([]byte(nil), data...))},
		{"bufio.Reader", bufio.NewReaderSize(&mon.PlanReader{Data: data}, 16)},
		{"io.LimitedReader", io.LimitReader(&mon.PlanReader{Data: append(append([]byte(nil), data...), "junk behind the limit"...)}, int64(len(data)))},
		{"io.SectionReader", io.NewSectionReader(bytes.NewReader(append(append([]byte("prefix"), data...), "suffix"...)), 6, int64(len(data)))},
	}
}

func runC12(r *rt.Runner) {
	env := newPSEnv()
	nIn := r.N(800, 16000)
	for k := 0; k < nIn; k++ {
		r.Case("delivery", func(c *rt.C) {
			rng := c.Rand()
			kind := allKinds[rng.IntN(len(allKinds))]
			it := genCorpusItem(c, env, kind, rng.IntN(4) == 0)
			c.SetDetail(func() string {
				return fmt.Sprintf("%s (%s), %d bytes: %q", it.kind, it.desc, len(it.data), head(it.data, 3000))
			})
			refOut, _ := runPlan(env, kind, it.data, nil, false, false)
			check := func(desc string, chunks []int, ewd, seek bool, bounds ...int) {
				got, reads := runPlan(env, kind, it.data, chunks, ewd, seek, bounds...)
				c.Eval()
				c.Runner().Count("reader calls logged", int64(reads))
				c.Count("plan kind: " + strings.SplitN(desc, " ", 2)[0])
				if got != refOut {
					c.Violation("delivery|"+kind+"|"+strings.SplitN(desc, " ", 2)[0],
						fmt.Sprintf("%s: result under the plan [%s] differs from the result when everything arrives in one read:\n  plan:      digest %s err %q\n  reference: digest %s err %q", kind, desc, got.digest, got.err, refOut.digest, refOut.err), "")
				}
			}
			// the readers of the standard library, which have methods a plan
			// reader lacks (Len, Size, ReadAt, WriteTo, ReadByte, UnreadByte,
			// ReadRune, Seek): what they offer besides Read must not change the result
			for _, sr := range stdReaders(it.data) {
				d, err := runEntry(env, kind, sr.r)
				got := outcome{digest: d}
				if err != nil {
					got.err = err.Error()
				}
				c.Eval()
				c.Count("plan kind: " + sr.name)
				if got != refOut {
					c.Violation("delivery|"+kind+"|"+sr.name,
						fmt.Sprintf("%s: the result from a %s differs from the result from a plain reader:\n  got:       digest %s err %q\n  reference: digest %s err %q", kind, sr.name, got.digest, got.err, refOut.digest, refOut.err), "")
				}
			}
			check("one-byte-reads", []int{1}, false, false)
			check("data-with-eof", nil, true, false)
			check("one-byte-reads-data-with-eof", []int{1}, true, false)
			if kind == kType1 {
				check("seekable source", nil, false, true)
				check("seekable one-byte-reads", []int{1}, false, true)
				// a source that has a Seek method but cannot seek (a pipe)
				{
					pr := &mon.PipeReader{PlanReader: mon.PlanReader{Data: it.data}}
					if rng.IntN(2) == 0 {
						pr.Chunks = randChunks(rng)
					}
					d, err := runEntry(env, kind, pr)
					got := outcome{digest: d}
					if err != nil {
						got.err = err.Error()
					}
					c.Eval()
					c.Count("plan kind: pipe (Seek method that always fails)")
					if got != refOut {
						c.Violation("delivery|type1|pipe", fmt.Sprintf("type1.Read from a source whose Seek method always fails (a pipe: it does not support seeking) differs from reading the same bytes from a plain reader:\n  got:       digest %s err %q\n  reference: digest %s err %q", got.digest, got.err, refOut.digest, refOut.err), "")
					}
				}
				// a seekable source that is not positioned at its start
				for _, prefix := range [][]byte{[]byte("%!PS junk prefix\n"), it.data, {0x80, 0x01, 0x05}} {
					sr := &mon.SeekPlanReader{PlanReader: mon.PlanReader{Data: append(append([]byte(nil), prefix...), it.data...)}}
					sr.StartAt(len(prefix))
					if rng.IntN(2) == 0 {
						sr.Chunks = randChunks(rng)
					}
					d, err := runEntry(env, kind, sr)
					got := outcome{digest: d}
					if err != nil {
						got.err = err.Error()
					}
					c.Eval()
					c.Count("plan kind: seekable-after-prefix")
					if got != refOut {
						c.Violation("delivery|type1|seekable-after-prefix", fmt.Sprintf("type1.Read from a seekable source positioned at offset %d (after a prefix) differs from reading the font alone:\n  got:       digest %s err %q\n  reference: digest %s err %q", len(prefix), got.digest, got.err, refOut.digest, refOut.err), "")
					}
				}
			}
			// two-chunk splits
			n := len(it.data)
			var splits []int
			if n <= r.N(1200, 2048) {
				for p := 1; p < n; p++ {
					splits = append(splits, p)
				}
			} else {
				add := func(p int) {
					for d := -8; d <= 8; d++ {
						if p+d > 0 && p+d < n {
							splits = append(splits, p+d)
						}
					}
				}
				for p := 512; p < n; p += 512 {
					add(p)
				}
				for _, m := range it.marks {
					add(m)
				}
				for i := 0; i < 60; i++ {
					splits = append(splits, 1+rng.IntN(n-1))
				}
				sort.Ints(splits)
			}
			last := -1
			for _, p := range splits {
				if p == last {
					continue
				}
				last = p
				check(fmt.Sprintf("two-chunks split at %d", p), nil, rng.IntN(8) == 0, false, p)
			}
			for i, m := 0, r.N(12, 300); i < m; i++ {
				ch := randChunks(rng)
				check(fmt.Sprintf("random-chunks %v", ch), ch, rng.IntN(4) == 0, kind == kType1 && rng.IntN(4) == 0)
			}
			c.Count("inputs of kind " + kind)
			if refOut.err != "" {
				c.Count("inputs with content errors")
			}
			c.Nontrivial(append([]byte(kind+"|"), it.data...), func() string { return fmt.Sprintf("%s, %d bytes, %d split positions", it.desc, n, len(splits)) })
		})
	}

	// a font program that needs more operations than type1.Read grants, in a
	// file of more than a megabyte: the refusal must not depend on what the
	// reader can tell about its size
	r.Case("over-budget-font", func(c *rt.C) {
		rng := c.Rand()
		f := genFont(rng, &fontOpts{maxGlyphs: 5})
		var fb bytes.Buffer
		if err := f.Write(&fb, &type1.WriterOptions{Format: type1.FormatPFA}); err != nil {
			c.Inconclusive("cannot write the base font: " + err.Error())
			return
		}
		for _, iters := range []int{900000, 1100000, 2000000} {
			data := append(append([]byte(nil), fb.Bytes()...), fmt.Sprintf("\n0 1 %d { pop } for\n%%%s\n", iters, strings.Repeat("x", 1500000))...)
			c.SetDetail(func() string {
				return fmt.Sprintf("a PFA font followed by `0 1 %d { pop } for` and a comment of 1.5 MB", iters)
			})
			refOut, _ := runPlan(env, kType1, data, nil, false, false)
			for _, sr := range stdReaders(data) {
				d, err := runEntry(env, kType1, sr.r)
				got := outcome{digest: d}
				if err != nil {
					got.err = err.Error()
				}
				c.Eval()
				c.Count("over-budget font: " + sr.name)
				if got != refOut {
					c.Violation("delivery|type1|over-budget|"+sr.name, fmt.Sprintf("type1.Read of a font program with a %d-iteration loop behind it (file size %d): from a %s the outcome is digest %s err %q, from a plain reader digest %s err %q", iters, len(data), sr.name, got.digest, got.err, refOut.digest, refOut.err), "")
				}
			}
			c.Count("over-budget font outcome: " + map[bool]string{true: "refused", false: "read"}[refOut.err != ""])
		}
		c.Nontrivial([]byte("over-budget"), nil)
	})

	// inputs at the exact size limit of a reader: afm.Read limits a line to
	// 16 MiB; whether a line of exactly that size is accepted must not depend
	// on how the end of input is reported (bufio.Scanner declares a full buffer
	// "too long" unless the end-of-file indication arrived with the last bytes)
	{
		const maxLine = 1 << 24
		lens := []int{maxLine - 1, maxLine}
		tails := []string{"", "\r", "\n"}
		if !r.Quick() {
			lens = []int{maxLine - 2, maxLine - 1, maxLine, maxLine + 1}
			tails = []string{"", "\r", "\n", "\r\n", "\rEndFontMetrics\n", "\nEndFontMetrics"}
		}
		for _, L := range lens {
			for _, tail := range tails {
				L, tail := L, tail
				r.Case("line-limit", func(c *rt.C) {
					head := "StartFontMetrics 4.1\nFontName A\n"
					data := []byte(head + "Notice " + strings.Repeat("x", L-7) + tail)
					c.SetDetail(func() string {
						return fmt.Sprintf("AFM file %q + a line of %d bytes (\"Notice xxx...\") + %q", head, L, tail)
					})
					refOut, _ := runPlan(env, kAFM, data, nil, false, false)
					for _, pl := range []struct {
						desc   string
						chunks []int
						ewd    bool
						bounds []int
					}{
						{"data-with-eof", nil, true, nil},
						{"64KiB-chunks", []int{65536}, false, nil},
						{"64KiB-chunks-data-with-eof", []int{65536}, true, nil},
						{"4099-byte-chunks-data-with-eof", []int{4099}, true, nil},
						{"split-in-front-of-the-line-end", nil, false, []int{len(head) + L}},
						{"split-in-front-of-the-line-end-data-with-eof", nil, true, []int{len(head) + L}},
					} {
						if len(pl.bounds) > 0 && pl.bounds[0] >= len(data) {
							continue
						}
						got, reads := runPlan(env, kAFM, data, pl.chunks, pl.ewd, false, pl.bounds...)
						c.Eval()
						c.Runner().Count("reader calls logged", int64(reads))
						c.Count("line-limit plan: " + pl.desc)
						if got != refOut {
							c.Violation(fmt.Sprintf("line-limit|afm|%d%+d|%q|%s", maxLine, L-maxLine, tail, pl.desc),
								fmt.Sprintf("afm.Read of a file whose last line has %d bytes (limit %d) followed by %q: the result under the plan [%s] differs from the result when everything arrives in one read:\n  plan:      digest %s err %q\n  reference: digest %s err %q", L, maxLine, tail, pl.desc, got.digest, got.err, refOut.digest, refOut.err), "")
						}
					}
					c.Count("line-limit outcome: " + map[bool]string{true: "rejected", false: "accepted"}[refOut.err != ""])
					c.Nontrivial([]byte(fmt.Sprintf("line-limit|%d|%q", L, tail)), func() string { return fmt.Sprintf("line of %d bytes + %q", L, tail) })
				})
			}
		}
	}

	// multi-call clause for CMap files: a file fed line by line (1-6 cuts at line
	// ends, which are token boundaries in these files; cuts fall inside
	// begin.../end... blocks, between entries, between the dictionary's
	// definitions) gives the state of the single call
	nCM := r.N(1500, 30000)
	for k := 0; k < nCM; k++ {
		r.Case("multi-call-cmap", func(c *rt.C) {
			rng := c.Rand()
			text := ref.RenderFile(rng, []*ref.MCMap{ref.GenCMap(rng, "Multi")})
			var ends []int
			for i, b := range text {
				if b == '\n' && i+1 < len(text) {
					ends = append(ends, i+1)
				}
			}
			if len(ends) < 2 {
				c.Skip("file has too few lines to split")
				return
			}
			nCuts := 1 + rng.IntN(6)
			cutSet := map[int]bool{}
			for i := 0; i < nCuts; i++ {
				cutSet[ends[rng.IntN(len(ends))]] = true
			}
			var cuts []int
			for p := range cutSet {
				cuts = append(cuts, p)
			}
			sort.Ints(cuts)
			c.SetDetail(func() string { return fmt.Sprintf("CMap file cut at byte offsets %v:\n%q", cuts, head(text, 3000)) })
			one := postscript.NewInterpreter()
			one.MaxOps = 2_000_000
			err1 := one.Execute(bytes.NewReader(text))
			multi := postscript.NewInterpreter()
			multi.MaxOps = 2_000_000
			var err2 error
			prev := 0
			for _, p := range append(cuts, len(text)) {
				if err2 = multi.Execute(bytes.NewReader(text[prev:p])); err2 != nil {
					break
				}
				prev = p
			}
			c.Eval()
			c.Count("CMap files fed in several calls")
			if (err1 == nil) != (err2 == nil) {
				c.Violation("multi-call-cmap|error", fmt.Sprintf("in one call the file gives %v, fed in %d calls (cuts at %v) it gives %v", err1, len(cuts)+1, cuts, err2), "")
				return
			}
			if err1 != nil {
				c.Count("CMap files that fail (both ways)")
				return
			}
			one.DSC, multi.DSC = nil, nil // comment lines in the middle of a line are a known difference at call boundaries (DESIGN.md 15)
			want, got := libStateDigest(env.bt, one), libStateDigest(env.bt, multi)
			if want != got {
				c.Violation("multi-call-cmap|state", fmt.Sprintf("fed in %d calls (cuts at byte offsets %v) the final state differs from the single call %s", len(cuts)+1, cuts, firstDiff(want, got)), "")
			}
			c.Nontrivial(append([]byte(fmt.Sprint(cuts)), text...), func() string { return fmt.Sprintf("%d bytes, cuts %v", len(text), cuts) })
		})
	}

	// multi-call clause, failing programs: every split position
	for _, parts := range c12FailingPrograms {
		parts := parts
		r.Case("multi-call-failing", func(c *rt.C) {
			whole := strings.Join(parts, " ")
			c.SetDetail(func() string { return "program: " + whole })
			one := postscript.NewInterpreter()
			one.MaxOps = 10000
			err1 := one.ExecuteString(whole)
			if err1 == nil {
				c.Violation("multi-call-failing|accepted:"+whole, fmt.Sprintf("the program %q is expected to fail in one call, it returned nil", whole), "")
				return
			}
			for cut := 1; cut < len(parts); cut++ {
				multi := postscript.NewInterpreter()
				multi.MaxOps = 10000
				err2 := multi.ExecuteString(strings.Join(parts[:cut], " "))
				if err2 == nil {
					err2 = multi.ExecuteString(" " + strings.Join(parts[cut:], " "))
				}
				c.Eval()
				c.Count("failing programs fed in two calls")
				if err2 == nil || errName(err2) != errName(err1) {
					c.Violation("multi-call-failing|"+whole, fmt.Sprintf("in one call %q fails with %v; fed as %q and %q the outcome is %v", whole, err1, strings.Join(parts[:cut], " "), strings.Join(parts[cut:], " "), err2), "")
				}
			}
			c.Nontrivial([]byte("failing|"+whole), func() string { return whole + " -> " + err1.Error() })
		})
	}
	// multi-call clause
	nMC := r.N(20000, 200000)
	for k := 0; k < nMC; k++ {
		r.Case("multi-call", func(c *rt.C) {
			rng := c.Rand()
			var toks []ref.Tok
			if rng.IntN(3) == 0 {
				full, _ := c02Pool()
				toks = genDataProgram(c, env, full)
			} else {
				g := &g3{rng: rng, feat: map[string]bool{}, maxD: 2 + rng.IntN(2)}
				toks = g.body(0, 0)
			}
			// flatten to token texts; cuts are allowed between any two of them
			var parts []string
			flatten(toks, &parts)
			if rng.IntN(3) == 0 {
				// DSC comment lines between tokens
				pos := rng.IntN(len(parts) + 1)
				le := []string{"\n", "\r", "\r\n"}[rng.IntN(3)]
				parts = append(parts[:pos], append([]string{le + "%%Title: multi call" + le + "%%+ continued" + le}, parts[pos:]...)...)
			}
			if rng.IntN(3) == 0 && len(parts) >= 2 {
				// a continuation line that does not directly follow the comment it
				// continues (tokens in between): whatever the library makes of it, a
				// call boundary between the two lines must not change it
				p1 := rng.IntN(len(parts) - 1)
				p2 := p1 + 1 + rng.IntN(len(parts)-p1-1) + 1
				le := []string{"\n", "\r", "\r\n"}[rng.IntN(3)]
				withCont := append(append([]string(nil), parts[:p2]...), le+"%%+ second part"+le)
				withCont = append(withCont, parts[p2:]...)
				parts = append(append(append([]string(nil), withCont[:p1]...), le+"%%Title: first part"+le), withCont[p1:]...)
				c.Count("multi-call programs with a separated continuation line")
			}
			if rng.IntN(40) == 0 {
				// more than a thousand structured comments in one program
				pos := rng.IntN(len(parts) + 1)
				var many []string
				for i, n := 0, 1001+rng.IntN(300); i < n; i++ {
					many = append(many, fmt.Sprintf("\n%%%%K%d: %d\n", i, i))
				}
				parts = append(parts[:pos], append(many, parts[pos:]...)...)
				c.Count("multi-call programs with more than 1000 structured comments")
			}
			if rng.IntN(4) == 0 {
				// the empty name literal: a lone slash is a complete token
				pos := rng.IntN(len(parts) + 1)
				parts = append(parts[:pos], append([]string{"/", "pop"}, parts[pos:]...)...)
				c.Count("multi-call programs with an empty name literal")
			}
			if len(parts) < 2 {
				c.Skip("program too short to split")
				return
			}
			for _, t := range parts {
				if t == "stop" {
					// `stop` ends the whole program of one call, but only the
					// current call of several: not comparable
					c.Skip("program contains stop")
					return
				}
			}
			checkStart := rng.IntN(3) == 0
			if checkStart {
				// the start check is made once, on the first call
				parts = append([]string{"%!PS-Adobe-3.0\n"}, parts...)
				c.Count("multi-call runs with the start check enabled")
			}
			whole := strings.Join(parts, " ")
			c.SetDetail(func() string { return fmt.Sprintf("CheckStart=%v program: %s", checkStart, whole) })
			one := postscript.NewInterpreter()
			one.MaxOps = 200000
			one.CheckStart = checkStart
			err1 := one.ExecuteString(whole)
			if err1 != nil {
				c.Skip("program fails in one call (a failing call ends the comparison)")
				return
			}
			want := libStateDigest(env.bt, one)
			ncuts := 1 + rng.IntN(min(5, len(parts)-1))
			cutSet := map[int]bool{}
			for len(cutSet) < ncuts {
				cutSet[1+rng.IntN(len(parts)-1)] = true
			}
			var cuts []int
			for p := range cutSet {
				cuts = append(cuts, p)
			}
			sort.Ints(cuts)
			multi := postscript.NewInterpreter()
			multi.MaxOps = 200000
			multi.CheckStart = checkStart
			prev := 0
			inside := false
			depth := 0
			var err2 error
			for _, cp := range append(cuts, len(parts)) {
				piece := strings.Join(parts[prev:cp], " ")
				for _, t := range parts[prev:cp] {
					if t == "{" {
						depth++
					} else if t == "}" {
						depth--
					}
				}
				if depth > 0 && cp < len(parts) {
					inside = true
				}
				err2 = multi.Execute(bytes.NewReader([]byte(piece)))
				if err2 != nil {
					break
				}
				prev = cp
			}
			c.Eval()
			if inside {
				c.Count("cuts inside an unfinished procedure body")
			}
			c.Runner().Count("Execute calls in multi-call runs", int64(len(cuts)+1))
			if err2 != nil {
				c.Violation("multi-call|error", fmt.Sprintf("fed in %d calls (cuts after tokens %v) the program fails with %v; in one call it succeeds", len(cuts)+1, cuts, err2), "")
				return
			}
			got := libStateDigest(env.bt, multi)
			if got != want || multi.NumOps != one.NumOps {
				c.Violation("multi-call|state", fmt.Sprintf("fed in %d calls (cuts after tokens %v) the final state differs from the single call (NumOps %d vs %d) %s", len(cuts)+1, cuts, multi.NumOps, one.NumOps, firstDiff(want, got)), "")
			}
			c.Nontrivial([]byte(fmt.Sprintf("%v|%s", cuts, whole)), func() string { return fmt.Sprintf("cuts %v in: %s", cuts, head([]byte(whole), 300)) })
		})
	}
}

// c12FailingSplits: programs that fail in one call must fail in the same way
// when they are fed in several calls split at token boundaries.
var c12FailingPrograms = [][]string{
	{"1", ">", "2"}, {"1", "2", ">", "3", "4"}, {"[", "1", ">", "]", "2"}, {"1", ")", "2"}, {"1", "}", "2"},
	{"1", "(a)", "add", "2"}, {"1", "nosuchname", "2"}, {"{", "1", ">", "}", "exec"},
}

// flatten renders tokens one per slice element; procedure braces are tokens.
func flatten(toks []ref.Tok, out *[]string) {
	for _, t := range toks {
		if p, ok := t.(ref.TProc); ok {
			*out = append(*out, "{")
			flatten([]ref.Tok(p), out)
			*out = append(*out, "}")
			continue
		}
		*out = append(*out, ref.RenderTokens([]ref.Tok{t}))
	}
}
