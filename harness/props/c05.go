package props

// C05 — eexec-encrypted program sections are transparent.
//
// Differential monitor, library against library, with an independent
// encryptor (ref.Encrypt): interpreter 1 executes
//     A  currentfile eexec <layout(E(prefix4 + P + "currentfile closefile" + ws))>  T
// interpreter 2 executes A, gets the system dictionary pushed, executes P,
// gets the dictionary stack cut back, executes T. The complete state digests
// and the error outcome must agree. The library's own eexec writer is not
// involved.

import (
	"bytes"
	"fmt"
	"io"
	"math/rand/v2"
	"strings"

	"seehuhn.de/go/postscript"

	"verif/harness/ref"
	"verif/harness/rt"
)

func init() { register("C05", runC05) }

type eexecLayout struct {
	binary bool
	text   []byte // the section as it appears in the file (after `eexec` and its white space)
	desc   string
}

// pairBitmap records which (cipher state, cipher byte) pairs were produced.
type pairBitmap struct {
	bits  []uint64
	count int64
}

func newPairBitmap() *pairBitmap { return &pairBitmap{bits: make([]uint64, 1<<18)} }

func (p *pairBitmap) visit(state uint16, c byte) {
	i := uint32(state)<<8 | uint32(c)
	w, b := i>>6, i&63
	if p.bits[w]&(1<<b) == 0 {
		p.bits[w] |= 1 << b
		p.count++
	}
}

// layoutSection encrypts plain (without prefix) and renders it.
func layoutSection(rng *rand.Rand, plain []byte, bm *pairBitmap, forceCtl bool) eexecLayout {
	binary := rng.IntN(2) == 0
	var prefix [4]byte
	var cipher []byte
	for tries := 0; ; tries++ {
		for i := range prefix {
			prefix[i] = byte(rng.IntN(256))
		}
		if binary && forceCtl {
			// first cipher byte a control character other than blank/tab/CR/LF
			ctl := []byte{0, 1, 2, 3, 4, 5, 6, 7, 8, 11, 12, 14, 15, 16, 17, 18, 19, 20, 21, 22, 23, 24, 25, 26, 27, 28, 29, 30, 31}
			prefix[0] = ctl[rng.IntN(len(ctl))] ^ byte(ref.EexecKey>>8)
		}
		if binary && tries < 40 && rng.IntN(3) == 0 {
			// aim at the detection window: make the first k cipher bytes hex digits
			k := 1 + rng.IntN(3)
			r := ref.EexecKey
			for i := 0; i < k; i++ {
				c := "0123456789abcdefABCDEF"[rng.IntN(22)]
				prefix[i] = c ^ byte(r>>8)
				r = (uint16(c)+r)*52845 + 22719
			}
		}
		if binary && tries < 40 && rng.IntN(6) == 0 {
			// all four cipher bytes from what a case-folding or table-driven digit
			// test may confuse with hexadecimal digits: the digits themselves, the
			// control bytes and punctuation that differ from them in one bit, and
			// white space behind the first byte
			const al = "0123456789abcdefABCDEF\x10\x11\x12\x13\x14\x15\x16\x17\x18\x19\x01\x02\x06@`GgPp:/ \t\r\n"
			r := ref.EexecKey
			for i := 0; i < 4; i++ {
				c := al[rng.IntN(len(al))]
				prefix[i] = c ^ byte(r>>8)
				r = (uint16(c)+r)*52845 + 22719
			}
		}
		cipher = ref.Encrypt(append(prefix[:], plain...), ref.EexecKey, nil)
		if !binary || ref.LegalBinaryStart(cipher) {
			break
		}
	}
	ref.Encrypt(append(prefix[:], plain...), ref.EexecKey, bm.visit)
	if binary {
		return eexecLayout{binary: true, text: cipher, desc: fmt.Sprintf("binary, first cipher bytes % x", cipher[:4])}
	}
	// hexadecimal: case per digit, white space anywhere after the first four digits
	var out bytes.Buffer
	mode := rng.IntN(3)
	width := 1 + rng.IntN(100)
	col := 0
	n := 0
	for _, c := range cipher {
		for _, d := range []byte{c >> 4, c & 15} {
			ch := "0123456789abcdef"[d]
			if mode == 1 || (mode == 2 && rng.IntN(2) == 0) {
				ch = "0123456789ABCDEF"[d]
			}
			out.WriteByte(ch)
			n++
			col++
			if n >= 4 {
				if col >= width {
					out.WriteString([]string{"\n", "\r", "\r\n"}[rng.IntN(3)])
					col = 0
				} else if rng.IntN(25) == 0 {
					out.WriteByte(" \t"[rng.IntN(2)])
				}
			}
		}
	}
	return eexecLayout{text: out.Bytes(), desc: fmt.Sprintf("hex mode %d width %d", mode, width)}
}

// genEexecPlain builds a plaintext program for an eexec section. It returns
// the text and whether it contains binary readstring data.
func genEexecPlain(c *rt.C, env *psEnv, full []poolItem) ([]byte, bool) {
	rng := c.Rand()
	var out bytes.Buffer
	hasBin := false
	n := rng.IntN(6)
	if rng.IntN(8) == 0 {
		n = 20 + rng.IntN(60)
	}
	out.WriteString("/RD { string currentfile exch readstring pop } def\n")
	if rng.IntN(3) == 0 {
		out.WriteString("mark ")
	}
	for i := 0; i < n; i++ {
		switch rng.IntN(7) {
		case 6:
			// comment lines inside the section (never on its first line, where the
			// column depends on the four prefix bytes): plain and structured ones,
			// with a form feed and further tokens on the same line
			switch rng.IntN(4) {
			case 0:
				fmt.Fprintf(&out, "%% plain comment %d\n", i)
			case 1:
				fmt.Fprintf(&out, "%%%%Key%d: value\n%%%%+ more\n", i)
			case 2:
				fmt.Fprintf(&out, "%%%%Key%d: value\f %d %d\n", i, 30+i, 40+i)
			default:
				fmt.Fprintf(&out, "%d %% comment\f %d\r%%%% not at column 0? %d\n", i, 50+i, 60+i)
			}
		case 0, 1:
			g := &g3{rng: rng, feat: map[string]bool{}, maxD: 2}
			txt := ref.RenderTokens(g.body(0, 0))
			if strings.Contains(txt, "stop") {
				// `stop` ends the whole program; the hand-made plaintext run
				// cannot tell it from the normal end of P
				txt = "1 2 add"
			}
			out.WriteString(txt)
			out.WriteString("\n")
		case 2:
			out.WriteString(ref.RenderTokens(genDataProgram(c, env, full)))
			out.WriteString("\n")
		case 3, 4:
			// Type-1 style binary data pulled through the decrypting scanner
			k := rng.IntN(40)
			if rng.IntN(6) == 0 {
				k = 300 + rng.IntN(900)
			}
			data := make([]byte, k)
			for j := range data {
				switch rng.IntN(4) {
				case 0:
					data[j] = " \t\r\n%()<>{}[]/\\0aF\x00\x0c\x80\xff"[rng.IntN(22)]
				default:
					data[j] = byte(rng.IntN(256))
				}
			}
			fmt.Fprintf(&out, "/bin%d %d RD ", i, k)
			out.Write(data)
			out.WriteString(" def\n")
			hasBin = true
		case 5:
			if rng.IntN(4) == 0 {
				// the section pops the dictionary it was started with, defines something in
				// what is below, and pushes the system dictionary again
				fmt.Fprintf(&out, "end /inside%d %d def currentdict /alsoinside%d 1 put systemdict begin\n", i, i, i)
				break
			}
			if rng.IntN(3) == 0 {
				// non-tail recursion to within a few levels of the execution
				// stack limit, counting how far it got (the section itself must not
				// cost a level that the plaintext does not have)
				fmt.Fprintf(&out, "/cnt%d 0 def /rec%d { /cnt%d cnt%d 1 add def dup 0 eq { } { 1 sub rec%d 0 pop } ifelse } def %d rec%d pop\n", i, i, i, i, i, 90+rng.IntN(14), i)
				break
			}
			// extra dictionaries left open inside the section
			out.WriteString("3 dict begin /inner 1 def\n")
		}
	}
	return out.Bytes(), hasBin
}

var errDictStackFull = fmt.Errorf("dictstackoverflow: no room for the system dictionary")

// probeDictStackLimit returns the dictionary-stack depth at which begin
// refuses to push (found by running the library, not a pinned constant).
func probeDictStackLimit() int {
	intp := postscript.NewInterpreter()
	intp.MaxOps = 100000
	intp.ExecuteString("{ 1 dict begin } loop")
	return len(intp.DictStack)
}

var dictStackLimit int

func runC05(r *rt.Runner) {
	env := newPSEnv()
	dictStackLimit = probeDictStackLimit()
	full, _ := c02Pool()
	bm := newPairBitmap()
	// the first line of the plaintext: the four random bytes in front of it are
	// not part of the text, so what the scanner knows about its position (column,
	// "a CR was the last byte") at the first plaintext byte must not depend on
	// what they decrypt to. Observable: a structured comment on the first line
	// is recorded exactly when the plaintext run records it. Every value of the
	// fourth random byte (as plaintext), five ways of beginning the text, six
	// gaps behind `eexec`, binary and hexadecimal.
	for hi := 0; hi < 16; hi++ {
		hi := hi
		r.Case(fmt.Sprintf("first-line/%X", hi), func(c *rt.C) {
			rng := c.Rand()
			for lo := 0; lo < 16; lo++ {
				b4 := byte(hi<<4 | lo)
				for _, lead := range []string{"", "\n", "\r", "\r\n", " ", "\t\n"} {
					plain := []byte(lead + "%%First: yes\n/x 1 def\n%%Second: two\n/y 2 def\n")
					// the plaintext run
					i2 := postscript.NewInterpreter()
					i2.MaxOps = 10000
					i2.DictStack = append(i2.DictStack, i2.SystemDict)
					err2 := i2.Execute(bytes.NewReader(plain))
					for _, gap := range []string{" ", "\n", "\t", "\r", "\r\n", " \n "} {
						for _, binary := range []bool{true, false} {
							var cipher []byte
							for {
								prefix := []byte{byte(rng.IntN(256)), byte(rng.IntN(256)), byte(rng.IntN(256)), b4}
								cipher = ref.Encrypt(append(prefix, plain...), ref.EexecKey, nil)
								if !binary || ref.LegalBinaryStart(cipher) {
									break
								}
							}
							var file bytes.Buffer
							file.WriteString("%!\n/q 0 def\ncurrentfile eexec" + gap)
							if binary {
								file.Write(cipher)
							} else {
								fmt.Fprintf(&file, "%x", cipher)
							}
							i1 := postscript.NewInterpreter()
							i1.MaxOps = 10000
							err1 := i1.Execute(bytes.NewReader(file.Bytes()))
							c.Eval()
							c.Count("first-line sections")
							if fmt.Sprint(err1) != fmt.Sprint(err2) || fmt.Sprint(i1.DSC) != fmt.Sprint(i2.DSC) {
								c.Violation(fmt.Sprintf("first-line|%q", lead),
									fmt.Sprintf("plaintext %q behind `eexec`+%q, %s, fourth random byte 0x%02x: the encrypted run records the structured comments %v (err %v), the plaintext run %v (err %v)",
										plain, gap, map[bool]string{true: "binary", false: "hexadecimal"}[binary], b4, i1.DSC, err1, i2.DSC, err2), fmt.Sprintf("file: %q", file.Bytes()))
							}
						}
					}
				}
			}
			c.Nontrivial([]byte(fmt.Sprintf("first-line|%d", hi)), nil)
		})
	}
	nCases := r.N(40000, 2000000)
	for k := 0; k < nCases; k++ {
		r.Case("section", func(c *rt.C) {
			rng := c.Rand()
			// clear-text prefix A
			var A bytes.Buffer
			if rng.IntN(2) == 0 {
				A.WriteString("%!PS-AdobeFont-1.0: Test 001.001\n")
			}
			if rng.IntN(2) == 0 {
				A.WriteString("/before 1 def 5 dict begin /x (clear) def\n")
			}
			if rng.IntN(4) == 0 {
				g := &g3{rng: rng, feat: map[string]bool{}, maxD: 2}
				if txt := ref.RenderTokens(g.body(0, 0)); !strings.Contains(txt, "stop") {
					A.WriteString(txt + "\n")
				}
			}
			if rng.IntN(10) == 0 {
				A.WriteString("systemdict begin\n") // the system dictionary is already the current dictionary
			}
			deepStack := false
			if rng.IntN(8) == 0 {
				deepStack = true
				// many dictionaries already open when the section starts: up to the
				// last free slot of the dictionary stack (and the full stack)
				k := []int{14, 15, 16, 17, 18}[rng.IntN(5)]
				fmt.Fprintf(&A, "%d { 1 dict begin } repeat\n", k)
				c.Count("sections started on a deep dictionary stack")
			}
			P, hasBin := genEexecPlain(c, env, full)
			closes := rng.IntN(10) > 0
			plain := append([]byte(nil), P...)
			if closes {
				plain = append(plain, "currentfile closefile"...)
				// exactly one white-space byte belongs to the section after closefile
				plain = append(plain, []string{"\n", " ", "\r", "\t"}[rng.IntN(4)]...)
			}
			lay := layoutSection(rng, plain, bm, rng.IntN(4) == 0)
			// trailer
			var T []byte
			if closes {
				switch rng.IntN(5) {
				case 0:
					for i := 0; i < 8; i++ {
						T = append(T, bytes.Repeat([]byte{'0'}, 64)...)
						T = append(T, '\n')
					}
					T = append(T, "cleartomark\n"...)
					if !bytes.Contains(P, []byte("mark ")) {
						T = append([]byte("\n"), T...)
					}
				case 3:
					// the clear text begins with a structured comment, directly behind the
					// section (its first byte is in column 0: the delimiter that ended the
					// section was a line end)
					T = []byte("%%Trailer: yes\n/after 3 def\n")
				case 1:
					T = []byte("\n/after 2 def 1 2 add\n")
				case 2:
					T = []byte(" /after (t) def\n")
				}
			}
			// optionally a second encrypted section in the trailer (the cipher
			// starts afresh for every section)
			var P2plain, T2 []byte
			var lay2 eexecLayout
			second := closes && rng.IntN(5) == 0
			if second {
				if len(T) > 0 && T[0] == '0' {
					T = []byte("\n/after 2 def\n")
				}
				P2, _ := genEexecPlain(c, env, full)
				P2plain = append(append([]byte(nil), P2...), "currentfile closefile\n"...)
				lay2 = layoutSection(rng, P2plain, bm, false)
				T2 = []byte("\n/end2 3 def\n")
				c.Count("files with two encrypted sections")
			}
			gap := []string{" ", "\n", "\r\n", "  \t\n", "\r", " \n \n"}[rng.IntN(6)]
			var file bytes.Buffer
			file.Write(A.Bytes())
			file.WriteString("currentfile eexec" + gap)
			file.Write(lay.text)
			if closes && !lay.binary && len(T) > 0 && T[0] != '\n' && T[0] != ' ' {
				file.WriteByte('\n')
			}
			file.Write(T)
			if second {
				file.WriteString("\ncurrentfile eexec\n")
				file.Write(lay2.text)
				file.Write(T2)
			}
			c.SetDetail(func() string {
				return fmt.Sprintf("layout: %s\nclear prefix: %q\nplaintext: %q\ntrailer: %q\nfile: %q", lay.desc, A.Bytes(), plain, T, file.Bytes())
			})

			// run 1: the encrypted file
			i1 := postscript.NewInterpreter()
			i1.MaxOps = 2_000_000
			// run 2: the plaintext, by hand
			i2 := postscript.NewInterpreter()
			i2.MaxOps = 2_000_000
			deepHistory := false
			if !deepStack && rng.IntN(6) == 0 {
				deepHistory = true
				// both interpreters have a history: an earlier Execute call whose
				// encrypted section ended by an error (the section is not closed
				// regularly; the system dictionary stays where it was pushed)
				hp := []string{"/h1 1 def nosuchname /h2 2 def", "/h1 1 def 1 (a) add", "/h1 { 1 } def h1 pop ) "}[rng.IntN(3)]
				hl := layoutSection(rng, []byte(hp+" "), bm, false)
				i1.Execute(bytes.NewReader(append([]byte("currentfile eexec\n"), hl.text...)))
				i2.DictStack = append(i2.DictStack, i2.SystemDict)
				i2.Execute(bytes.NewReader([]byte(hp + " ")))
				i1.Stack, i2.Stack = i1.Stack[:0], i2.Stack[:0]
				c.Count("sections run on an interpreter with an unfinished earlier section")
			}
			err1 := i1.Execute(bytes.NewReader(file.Bytes()))
			err2 := i2.Execute(bytes.NewReader(A.Bytes()))
			fullStack := false
			if err2 == nil {
				i2.Stack = append(i2.Stack, nil) // currentfile
				i2.Stack = i2.Stack[:len(i2.Stack)-1]
				k := len(i2.DictStack)
				fullStack = k >= dictStackLimit
				if fullStack {
					// no room for the system dictionary: pushing it is a
					// dictstackoverflow, as for begin
					err2 = errDictStackFull
					c.Count("sections started on a full dictionary stack")
				} else {
					i2.DictStack = append(i2.DictStack, i2.SystemDict)
					err2 = i2.Execute(bytes.NewReader(plain))
				}
				if err2 == io.EOF {
					err2 = nil // closefile at the top level of a separate call
				}
				if err2 == nil {
					i2.DictStack = i2.DictStack[:k]
					if len(T) > 0 {
						err2 = i2.Execute(bytes.NewReader(T))
					}
					if second && err2 == nil {
						k2 := len(i2.DictStack)
						i2.DictStack = append(i2.DictStack, i2.SystemDict)
						err2 = i2.Execute(bytes.NewReader(P2plain))
						if err2 == io.EOF {
							err2 = nil
						}
						if err2 == nil {
							i2.DictStack = i2.DictStack[:k2]
							err2 = i2.Execute(bytes.NewReader(T2))
						}
					}
				}
			}
			c.Count(map[bool]string{true: "binary sections", false: "hex sections"}[lay.binary])
			if hasBin {
				c.Count("sections with binary readstring data")
			}
			if closes {
				c.Count("sections ended by closefile")
			}
			if lay.binary && lay.text[0] < 32 {
				c.Count("binary sections starting with a control byte")
			}
			if err1 == postscript.ErrExecutionLimitExceeded || err2 == postscript.ErrExecutionLimitExceeded {
				// the two runs count a few operations differently (eexec itself),
				// so a non-terminating plaintext is cut at different points
				c.Skip("plaintext does not terminate within the budget")
				return
			}
			if (err1 == nil) != (err2 == nil) || (err1 != nil && errName(err1) != errName(err2)) {
				c.Violation("section|error", fmt.Sprintf("encrypted run returned %v, plaintext run returned %v (%s)", err1, err2, lay.desc), "")
				return
			}
			if err1 != nil {
				c.Count("sections whose plaintext fails (same error both ways)")
			}
			if fullStack {
				// whether the refused eexec leaves its file operand on the
				// stack is not part of the property: only the error is compared
				c.Nontrivial(file.Bytes(), func() string { return "section on a full dictionary stack: " + errName(err1) })
				return
			}
			// NumOps differs legitimately (eexec itself, currentfile); DSC lists
			// are equal because no DSC lines are generated inside sections
			// (the list of structured comments is handed over by Execute only when a
			// call returns nil, which the hand-fed run's closefile call does not: the
			// lists are not compared, the tokens behind a comment's form feed are)
			tAtCol0 := !bytes.HasPrefix(T, []byte("%%")) || !lay.binary || (len(plain) > 0 && (plain[len(plain)-1] == '\n' || plain[len(plain)-1] == '\r'))
			if bytes.Contains(plain, []byte("%%")) || bytes.Contains(P2plain, []byte("%%")) || err1 != nil || deepHistory || !tAtCol0 {
				i1.DSC, i2.DSC = nil, nil
			} else {
				c.Count("sections whose structured comments (clear text only) are compared")
			}
			d1 := libStateDigest(env.bt, i1)
			d2 := libStateDigest(env.bt, i2)
			if d1 != d2 {
				c.Violation("section|state", fmt.Sprintf("state after the encrypted run differs from the plaintext run (%s) %s", lay.desc, firstDiff(d1, d2)), "")
			}
			c.Nontrivial(file.Bytes(), func() string {
				return fmt.Sprintf("%s; %d plaintext bytes; closes=%t; err=%v", lay.desc, len(plain), closes, err1)
			})
		})
	}
	r.Max("cipher (state,byte) pairs visited by one shard (of 16777216)", bm.count)
}
