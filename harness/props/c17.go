package props

// C17 — Output and results are deterministic.
//
// Repeated-execution monitor: every writer is run repeatedly on the same
// value and every reader on the same bytes inside one process (Go randomises
// map iteration per range statement), and the same digests are recomputed in
// fresh child processes (new hash seeds). The harness iterates only over
// sorted keys, so a difference can only come from the library.

import (
	"bufio"
	"bytes"
	"crypto/sha256"
	"fmt"
	"io"
	"math"
	"math/rand/v2"
	"os"
	"os/exec"
	"path/filepath"
	"sort"
	"strings"
	"sync"
	"time"

	"seehuhn.de/go/postscript"
	"seehuhn.de/go/postscript/afm"
	"seehuhn.de/go/postscript/type1"

	"verif/harness/mon"
	"verif/harness/ref"
	"verif/harness/rt"
)

func init() { register("C17", runC17) }

func sha(b []byte) string { return fmt.Sprintf("%x", sha256.Sum256(b))[:24] }

// fontDigest is a complete canonical dump of a font value.
func fontDigest(f *type1.Font) string {
	if f == nil {
		return "nil"
	}
	var sb strings.Builder
	fmt.Fprintf(&sb, "%+v|%+v|%q|%v|", *f.FontInfo, *f.Private, f.Encoding, f.CreationDate.UTC())
	for _, n := range sortedGlyphNames(f) {
		g := f.Glyphs[n]
		fmt.Fprintf(&sb, "%q:%v:%v:%v:%v:%v;", n, g.WidthX, g.WidthY, g.HStem, g.VStem, g.Cmds)
	}
	return sha([]byte(sb.String()))
}

func metricsDigest(m *afm.Metrics) string {
	if m == nil {
		return "nil"
	}
	var sb strings.Builder
	fmt.Fprintf(&sb, "%q|%q|%q|%q|%v|%v|%v|%v|%v|%v|%v|%v|%q|", m.FontName, m.FullName, m.Version, m.Notice, m.CapHeight, m.XHeight, m.Ascent, m.Descent,
		m.UnderlinePosition, m.UnderlineThickness, m.ItalicAngle, m.IsFixedPitch, m.Encoding)
	for _, n := range sortedMetricNames(m) {
		g := m.Glyphs[n]
		keys := make([]string, 0, len(g.Ligatures))
		for k := range g.Ligatures {
			keys = append(keys, k)
		}
		sort.Strings(keys)
		fmt.Fprintf(&sb, "%q:%v:%v:", n, g.WidthX, g.BBox)
		for _, k := range keys {
			fmt.Fprintf(&sb, "%q>%q,", k, g.Ligatures[k])
		}
		sb.WriteByte(';')
	}
	for _, k := range m.Kern {
		fmt.Fprintf(&sb, "%q,%q,%d;", k.Left, k.Right, k.Adjust)
	}
	return sha([]byte(sb.String()))
}

type c17Value struct {
	font    *type1.Font
	seacPFA []byte // hand-made font file with (nested) seac composites, for the reader
	metrics *afm.Metrics
	cmap    []byte
	// programs whose result shows the order in which forall enumerates a dictionary
	orderProg string
	orderCMap []byte
	// an AFM text in which several glyph names claim the same character code
	dupAFM []byte
	// an AFM text whose glyph boxes are degenerate or inverted (finite numbers all
	// the same): the font box written for it must not depend on the order in which
	// the glyphs are visited
	oddBoxAFM []byte
	// font files whose charstrings are broken in the ways for which the reader has
	// fixed error values (the error text is part of the result), and a font whose
	// glyph names are not writable (or collide once made writable)
	brokenFonts [][]byte
	oddNames    *type1.Font
	// font files that register more than one entry in the font directory
	multiFont [][]byte
	// fonts whose coordinates include -0 and NaN (a charstring may say
	// `0 -5 div` or `0 0 div`): min/max over such numbers depends on the order
	// in which they are met, so a font box computed by ranging over the glyph
	// map differs from call to call
	oddNumFile []byte
	oddNumFont *type1.Font
	// a font file whose accented composites refer to each other in a cycle
	// (A = B + acute, B = A + grave): whatever the reader makes of it, it has to
	// be the same every time
	cyclicSeac []byte
	// histFont is a different font that some child processes write BEFORE they
	// compute the digests: its numbers lie within 4e-7 of numbers of font, on the
	// other side of a point where the best quotient p/q (q <= 107) changes
	histFont *type1.Font
}

// fareyMidpoint returns the midpoint between the two neighbours of t among the
// fractions with denominators up to 107: the point where the nearest such
// fraction changes.
func fareyMidpoint(t float64) float64 {
	lo, hi := 0.0, 1.0
	for q := 1; q <= 107; q++ {
		if a := math.Floor(t*float64(q)) / float64(q); a > lo && a <= t {
			lo = a
		}
		if b := math.Ceil(t*float64(q)) / float64(q); b < hi && b >= t && b > lo {
			hi = b
		}
	}
	return (lo + hi) / 2
}

func genC17Value(c *rt.C, quick bool) c17Value {
	rng := c.Rand()
	var v c17Value
	o := &fontOpts{maxGlyphs: 150, fractional: true, hostileStr: true}
	if !quick {
		o.maxGlyphs = 500
	}
	v.font = genFont(rng, o)
	for len(v.font.Glyphs) < 50 {
		v.font.Glyphs[fmt.Sprintf("extra%d", len(v.font.Glyphs))] = genGlyph(rng, o)
	}
	v.histFont = &type1.Font{FontInfo: &type1.FontInfo{FontName: "History", FontMatrix: v.font.FontMatrix}, Private: &type1.PrivateDict{BlueScale: 0.039625, BlueShift: 7, BlueFuzz: 1},
		Glyphs: map[string]*type1.Glyph{".notdef": {WidthX: 500}}}
	for i := 0; i < 12; i++ {
		base := float64(rng.IntN(2001) - 1000)
		m := fareyMidpoint(0.02 + 0.96*rng.Float64())
		gf, gh := &type1.Glyph{WidthX: 600}, &type1.Glyph{WidthX: 600}
		gf.MoveTo(base+m+2e-7, 0)
		gf.LineTo(base+m+2e-7+10, 10+m+2e-7)
		gf.ClosePath()
		gh.MoveTo(base+m-2e-7, 0)
		gh.LineTo(base+m-2e-7+10, 10+m-2e-7)
		gh.ClosePath()
		v.font.Glyphs[fmt.Sprintf("straddle%d", i)] = gf
		v.histFont.Glyphs[fmt.Sprintf("straddle%d", i)] = gh
	}
	ao := &afmOpts{representable: true}
	v.metrics = genMetrics(rng, ao, 120)
	// several ligatures per glyph, on many glyphs
	names := sortedMetricNames(v.metrics)
	for i, n := range names {
		if i%2 == 0 {
			g := v.metrics.Glyphs[n]
			g.Ligatures = map[string]string{}
			for j := 0; j < 3+rng.IntN(5); j++ {
				g.Ligatures[names[rng.IntN(len(names))]] = names[rng.IntN(len(names))]
			}
		}
	}
	// a CMap file defining 2-6 CMaps with shuffled names; some registered under
	// a key that differs from /CMapName, some without /CMapName, some sharing one
	nm := 2 + rng.IntN(5)
	var maps []*ref.MCMap
	mode := rng.IntN(4)
	for i := 0; i < nm; i++ {
		m := ref.GenCMap(rng, fmt.Sprintf("Map%03d", rng.IntN(1000)))
		if len(m.Blocks) > 4 {
			m.Blocks = m.Blocks[:4]
		}
		switch mode {
		case 1:
			m.ResKey = fmt.Sprintf("Key%03d", rng.IntN(1000))
		case 2:
			m.ResKey = fmt.Sprintf("Key%03d-%d", rng.IntN(1000), i)
			m.OmitName = true
		case 3:
			m.ResKey = fmt.Sprintf("Key%03d-%d", rng.IntN(1000), i)
			m.Name = "SharedName"
		}
		maps = append(maps, m)
	}
	if rng.IntN(3) == 0 {
		// a sloppy file: the CMap is built directly in the CIDInit dictionary
		maps = maps[:1]
		maps[0].NoDict = true
		if mode >= 2 {
			maps[0].OmitName, maps[0].ResKey = false, ""
		}
	}
	v.cmap = ref.RenderFile(rng, maps)
	// dictionary enumeration: the PLRM leaves the order open, but it has to be
	// the same every time
	var db strings.Builder
	db.WriteString("<< ")
	for i, n := 0, 2+rng.IntN(12); i < n; i++ {
		fmt.Fprintf(&db, "/%s%d %d ", []string{"K", "a", "Zz", "k"}[rng.IntN(4)], rng.IntN(1000), i)
	}
	db.WriteString(">> ")
	v.orderProg = db.String() + []string{"{ } forall", "{ pop } forall", "{ exch pop } forall", "{ pop exit } forall", "{ exch pop dup 3 eq { exit } if } forall"}[rng.IntN(5)]
	v.orderCMap = []byte("%!PS-Adobe-3.0 Resource-CMap\n/CIDInit /ProcSet findresource begin 12 dict begin begincmap\n/CMapName " + db.String() +
		"{ pop exit } forall def\n/WMode " + db.String() + "{ exch pop exit } forall def\n1 begincodespacerange <00> <ff> endcodespacerange endcmap\nCMapName currentdict /CMap defineresource pop end end\n")
	var ab strings.Builder
	ab.WriteString("StartFontMetrics 4.1\nFontName Dup\nStartCharMetrics 40\n")
	for i := 0; i < 40; i++ {
		fmt.Fprintf(&ab, "C %d ; WX %d ; N %s%d ; B 0 0 %d 700 ;\n", 32+rng.IntN(8), 200+i, []string{"g", "space", "nb", "A"}[rng.IntN(4)], i, 100+i)
	}
	ab.WriteString("EndCharMetrics\nEndFontMetrics\n")
	v.dupAFM = []byte(ab.String())
	ab.Reset()
	ab.WriteString("StartFontMetrics 4.1\nFontName OddBoxes\nStartCharMetrics 12\n")
	oddSets := [][][4]int{
		{{5, 0, 0, 0}, {0, 0, -3, 0}, {1, 1, 2, 2}, {3, 3, 4, 4}},
		{{0, 0, -5, 0}, {0, 0, 0, -5}, {1, 1, 2, 2}},
		{{2, 0, 0, 0}, {0, 3, 0, 0}, {0, 0, -4, 0}, {0, 0, 0, -1}, {7, 7, 9, 9}, {-9, -9, -8, -8}},
	}
	odd := oddSets[rng.IntN(len(oddSets))]
	for i := 0; i < 12; i++ {
		b := odd[i%len(odd)]
		if i >= len(odd) {
			// more boxes with zeros in them (a union that passes through the all-zero box is the point)
			b = [4]int{(rng.IntN(3) - 1) * rng.IntN(6), (rng.IntN(3) - 1) * rng.IntN(6), (rng.IntN(3) - 1) * rng.IntN(6), (rng.IntN(3) - 1) * rng.IntN(6)}
			if i%3 != 0 {
				b = [4]int{0, 0, 0, 0}
			}
		}
		fmt.Fprintf(&ab, "C %d ; WX %d ; N g%d ; B %d %d %d %d ;\n", 65+i, 500+i, i, b[0], b[1], b[2], b[3])
	}
	ab.WriteString("EndCharMetrics\nEndFontMetrics\n")
	v.oddBoxAFM = []byte(ab.String())
	// font files which register a second entry in the font directory: a
	// re-encoded copy under the same /FontName, a copy with another /FontName,
	// and the same dictionary under a second key. Whatever the reader makes of
	// such a file (a font or an error), it has to be the same every time.
	{
		var plain bytes.Buffer
		small := genFont(rng, &fontOpts{maxGlyphs: 12})
		small.FontInfo.FontName = "Multi"
		if err := small.Write(&plain, &type1.WriterOptions{Format: type1.FormatNoEExec}); err == nil {
			for _, tail := range []string{
				"/Second /Multi findfont dup length dict copy dup /Encoding [ 256 { /.notdef } repeat ] put definefont pop\n",
				"/Second /Multi findfont dup length dict copy dup /FontName /Other put definefont pop\n",
				"/Alias /Multi findfont definefont pop\n",
				"/Second /Multi findfont dup length dict copy dup /FontMatrix [ 1 0 0 1 0 0 ] put definefont pop /Third /Multi findfont dup length dict copy dup /PaintType 2 put definefont pop\n",
			} {
				v.multiFont = append(v.multiFont, append(append([]byte(nil), plain.Bytes()...), tail...))
			}
		}
	}
	for _, raw := range [][]byte{
		{139, 139 + 50, 13, 255, 0, 0},                   // a number cut short
		{139, 139 + 50, 13, 139 + 1, 5, 14},              // rlineto with one operand
		append(bytes.Repeat([]byte{139 + 1}, 30), 5, 14), // more operands than the stack holds
	} {
		bw := &ref.WFont{FontName: "Broken", Info: map[string]string{}, Private: map[string]string{}, StdEncoding: true,
			Glyphs: []*ref.WGlyph{{Name: ".notdef", Den: 1, WX: 500}, {Name: "A", Den: 1, Raw: raw}, {Name: "B", Den: 1, Raw: raw}}}
		v.brokenFonts = append(v.brokenFonts, ref.RenderType1(rng, bw, &ref.WLayout{Container: "plain", LenIV: 4}))
	}
	{
		n := func(v int) byte { return byte(139 + v) }
		w300 := []byte{247, 192}
		glyphs := []*ref.WGlyph{{Name: ".notdef", Den: 1, WX: 500},
			// sbx = -0, first point (-0, 5)
			{Name: "A", Den: 1, Raw: append(append([]byte{n(0), n(-5), 12, 12}, w300...), 13, n(0), n(-5), 12, 12, n(5), 21, n(10), n(5), 5, 9, 14)},
			// the same outline starting at (+0, 5)
			{Name: "B", Den: 1, Raw: append(append([]byte{n(0)}, w300...), 13, n(0), n(5), 21, n(10), n(5), 5, 9, 14)},
			// first point (NaN, 300)
			{Name: "C", Den: 1, Raw: append(append(append([]byte{n(0)}, w300...), 13, n(0), n(0), 12, 12), append(append([]byte(nil), w300...), 21, n(50), 6, n(40), 7, 9, 14)...)},
			{Name: "D", Den: 1, Raw: append(append([]byte{n(20)}, w300...), 13, n(0), n(100), 21, n(30), n(20), 5, 9, 14)},
		}
		bw := &ref.WFont{FontName: "OddNumbers", Info: map[string]string{}, Private: map[string]string{}, StdEncoding: true, Glyphs: glyphs}
		v.oddNumFile = ref.RenderType1(rng, bw, &ref.WLayout{Container: "plain", LenIV: 4})
		seac := func(b, a int) []byte {
			enc := func(v int) []byte {
				if v <= 107 {
					return []byte{byte(139 + v)}
				}
				return []byte{247, byte(v - 108)}
			}
			raw := append([]byte{n(0)}, w300...)
			raw = append(raw, 13, n(0), n(10), n(20))
			raw = append(append(raw, enc(b)...), enc(a)...)
			return append(raw, 12, 6)
		}
		plainGlyph := func(dx int) []byte {
			return append(append([]byte{n(0)}, w300...), 13, n(dx), n(50), 21, n(30), n(20), 5, 9, 14)
		}
		cyc := &ref.WFont{FontName: "Cyclic", Info: map[string]string{}, Private: map[string]string{}, StdEncoding: true, Glyphs: []*ref.WGlyph{
			{Name: ".notdef", Den: 1, WX: 500},
			{Name: "A", Den: 1, Raw: seac(66, 194)}, {Name: "B", Den: 1, Raw: seac(65, 193)},
			{Name: "C", Den: 1, Raw: seac(68, 194)}, {Name: "D", Den: 1, Raw: seac(69, 193)}, {Name: "E", Den: 1, Raw: seac(67, 194)},
			{Name: "F", Den: 1, Raw: seac(70, 193)}, {Name: "G", Den: 1, Raw: seac(65, 194)},
			{Name: "acute", Den: 1, Raw: plainGlyph(7)}, {Name: "grave", Den: 1, Raw: plainGlyph(-9)},
		}}
		v.cyclicSeac = ref.RenderType1(rng, cyc, &ref.WLayout{Container: "plain", LenIV: 4})
		v.oddNumFont = genFont(rng, &fontOpts{maxGlyphs: 3})
		negZero := math.Copysign(0, -1)
		for i, x0 := range []float64{negZero, 0, negZero, 0, math.NaN()} {
			g := &type1.Glyph{WidthX: float64(400 + i)}
			g.MoveTo(x0, 5)
			g.LineTo(10, 10+float64(i%2)*negZero)
			g.ClosePath()
			v.oddNumFont.Glyphs[fmt.Sprintf("odd%d", i)] = g
		}
	}
	v.oddNames = genFont(rng, &fontOpts{maxGlyphs: 4})
	for i, n := range []string{"f i", "f_i", "f(i", "f\ti"} {
		g := &type1.Glyph{WidthX: float64(500 + i)}
		g.MoveTo(float64(10*i), 0)
		g.LineTo(float64(100+i), float64(200+7*i))
		g.ClosePath()
		v.oddNames.Glyphs[n] = g
	}
	// a font file with seac composites, including a composite of a composite
	mf := genModelFontOpt(rng, true)
	mf.lay.Container = "pfa"
	v.seacPFA = ref.RenderType1(rng, mf.w, mf.lay)
	return v
}

// c17Digests computes one line per observable.
func c17Digests(v c17Value) []string {
	var out []string
	var pfa []byte
	for _, fm := range allFormats {
		var buf bytes.Buffer
		err := v.font.Write(&buf, &type1.WriterOptions{Format: fm.f})
		out = append(out, fmt.Sprintf("Font.Write/%s %s err=%v", fm.name, sha(buf.Bytes()), err))
		if fm.name == "PFA" {
			pfa = buf.Bytes()
		}
	}
	var buf bytes.Buffer
	l1, l2, err := v.font.WritePDF(&buf)
	out = append(out, fmt.Sprintf("Font.WritePDF %s %d %d err=%v", sha(buf.Bytes()), l1, l2, err))
	f2, err := type1.Read(bytes.NewReader(pfa))
	out = append(out, fmt.Sprintf("type1.Read %s err=%v", fontDigest(f2), err))
	if f2 != nil {
		out = append(out, fmt.Sprintf("Font.GlyphList %s", sha([]byte(strings.Join(f2.GlyphList(), "\x00")))))
	}
	f3, err := type1.Read(bytes.NewReader(v.seacPFA))
	out = append(out, fmt.Sprintf("type1.Read/seac %s err=%v", fontDigest(f3), err))
	for i, bf := range v.brokenFonts {
		_, err := type1.Read(bytes.NewReader(bf))
		out = append(out, fmt.Sprintf("type1.Read/broken-charstring-%d err=%v", i, err))
	}
	for _, fm := range allFormats {
		var ob bytes.Buffer
		var werr error
		func() {
			defer func() {
				if p := recover(); p != nil {
					werr = fmt.Errorf("panic: %v", p)
				}
			}()
			werr = v.oddNames.Write(&ob, &type1.WriterOptions{Format: fm.f})
		}()
		out = append(out, fmt.Sprintf("Font.Write/odd-names/%s %s err=%v", fm.name, sha(ob.Bytes()), werr))
	}
	for i, mfile := range v.multiFont {
		f4, err := type1.Read(bytes.NewReader(mfile))
		out = append(out, fmt.Sprintf("type1.Read/several-fonts-%d %s err=%v", i, fontDigest(f4), err))
	}
	{
		f5, err := type1.Read(bytes.NewReader(v.oddNumFile))
		line := fmt.Sprintf("type1.Read/odd-numbers err=%v", err)
		for _, f := range []*type1.Font{f5, v.oddNumFont} {
			if f == nil {
				continue
			}
			// sixteen calls: with two candidates for a corner and a random visiting
			// order, one call alone is right half of the time
			for k := 0; k < 16; k++ {
				line += fmt.Sprintf(" %v %v", f.FontBBox(), f.FontBBoxPDF())
			}
		}
		out = append(out, "FontBBox/odd-numbers "+sha([]byte(line))+" "+head([]byte(line), 200))
	}
	{
		// error texts are results too: operands that hold a code map object (a
		// pointer inside the library) are handed to the CMap operators and to
		// operators that report their operand, and the messages are compared
		prefix := "/CIDInit /ProcSet findresource begin 12 dict begin begincmap /CMapName /Base def 1 begincodespacerange <00> <ff> endcodespacerange endcmap CMapName currentdict /CMap defineresource pop end end /CM /Base /CMap findresource /CodeMap get def /CIDInit /ProcSet findresource begin 12 dict begin begincmap "
		var sb strings.Builder
		for _, op := range []string{"usecmap", "1 begincidrange", "endcidrange", "endbfchar", "endbfrange", "endcidchar", "endnotdefrange", "endnotdefchar", "endcodespacerange", "endcmap",
			"load", "begin", "get", "put", "def", "known", "where", "length", "copy", "forall", "eq", "exec", "bind", "definefont", "defineresource", "findresource", "findfont", "cvx", "type", "index", "roll", "add", "string", "array", "dict", "repeat", "for", "if", "ifelse", "readstring", "eexec", "closefile"} {
			for _, operand := range []string{"[ CM ]", "CM", "<< /k CM >>", "[ [ CM ] ]", "1 [ CM ]", "[ CM ] 1", "<00> [ CM ]", "/n [ CM ]"} {
				intp := postscript.NewInterpreter()
				intp.MaxOps = 5000
				err := intp.ExecuteString(prefix + operand + " " + op)
				fmt.Fprintf(&sb, "%v\n", err)
			}
		}
		out = append(out, "error-texts/code-map-operands "+sha([]byte(sb.String())))
	}
	{
		line := "type1.Read/cyclic-composites"
		for k := 0; k < 8; k++ {
			f6, err := type1.Read(bytes.NewReader(v.cyclicSeac))
			line += fmt.Sprintf(" %s err=%v", fontDigest(f6), err)
		}
		out = append(out, line)
	}
	buf.Reset()
	err = v.metrics.Write(&buf)
	afmBytes := append([]byte(nil), buf.Bytes()...)
	out = append(out, fmt.Sprintf("Metrics.Write %s err=%v", sha(afmBytes), err))
	m2, err := afm.Read(bytes.NewReader(afmBytes))
	out = append(out, fmt.Sprintf("afm.Read %s err=%v", metricsDigest(m2), err))
	out = append(out, fmt.Sprintf("Metrics.GlyphList %s", sha([]byte(strings.Join(v.metrics.GlyphList(), "\x00")))))
	d, err := postscript.ReadCMap(bytes.NewReader(v.cmap))
	if err != nil {
		out = append(out, fmt.Sprintf("ReadCMap err=%v", err))
	} else {
		dg := newLibDigester(nil)
		dg.dict(d)
		out = append(out, fmt.Sprintf("ReadCMap name=%v %s", d["CMapName"], sha([]byte(dg.sb.String()))))
	}
	m3, err := afm.Read(bytes.NewReader(v.dupAFM))
	enc := ""
	if m3 != nil {
		enc = strings.Join(m3.Encoding, ",")
	}
	out = append(out, fmt.Sprintf("afm.Read/duplicate-codes %s %s err=%v", metricsDigest(m3), sha([]byte(enc)), err))
	if m4, err := afm.Read(bytes.NewReader(v.oddBoxAFM)); err != nil {
		out = append(out, fmt.Sprintf("afm/odd-boxes err=%v", err))
	} else {
		buf.Reset()
		werr := m4.Write(&buf)
		out = append(out, fmt.Sprintf("afm/odd-boxes Write %s FontBBoxPDF %v err=%v", sha(buf.Bytes()), m4.FontBBoxPDF(), werr))
	}
	intp := postscript.NewInterpreter()
	intp.MaxOps = 100000
	err = intp.ExecuteString(v.orderProg)
	dg := newLibDigester(nil)
	for _, o := range intp.Stack {
		dg.obj(o)
	}
	out = append(out, fmt.Sprintf("Execute/forall-over-dict %s err=%v", sha([]byte(dg.sb.String())), err))
	d, err = postscript.ReadCMap(bytes.NewReader(v.orderCMap))
	out = append(out, fmt.Sprintf("ReadCMap/forall-over-dict name=%v wmode=%v err=%v", d["CMapName"], d["WMode"], err))
	return out
}

// c17FailedWrites writes the font and the metrics to writers that fail.
func c17FailedWrites(v c17Value, rng *rand.Rand, round int) {
	type wr func(w io.Writer) error
	var ws []wr
	for _, fm := range allFormats {
		fm := fm
		ws = append(ws, func(w io.Writer) error { return v.font.Write(w, &type1.WriterOptions{Format: fm.f}) })
	}
	ws = append(ws, func(w io.Writer) error { _, _, err := v.font.WritePDF(w); return err })
	ws = append(ws, func(w io.Writer) error { return v.metrics.Write(w) })
	for _, f := range ws {
		cw := &mon.FaultWriter{FailCall: -1, FailByte: -1}
		f(cw)
		n := cw.Calls
		if n == 0 {
			continue
		}
		k := n - 1
		if round%2 == 1 {
			k = rng.IntN(n)
		}
		f(&mon.FaultWriter{FailCall: k, FailByte: -1, Sticky: round%3 == 0})
		if cw.Bytes > 0 {
			f(&mon.FaultWriter{FailCall: -1, FailByte: cw.Bytes - 1 - rng.IntN(min(cw.Bytes, 600)), Sticky: true})
		}
	}
}

// stallReader delivers its data in two halves and sleeps before the second one.
type stallReader struct {
	data  []byte
	off   int
	stall time.Duration
}

func (s *stallReader) Read(p []byte) (int, error) {
	if s.off >= len(s.data) {
		return 0, io.EOF
	}
	end := len(s.data)
	if s.off < len(s.data)/2 {
		end = len(s.data) / 2
	} else if s.stall > 0 {
		time.Sleep(s.stall)
		s.stall = 0
	}
	n := copy(p, s.data[s.off:end])
	s.off += n
	rt.Progress.Add(1)
	return n, nil
}

func runC17(r *rt.Runner) {
	emit := os.Getenv("VERIF_C17_EMIT") == "1"
	// (the cases in front of the "value" cases are registered in the child
	// processes too, where they do nothing: a child is told the sequence number
	// of the case it has to repeat)
	if !r.Quick() {
		// thorough tier only (it costs the stall in wall-clock time): a source that
		// stalls for a while in the middle of a file gives the same result as one
		// that does not - nothing observable depends on the wall clock
		for _, stall := range []time.Duration{1500 * time.Millisecond, 12 * time.Second} {
			stall := stall
			r.Case("stalled-source", func(c *rt.C) {
				if emit {
					return
				}
				v := genC17Value(c, true)
				var pfa bytes.Buffer
				v.font.Write(&pfa, &type1.WriterOptions{Format: type1.FormatPFA})
				f0, err0 := type1.Read(bytes.NewReader(pfa.Bytes()))
				f1, err1 := type1.Read(&stallReader{data: pfa.Bytes(), stall: stall})
				if fontDigest(f0) != fontDigest(f1) || fmt.Sprint(err0) != fmt.Sprint(err1) {
					c.Violation("stalled-source|type1.Read", fmt.Sprintf("reading the same bytes from a source that stalls for %v differs: %s / %v against %s / %v", stall, fontDigest(f1), err1, fontDigest(f0), err0), "")
				}
				d0, e0 := postscript.ReadCMap(bytes.NewReader(v.cmap))
				d1, e1 := postscript.ReadCMap(&stallReader{data: v.cmap, stall: stall})
				if fmt.Sprint(d0["CMapName"], e0) != fmt.Sprint(d1["CMapName"], e1) {
					c.Violation("stalled-source|ReadCMap", fmt.Sprintf("reading the same CMap bytes from a source that stalls for %v differs: %v / %v against %v / %v", stall, d1["CMapName"], e1, d0["CMapName"], e0), "")
				}
				c.Count("reads from a source that stalls")
				c.Nontrivial([]byte(fmt.Sprintf("stall|%v", stall)), func() string { return fmt.Sprintf("source stalling for %v", stall) })
			})
		}
	}
	{
		// font files dated relative to the moment of the run (just beyond a round
		// distance from now: a minute, an hour, a day, ... ahead or back), read
		// once at once and again 3.5 s later, when each date has moved to the
		// other side of that distance: nothing observable depends on the wall clock
		r.Case("clock-relative-dates", func(c *rt.C) {
			if emit {
				return
			}
			rng := c.Rand()
			base := genFont(rng, &fontOpts{maxGlyphs: 4})
			now := time.Now()
			var files [][]byte
			var deltas []time.Duration
			for _, d := range []time.Duration{0, time.Minute, time.Hour, 12 * time.Hour, 24 * time.Hour, 48 * time.Hour, 7 * 24 * time.Hour, 30 * 24 * time.Hour, 365 * 24 * time.Hour, 3653 * 24 * time.Hour} {
				for _, sign := range []time.Duration{1, -1} {
					base.CreationDate = now.Add(sign*d + 1750*time.Millisecond).UTC().Truncate(time.Second)
					var buf bytes.Buffer
					if err := base.Write(&buf, &type1.WriterOptions{Format: type1.FormatPFA}); err != nil {
						c.Inconclusive("cannot write the dated font: " + err.Error())
						return
					}
					files = append(files, buf.Bytes())
					deltas = append(deltas, sign*d)
				}
			}
			read := func() []string {
				var out []string
				for _, b := range files {
					f, err := type1.Read(bytes.NewReader(b))
					out = append(out, fmt.Sprintf("%s err=%v", fontDigest(f), err))
				}
				return out
			}
			first := read()
			if wait := 3500*time.Millisecond - time.Since(now); wait > 0 {
				time.Sleep(wait)
			}
			second := read()
			for i := range first {
				c.Eval()
				c.Count("dated font files read on both sides of a round distance from now")
				if first[i] != second[i] {
					c.Violation("clock|type1.Read", fmt.Sprintf("a font file dated %v from the time of the run reads differently 3.5 s later:\n  first:  %s\n  second: %s", deltas[i], first[i], second[i]), "")
				}
			}
			c.Nontrivial([]byte("clock-relative"), func() string { return fmt.Sprintf("%d files", len(files)) })
		})
	}
	nVals := r.N(96, 800)
	repeats := r.N(12, 30)
	children := r.N(4, 10)
	for k := 0; k < nVals; k++ {
		r.Case("value", func(c *rt.C) {
			rng := c.Rand()
			v := genC17Value(c, r.Quick())
			if emit && os.Getenv("VERIF_C17_HISTORY") == "1" {
				// this process has written another font before: nothing of that may
				// show in what it writes now
				for _, fm := range allFormats {
					v.histFont.Write(io.Discard, &type1.WriterOptions{Format: fm.f})
				}
				v.histFont.WritePDF(io.Discard)
			}
			ref0 := c17Digests(v)
			if emit {
				for _, l := range ref0 {
					fmt.Println("DIGEST " + l)
				}
				return
			}
			c.SetDetail(func() string {
				return fmt.Sprintf("font with %d glyphs, metrics with %d glyphs, CMap file %q", len(v.font.Glyphs), len(v.metrics.Glyphs), head(v.cmap, 1500))
			})
			// in-process repeats
			for i := 0; i < repeats; i++ {
				// writes that fail at some call (every other round: at the very
				// last one) must not influence what later writes produce
				c17FailedWrites(v, rng, i)
				got := c17Digests(v)
				c.Eval()
				for j := range ref0 {
					if j < len(got) && got[j] != ref0[j] {
						c.Violation("in-process|"+strings.Fields(ref0[j])[0], fmt.Sprintf("two invocations on the same input in one process differ:\n  first:  %s\n  repeat %d: %s", ref0[j], i+1, got[j]), "")
					}
				}
				c.Count("in-process repeats")
			}
			// overlapping invocations: the same digests computed by several
			// goroutines at once (the values are only read)
			{
				const G = 6
				res := make([][]string, G)
				var wg sync.WaitGroup
				for gi := 0; gi < G; gi++ {
					wg.Add(1)
					go func(gi int) {
						defer wg.Done()
						defer func() {
							if p := recover(); p != nil {
								res[gi] = []string{fmt.Sprintf("panic: %v", p)}
							}
						}()
						res[gi] = c17Digests(v)
					}(gi)
				}
				wg.Wait()
				for gi := 0; gi < G; gi++ {
					c.Eval()
					for j := range ref0 {
						if j >= len(res[gi]) || res[gi][j] != ref0[j] {
							got := "(missing)"
							if j < len(res[gi]) {
								got = res[gi][j]
							}
							c.Violation("overlapping|"+strings.Fields(ref0[j])[0], fmt.Sprintf("an invocation that overlaps with others on the same input differs from the one made alone:\n  alone:       %s\n  overlapping: %s", ref0[j], got), "")
							break
						}
					}
					c.Count("overlapping invocations compared")
				}
			}
			// fresh processes
			exe, err := os.Executable()
			if err != nil {
				c.Inconclusive("cannot locate the worker binary")
				return
			}
			for p := 0; p < children; p++ {
				logPath := filepath.Join(r.LogDir, fmt.Sprintf("c17-child-%d-%d.log", c.Seq, p))
				cmd := exec.Command(exe, "-prop", "C17", "-tier", r.Tier, "-seed", fmt.Sprint(r.Seed), "-only", fmt.Sprint(c.Seq), "-log", logPath, "-noprogress", "0")
				cmd.Env = append(os.Environ(), "VERIF_C17_EMIT=1")
				if p%2 == 1 {
					cmd.Env = append(cmd.Env, "VERIF_C17_HISTORY=1")
					c.Count("fresh child processes that wrote another font first")
				}
				outB, err := cmd.Output()
				os.Remove(logPath)
				os.Remove(logPath + ".hashes")
				if err != nil {
					c.Inconclusive(fmt.Sprintf("child process failed: %v", err))
					continue
				}
				var got []string
				sc := bufio.NewScanner(bytes.NewReader(outB))
				sc.Buffer(make([]byte, 1<<20), 1<<20)
				for sc.Scan() {
					if strings.HasPrefix(sc.Text(), "DIGEST ") {
						got = append(got, strings.TrimPrefix(sc.Text(), "DIGEST "))
					}
				}
				if len(got) != len(ref0) {
					c.Inconclusive("child printed an unexpected number of digests")
					continue
				}
				for j := range ref0 {
					if got[j] != ref0[j] {
						c.Violation("cross-process|"+strings.Fields(ref0[j])[0], fmt.Sprintf("the same input gives different results in two processes:\n  this process: %s\n  child %d:      %s", ref0[j], p, got[j]), "")
					}
				}
				c.Count("fresh child processes compared")
				rt.Progress.Add(1)
			}
			c.Runner().Count("digest lines per value", int64(len(ref0)))
			c.Nontrivial([]byte(strings.Join(ref0, "\n")), func() string { return strings.Join(ref0, " | ") })
		})
	}
}
