package props

// C20 — Charstring numbers are exact for integers and drift-free for fractions.
//
// Reference-model monitor with an independent decoder: fonts whose glyph paths
// sweep the value ranges are written by the library; the harness's own Type 1
// reader (ref.ReadType1: R0+R1+R2+R5) decodes the charstrings and reports the
// encoded form of every number. Checked: every integer token uses the form
// its range prescribes; the decoded glyph (absolute points, widths, stems)
// equals the requested one - exactly for all-integer glyphs, within 1/214 in
// absolute position otherwise; fractional operands appear as `p q div`. The
// same paths are read back with type1.Read and held to the same bound.

import (
	"bytes"
	"crypto/sha256"
	"encoding/binary"
	"fmt"
	"math"
	"math/rand/v2"
	"strings"

	"seehuhn.de/go/geom/matrix"
	"seehuhn.de/go/postscript/funit"
	"seehuhn.de/go/postscript/type1"

	"verif/harness/ref"
	"verif/harness/rt"
)

func init() { register("C20", runC20) }

const bound214 = 1.0/214 + 1e-9

func emptyFont() *type1.Font {
	return &type1.Font{
		FontInfo: &type1.FontInfo{FontName: "T", FontMatrix: matrix.Matrix{0.001, 0, 0, 0.001, 0, 0}},
		Private:  &type1.PrivateDict{BlueScale: 0.039625, BlueShift: 7, BlueFuzz: 1},
		Glyphs:   map[string]*type1.Glyph{".notdef": {}},
	}
}

// glyphForValue builds a glyph in which v is used as a delta in the given
// operand slot of a path command, as advance width or as stem value.
func glyphForValue(v float64, slot int) *type1.Glyph {
	g := &type1.Glyph{WidthX: 500}
	switch slot {
	case 0: // hmoveto / rmoveto dx
		g.MoveTo(v, 0)
		g.LineTo(v+1, 5)
		g.ClosePath()
	case 1: // vmoveto
		g.MoveTo(0, v)
		g.LineTo(3, v+7)
		g.ClosePath()
	case 2: // rmoveto both
		g.MoveTo(v, v)
		g.LineTo(v+2, v+9)
		g.ClosePath()
	case 3: // hlineto
		g.MoveTo(10, 20)
		g.LineTo(10+v, 20)
		g.ClosePath()
	case 4: // vlineto
		g.MoveTo(10, 20)
		g.LineTo(10, 20+v)
		g.ClosePath()
	case 5: // rlineto
		g.MoveTo(10, 20)
		g.LineTo(10+v, 20+v)
		g.ClosePath()
	case 6: // rrcurveto, all six slots
		g.MoveTo(1, 2)
		g.CurveTo(1+v, 2+v, 1+2*v, 2+2*v, 1+3*v, 2+3*v)
		g.ClosePath()
	case 7: // hvcurveto
		g.MoveTo(1, 2)
		g.CurveTo(1+v, 2, 1+2*v, 2+v, 1+2*v, 2+2*v)
		g.ClosePath()
	case 8: // vhcurveto
		g.MoveTo(1, 2)
		g.CurveTo(1, 2+v, 1+v, 2+2*v, 1+2*v, 2+2*v)
		g.ClosePath()
	case 9: // advance width (hsbw)
		g.WidthX = v
	case 10: // advance width (sbw), both components
		g.WidthX, g.WidthY = v, v
		if v == 0 {
			g.WidthY = 1
		}
	case 11: // stem position and width (16-bit hint fields)
		a := funit.Int16(v)
		g.HStem = []funit.Int16{a, a + 20}
		g.VStem = []funit.Int16{10, 10 + a}
	}
	return g
}

// checkWrittenFont writes f without eexec, reads it with the independent
// reader and compares every glyph with the request.
func checkWrittenFont(c *rt.C, f *type1.Font, stdEnc []string, format type1.FileFormat, fmtName string) {
	var buf bytes.Buffer
	if err := f.Write(&buf, &type1.WriterOptions{Format: format}); err != nil {
		c.Violation("write-error", fmt.Sprintf("Write(%s) failed: %v", fmtName, err), "")
		return
	}
	data := buf.Bytes()
	if format == type1.FormatPFB {
		p, _, err := ref.DeframePFB(data)
		if err != nil {
			c.Violation("independent-reader|"+fmtName, fmt.Sprintf("PFB framing: %v", err), "")
			return
		}
		data = p
	}
	mf, err := ref.ReadType1Sized(data, stdEnc, 1<<24)
	if err != nil {
		c.Violation("independent-reader|"+fmtName, fmt.Sprintf("the independent decoder cannot read the written font: %v", err), fmt.Sprintf("bytes (head): %q", head(data, 1200)))
		return
	}
	lib, lerr := type1.Read(bytes.NewReader(buf.Bytes()))
	for _, name := range sortedGlyphNames(f) {
		g := f.Glyphs[name]
		mg := mf.Glyphs[name]
		if mg == nil {
			c.Violation("glyph-missing", fmt.Sprintf("glyph %q is missing in the written font (%s)", name, fmtName), "")
			continue
		}
		c.Eval()
		c.Runner().Count("charstring tokens inspected", int64(len(mg.Tokens)))
		allInt := true
		for _, cmd := range g.Cmds {
			for _, a := range cmd.Args {
				if a != math.Trunc(a) {
					allInt = false
				}
			}
		}
		// (1) number forms; fractions as `p q div`
		for i, t := range mg.Tokens {
			if t.IsNum {
				c.Count(fmt.Sprintf("numbers in %d-byte form", t.Form))
				if !ref.ProperForm(t.Val, t.Form) {
					c.Violation(fmt.Sprintf("number-form|%d-byte", t.Form), fmt.Sprintf("glyph %q: the integer %d is written in the %d-byte form", name, t.Val, t.Form), fmt.Sprintf("charstring: % x", mg.Raw))
				}
			} else if t.Op == "div" {
				c.Count("div operators")
				if i < 2 || !mg.Tokens[i-1].IsNum || !mg.Tokens[i-2].IsNum || mg.Tokens[i-1].Val == 0 {
					c.Violation("div-shape", fmt.Sprintf("glyph %q: div is not preceded by two integer operands with a non-zero divisor", name), fmt.Sprintf("charstring: % x", mg.Raw))
				}
				if allInt {
					c.Violation("div-for-integer", fmt.Sprintf("glyph %q has only integer coordinates but its charstring uses div", name), fmt.Sprintf("charstring: % x", mg.Raw))
				}
			}
		}
		// (2) widths and stems
		if mg.WX != math.Round(g.WidthX) || mg.WY != math.Round(g.WidthY) {
			c.Violation("width", fmt.Sprintf("glyph %q: the charstring declares the width (%v,%v), requested (%v,%v)", name, mg.WX, mg.WY, g.WidthX, g.WidthY), fmt.Sprintf("charstring: % x", mg.Raw))
		}
		if !stemsMatch(g.HStem, mg.HStem) || !stemsMatch(g.VStem, mg.VStem) {
			c.Violation("stems", fmt.Sprintf("glyph %q: the charstring declares stems h=%v v=%v, requested h=%v v=%v", name, mg.HStem, mg.VStem, g.HStem, g.VStem), fmt.Sprintf("charstring: % x", mg.Raw))
		}
		// (3) the path in absolute coordinates
		if msg := comparePath(g.Cmds, mg.Cmds, allInt); msg != "" {
			c.Violation(pathFingerprint("path|independent-decoder", msg), fmt.Sprintf("glyph %q (%s): %s", name, fmtName, msg), fmt.Sprintf("charstring: % x", head2(mg.Raw, 600)))
		}
		// (4) the library's own reader, same bound
		if lerr == nil {
			if lg := lib.Glyphs[name]; lg != nil {
				var cmds []ref.MCmd
				for _, cmd := range lg.Cmds {
					cmds = append(cmds, ref.MCmd{Op: "?MLCZ"[cmd.Op], Args: cmd.Args})
				}
				if msg := comparePath(g.Cmds, cmds, allInt); msg != "" {
					c.Violation(pathFingerprint("path|type1.Read", msg), fmt.Sprintf("glyph %q (%s) read back by type1.Read: %s", name, fmtName, msg), "")
				}
			}
		}
	}
	if lerr != nil {
		longest := 0
		for _, mg := range mf.Glyphs {
			longest = max(longest, len(mg.Raw)+4)
		}
		if longest > 65535 {
			// the interpreter's (and the PLRM's) string limit: such a
			// charstring cannot be read back; C20 is about the numbers in it
			c.Count("library read skipped: charstring longer than 65535 bytes")
			return
		}
		c.Violation("read-error", fmt.Sprintf("type1.Read of the written font failed: %v", lerr), "")
	}
}

func stemsMatch(want []funit.Int16, got []float64) bool {
	n := len(want) &^ 1
	if len(got) != n {
		return false
	}
	for i := 0; i < n; i++ {
		// the independent decoder adds side bearing and relative position in
		// floating point (both may be quotients); 1e-9 is far below any real difference
		if math.Abs(float64(want[i])-got[i]) > 1e-9 {
			return false
		}
	}
	return true
}

// nearBoundMark prefixes comparePath's message for the one class of excess
// that is listed as a known finding.
const nearBoundMark = "[end point forced equal, excess below 1e-6] "

func pathFingerprint(base, msg string) string {
	if strings.HasPrefix(msg, nearBoundMark) {
		return base + "|curve-end-forced-equal-within-1e-6"
	}
	return base
}

func comparePath(want []type1.GlyphOp, got []ref.MCmd, exact bool) string {
	if len(want) != len(got) {
		return fmt.Sprintf("%d path commands decoded, %d requested", len(got), len(want))
	}
	for i, w := range want {
		g := got[i]
		if "?MLCZ"[w.Op] != g.Op || len(w.Args) != len(g.Args) {
			return fmt.Sprintf("command %d is %c%v, requested %v", i, g.Op, g.Args, w)
		}
		for j := range w.Args {
			d := math.Abs(w.Args[j] - g.Args[j])
			// Both sides add up thousands of float64 deltas; the worst-case
			// rounding error of that summation (half an ulp of the running
			// coordinate per addition, three additions per command on each
			// side) is allowed on top of the bound. For |x| < 10^6 and 10,000
			// segments this is below 1e-5, far below 1/214.
			fl := math.Max(math.Abs(w.Args[j]), 1) * 2.3e-16 * float64(6*(i+1))
			if (exact && d != 0) || d > bound214+fl {
				msg := fmt.Sprintf("command %d (%v): decoded %v, off by %.6g in coordinate %d (bound: %s)", i, w.Op, g.Args, d, j, map[bool]string{true: "exact", false: "1/214"}[exact])
				if !exact && d <= bound214+fl+1e-6 && w.Op == type1.OpCurveTo && j >= 4 && math.Abs(w.Args[j]-w.Args[j-2]) < 1e-6 {
					// the end point of a curve whose requested coordinate lies within the
					// encoder's 1e-6 equality tolerance of the second control point's: the
					// h/v curve forms then do not write it (known-findings.json)
					return nearBoundMark + msg + " - the requested end point lies within 1e-6 of the second control point in this coordinate, the curve form written makes them equal"
				}
				return msg
			}
		}
	}
	return ""
}

func runC20(r *rt.Runner) {
	stdEnc := ref.MustStdEnc()

	// (a) integers: exhaustive -70000..70000, in blocks, every slot
	const lo, hi, blk = -70000, 70000, 1000
	for base := lo; base <= hi; base += blk {
		base := base
		r.Case(fmt.Sprintf("integers/%d", base), func(c *rt.C) {
			f := emptyFont()
			for v := base; v < base+blk && v <= hi; v++ {
				slot := ((v % 12) + 12) % 12
				if slot == 11 && (v > 32000 || v < -32000) {
					slot = 0
				}
				f.Glyphs[fmt.Sprintf("g%d", v)] = glyphForValue(float64(v), slot)
				// every value also as a plain horizontal move (1 operand)
				f.Glyphs[fmt.Sprintf("h%d", v)] = glyphForValue(float64(v), 0)
				c.Nontrivial([]byte(fmt.Sprintf("int|%d", v)), nil)
			}
			checkWrittenFont(c, f, stdEnc, type1.FormatNoEExec, "NoEExec")
			c.Count("integer blocks")
		})
	}
	// (b) boundaries and powers of two, every slot, all formats
	r.Case("integers/boundaries", func(c *rt.C) {
		var vals []int64
		for _, b := range []int64{-1132, -1131, -108, -107, 0, 107, 108, 1131, 1132, 32000, 32767, 32768, 65535, 65536, -32768, -32769} {
			for d := int64(-3); d <= 3; d++ {
				vals = append(vals, b+d)
			}
		}
		for p := 1; p <= 31; p++ {
			for d := int64(-3); d <= 3; d++ {
				v := int64(1)<<p + d
				if v <= math.MaxInt32 {
					vals = append(vals, v)
				}
				if -v >= math.MinInt32 {
					vals = append(vals, -v)
				}
			}
		}
		vals = append(vals, math.MaxInt32, math.MinInt32, math.MaxInt32-1, math.MinInt32+1)
		for _, fm := range allFormats {
			f := emptyFont()
			for _, v := range vals {
				for slot := 0; slot < 12; slot++ {
					if slot == 11 && (v > 32000 || v < -32000) {
						continue
					}
					// keep every absolute coordinate inside the 32-bit range
					if (slot >= 5 && slot <= 8 || slot == 2) && (v > 500000000 || v < -500000000) {
						continue
					}
					f.Glyphs[fmt.Sprintf("b%d_%d", v, slot)] = glyphForValue(float64(v), slot)
				}
				c.Nontrivial([]byte(fmt.Sprintf("bound|%d", v)), nil)
			}
			checkWrittenFont(c, f, stdEnc, fm.f, fm.name)
		}
		c.Count("boundary sets")
	})
	// (b2) stems whose two edges are up to 65535 apart: the edges are 16-bit
	// values, the width written into the charstring is their difference
	r.Case("stems/wide", func(c *rt.C) {
		edges := []funit.Int16{-32768, -32767, -20000, -16385, -16384, -16383, -1, 0, 1, 16383, 16384, 16385, 20000, 32766, 32767}
		rng := c.Rand()
		for i := 0; i < 12; i++ {
			edges = append(edges, funit.Int16(rng.IntN(65536)-32768))
		}
		for _, fm := range allFormats {
			f := emptyFont()
			for i, a := range edges {
				for j, b := range edges {
					g := &type1.Glyph{WidthX: 500}
					g.HStem = []funit.Int16{a, b}
					g.VStem = []funit.Int16{b, a}
					if (i+j)%5 == 0 {
						// two stems per direction
						g.HStem = append(g.HStem, edges[(i+3)%len(edges)], edges[(j+7)%len(edges)])
						g.VStem = append(g.VStem, edges[(j+1)%len(edges)], edges[(i+2)%len(edges)])
					}
					f.Glyphs[fmt.Sprintf("w%d_%d", i, j)] = g
				}
			}
			checkWrittenFont(c, f, stdEnc, fm.f, fm.name)
			c.Count("fonts with stems up to 65535 units wide")
		}
		c.Nontrivial([]byte("stems-wide"), nil)
	})
	// (c) sampled 32-bit integers
	nSamp := r.N(600, 6000)
	for k := 0; k < nSamp; k++ {
		r.Case("integers/sampled", func(c *rt.C) {
			rng := c.Rand()
			f := emptyFont()
			for i := 0; i < 300; i++ {
				v := int64(int32(rng.Uint32()))
				if rng.IntN(2) == 0 {
					v >>= uint(rng.IntN(31))
				}
				slot := rng.IntN(5) // one- and two-operand slots keep absolute values in range
				f.Glyphs[fmt.Sprintf("s%d_%d", i, v)] = glyphForValue(float64(v), slot)
				c.Nontrivial([]byte(fmt.Sprintf("int|%d", v)), nil)
			}
			checkWrittenFont(c, f, stdEnc, type1.FormatNoEExec, "NoEExec")
		})
	}
	// (d) fractions: single deltas incl. all k/q, near-integers, worst cases for q <= 107
	nFrac := r.N(4000, 30000)
	for k := 0; k < nFrac; k++ {
		r.Case("fractions", func(c *rt.C) {
			rng := c.Rand()
			f := emptyFont()
			for i := 0; i < 200; i++ {
				v := genFraction(rng)
				f.Glyphs[fmt.Sprintf("f%d", i)] = glyphForValue(v, rng.IntN(9))
				c.Nontrivial([]byte(fmt.Sprintf("frac|%v", v)), func() string { return fmt.Sprintf("fractional delta %v", v) })
				if i%4 == 0 {
					// a second, different value very close to the first (equal to 6-7
					// significant digits): each has to be encoded for itself
					w := v + []float64{0.003, -0.003, 0.005, 0.0078, -0.01, 0.02, 3e-6, -4e-7}[rng.IntN(8)]
					f.Glyphs[fmt.Sprintf("f%dn", i)] = glyphForValue(w, rng.IntN(9))
					c.Nontrivial([]byte(fmt.Sprintf("frac|%v", w)), nil)
				}
			}
			checkWrittenFont(c, f, stdEnc, type1.FormatNoEExec, "NoEExec")
			c.Count("fraction sets")
		})
	}
	// (e) long paths with fractional steps (drift)
	nPath := r.N(800, 4000)
	for k := 0; k < nPath; k++ {
		r.Case("long-path", func(c *rt.C) {
			rng := c.Rand()
			nseg := 1 + rng.IntN(r.N(1500, 10000))
			// a fixed step repeated (errors of one sign accumulate) or random steps
			fixed := rng.IntN(2) == 0
			sx, sy := smallStep(rng), smallStep(rng)
			g, x := buildLongPath(rng, nseg, func() (float64, float64) {
				if !fixed {
					sx, sy = smallStep(rng), smallStep(rng)
				}
				return sx, sy
			})
			f := emptyFont()
			f.Glyphs["long"] = g
			c.SetDetail(func() string { return fmt.Sprintf("path of %d segments, fixed step %v (%v,%v)", nseg, fixed, sx, sy) })
			checkWrittenFont(c, f, stdEnc, type1.FormatNoEExec, "NoEExec")
			c.Runner().Max("longest path (segments)", int64(nseg))
			c.Count("long paths")
			c.Nontrivial([]byte(fmt.Sprintf("path|%d|%v|%v|%v|%v", nseg, fixed, sx, sy, x)), func() string { return fmt.Sprintf("%d segments, fixed=%v", nseg, fixed) })
		})
	}
	// (e2) paths far away from the origin, with small integer and fractional steps
	// (a tolerance that grows with the magnitude of the coordinates would swallow them)
	nFar := r.N(400, 4000)
	for k := 0; k < nFar; k++ {
		r.Case("far-path", func(c *rt.C) {
			rng := c.Rand()
			nseg := 1 + rng.IntN(120)
			integer := rng.IntN(2) == 0
			longPathFar = true
			g, x := buildLongPath(rng, nseg, func() (float64, float64) {
				if integer {
					return float64(rng.IntN(5) - 2), float64(rng.IntN(1401) - 700)
				}
				return smallStep(rng), float64(rng.IntN(3)-1) * 0.05
			})
			longPathFar = false
			f := emptyFont()
			f.Glyphs["far"] = g
			c.SetDetail(func() string { return fmt.Sprintf("path of %d segments starting near %v", nseg, g.Cmds[0].Args) })
			checkWrittenFont(c, f, stdEnc, type1.FormatNoEExec, "NoEExec")
			c.Count("paths far from the origin")
			c.Nontrivial([]byte(fmt.Sprintf("far|%d|%v|%v", nseg, g.Cmds[0].Args, x)), func() string { return fmt.Sprintf("%d segments near %v", nseg, g.Cmds[0].Args) })
		})
	}
	// (f) long paths whose steps all err to the same side by less than any
	// per-number tolerance: an integer plus (or minus) a few 1e-7. Whatever the
	// writer does with such a delta, a bias below 1e-6 per number only shows
	// after thousands of segments, so these paths are long in both tiers.
	nNear := r.N(48, 400)
	for k := 0; k < nNear; k++ {
		r.Case("long-path/near-integer", func(c *rt.C) {
			nearIntegerPath(c, c.Rand(), r.N(2000, 4800), stdEnc)
		})
	}
	// the path of this family that first showed the known finding (thorough
	// tier, seed 2, case 44427), rebuilt from that case's generator state so that
	// the finding is reported by every run
	r.Case("long-path/near-integer-pinned", func(c *rt.C) {
		h := sha256.Sum256([]byte("C20|2|44427"))
		rng := rand.New(rand.NewPCG(binary.LittleEndian.Uint64(h[:8]), binary.LittleEndian.Uint64(h[8:16])))
		nearIntegerPath(c, rng, 4800, stdEnc)
	})
}

// nearIntegerPath is one case of the near-integer long-path family.
func nearIntegerPath(c *rt.C, rng *rand.Rand, spread int, stdEnc []string) {
	r := c.Runner()
	{
		{
			nseg := 5200 + rng.IntN(spread)
			off := []float64{9.5e-7, 9.9e-7, 9.99e-7, 7e-7, 1.2e-6, 4e-7}[rng.IntN(6)]
			if rng.IntN(2) == 0 {
				off = -off
			}
			offY := off
			if rng.IntN(3) == 0 {
				offY = 0
			}
			creep := rng.IntN(4) == 0
			g, x := buildLongPath(rng, nseg, func() (float64, float64) {
				if creep {
					// one coordinate moves on, the other one creeps by less than any
					// tolerance per segment (always to the same side)
					if off > 0 {
						return float64(1 + rng.IntN(9)), offY * 0.9
					}
					return off * 0.9, float64(1 + rng.IntN(9))
				}
				return float64(rng.IntN(7)-3) + off, float64(rng.IntN(7)-3) + offY
			})
			f := emptyFont()
			f.Glyphs["long"] = g
			c.SetDetail(func() string {
				return fmt.Sprintf("path of %d segments, every step an integer%+g (x) / %+g (y)", nseg, off, offY)
			})
			checkWrittenFont(c, f, stdEnc, type1.FormatNoEExec, "NoEExec")
			c.Runner().Max("longest path (segments)", int64(nseg))
			c.Count("long near-integer paths")
			c.Nontrivial([]byte(fmt.Sprintf("nearpath|%d|%v|%v|%v", nseg, off, offY, x)), func() string {
				return fmt.Sprintf("%d segments, steps integer%+g", nseg, off)
			})
		}
	}
	_ = r
}

// farStart moves the start of a path far away from the origin (all coordinates
// stay inside the 32-bit range; the steps stay small).
func farStart(rng *rand.Rand) float64 {
	return []float64{1e8, -1e8, 1e9, -1e9, 2e9, -2e9, 2147000000, -2147000000, 3e7, 123456789}[rng.IntN(10)] + float64(rng.IntN(1000))
}

// buildLongPath draws nseg segments of all kinds (moves, lines, h/v lines, the
// three curve forms) whose deltas come from step; it returns the glyph and the
// final x coordinate.
func buildLongPath(rng *rand.Rand, nseg int, step func() (float64, float64)) (*type1.Glyph, float64) {
	g := &type1.Glyph{WidthX: 600}
	x, y := genFraction(rng), genFraction(rng)
	if longPathFar {
		x, y = farStart(rng), farStart(rng)
	}
	g.MoveTo(x, y)
	cx, cy := x, y // where the current contour began
	for s := 0; s < nseg; s++ {
		sx, sy := step()
		switch rng.IntN(9) {
		case 0:
			if rng.IntN(2) == 0 {
				// the contour is closed explicitly, by a segment back to its first
				// point (closepath itself does not move the current point in Type 1)
				g.LineTo(cx, cy)
				x, y = cx, cy
			}
			g.ClosePath()
			x, y = x+sx, y+sy
			g.MoveTo(x, y)
			cx, cy = x, y
		case 1, 2, 3:
			x, y = x+sx, y+sy
			g.LineTo(x, y)
		case 4:
			x += sx
			g.LineTo(x, y)
		case 5:
			// hvcurveto shape
			x1, x2, y2, y3 := x+sx, x+2*sx, y+sy, y+2*sy
			g.CurveTo(x1, y, x2, y2, x2, y3)
			x, y = x2, y3
		case 6:
			y1, x2, y2, x3 := y+sy, x+sx, y+2*sy, x+2*sx
			g.CurveTo(x, y1, x2, y2, x3, y2)
			x, y = x3, y2
		case 7:
			if rng.IntN(2) == 0 {
				// leaves horizontally and arrives horizontally (an S-shaped join): a general curve
				g.CurveTo(x+sx, y, x+2*sx, y+sy, x+3*sx, y+sy)
				x, y = x+3*sx, y+sy
			} else {
				// leaves vertically and arrives vertically
				g.CurveTo(x, y+sy, x+sx, y+2*sy, x+sx, y+3*sy)
				x, y = x+sx, y+3*sy
			}
		default:
			g.CurveTo(x+sx, y+sy/2, x+2*sx, y+sy, x+3*sx, y+3*sy)
			x, y = x+3*sx, y+3*sy
		}
	}
	g.ClosePath()
	return g, x
}

// longPathFar makes buildLongPath start far away from the origin (set around a call).
var longPathFar bool

func smallStep(rng *rand.Rand) float64 {
	switch rng.IntN(6) {
	case 0:
		return []float64{0.004, 0.003, 0.0046, 10.004, 20.008, math.Sqrt2 / 2, 1.0 / 3, 10 + 1.0/213, 1 / 212.5}[rng.IntN(9)]
	case 1:
		return float64(rng.IntN(21) - 10)
	default:
		return (rng.Float64() - 0.5) * 40
	}
}

// genFraction draws a fractional delta with |x| < 10^6.
func genFraction(rng *rand.Rand) float64 {
	base := float64(rng.IntN(2001) - 1000)
	switch rng.IntN(10) {
	case 0:
		base = float64(rng.IntN(1999999) - 999999)
	case 1:
		base = float64([]int{0, 1, -1, 107, 108, 1131, 1132, -1131, 70000, -999999}[rng.IntN(10)])
	}
	switch rng.IntN(7) {
	case 0:
		q := 1 + rng.IntN(107)
		return base + float64(rng.IntN(q))/float64(q)
	case 1:
		return base + []float64{1e-7, -1e-7, 1e-5, -1e-5, 0.5, 1.0 / 3, 2.0 / 3}[rng.IntN(7)]
	case 2:
		// midway between neighbouring fractions with denominators <= 107: the worst cases
		q1, q2 := 1+rng.IntN(107), 1+rng.IntN(107)
		a, b := float64(rng.IntN(q1+1))/float64(q1), float64(rng.IntN(q2+1))/float64(q2)
		return base + (a+b)/2
	case 3:
		// just inside the rounding bound next to an integer
		return base + []float64{1 / 212.5, -1 / 212.5, 1 / 213.9, 1 - 1/212.5, 1 / 214.1, 0.0047, 0.99529}[rng.IntN(7)]
	default:
		return base + rng.Float64()
	}
}
