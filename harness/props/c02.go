package props

// C02 — Data operators compute what the PostScript reference prescribes.
//
// Clause map:
//   final operand stack / dictionary stack / dictionary contents as the PLRM
//   prescribes, integers exact, overflow promoted to real, composite objects
//   shared by reference, sub-intervals aliasing   -> state-graph comparison
//                                                     against ref.Interp (R1)
//   one violated precondition -> the prescribed error name
//                                                  -> error name must be in
//                                                     R1's acceptable set
// Not demanded: anything about the state after an error; error message text;
// operand/operator combinations the minimal interpreter documents as not
// implemented (R1 returns *ref.Unsupported for them, each with its reason;
// they are counted as unsupported_by_design and assert nothing):
//   builtin.go bCvx "nearly not implemented"; bExecuteonly/bNoaccess/bReadonly
//   "not implemented"; bExec "exec: not implemented for %T"; equal()
//   "equality not implemented for %T"; bFor "TODO: the spec also allows Real
//   values"; dictionary keys other than names (typecheck "needs name").

import (
	"fmt"
	"io"
	"strings"

	"seehuhn.de/go/postscript"

	"verif/harness/ref"
	"verif/harness/rt"
)

func init() { register("C02", runC02) }

type psEnv struct {
	bt     builtinTable
	stdEnc []string
	// fileOps lets the reference evaluator execute currentfile/closefile and treat
	// the access operators as the no-ops they are in Type 1 fonts (its "reader" mode)
	fileOps bool
}

func newPSEnv() *psEnv {
	return &psEnv{bt: pristineBuiltins(), stdEnc: ref.MustStdEnc()}
}

// psOutcome classifies one differential run.
type psOutcome struct {
	class string // "ok", "error:<name>", "unsupported", "stopped"
}

// runPS executes prog in the reference model and in the library and compares.
// fpPrefix names the case family in fingerprints.
func (env *psEnv) runPS(c *rt.C, prog []ref.Tok, fpPrefix string, withSystem bool) psOutcome {
	text := ref.RenderTokens(prog)
	c.SetDetail(func() string { return "program: " + text })
	model := ref.NewInterp(env.stdEnc)
	model.Lenient = env.fileOps
	merr := model.Run(prog)
	if u, ok := merr.(*ref.Unsupported); ok {
		c.Skip("unsupported_by_design")
		_ = u
		return psOutcome{"unsupported"}
	}
	closed := merr == ref.ErrCloseFile
	if closed {
		merr = nil // closing the current file ends the program like its end does
	}
	lib := postscript.NewInterpreter()
	lib.MaxOps = 2_000_000
	lerr := lib.ExecuteString(text)
	if closed && lerr == io.EOF {
		lerr = nil // Execute reports a program that closed its own file with io.EOF
	}
	switch e := merr.(type) {
	case nil:
	case *ref.PSErr:
		got := errName(lerr)
		if lerr == nil {
			c.Violation(fmt.Sprintf("%s|missing-error|%s", fpPrefix, strings.Join(e.Names, ",")),
				fmt.Sprintf("the reference prescribes the error %v (at %s); the library returned no error\nprogram: %s\nlibrary stack: %s", e.Names, e.Where, text, libStackShow(lib)), "")
		} else if !e.Has(got) {
			c.Violation(fmt.Sprintf("%s|wrong-error|%s|want:%s", fpPrefix, got, strings.Join(e.Names, ",")),
				fmt.Sprintf("the reference prescribes the error %v (at %s); the library failed with %q\nprogram: %s", e.Names, e.Where, lerr.Error(), text), "")
		}
		return psOutcome{"error:" + e.Names[0]}
	default:
		if !ref.Stopped(merr) {
			panic(fmt.Sprintf("unexpected model error %v", merr))
		}
	}
	if lerr == nil {
		// invariant hook: once the program has ended, no execution nesting and
		// no open procedure body may be left behind (observed on one further
		// operation, before its budget comparison)
		var seen *postscript.VerifStep
		postscript.VerifStepHook = func(_ *postscript.Interpreter, s postscript.VerifStep) {
			if seen == nil {
				cp := s
				seen = &cp
			}
			rt.Progress.Add(1)
		}
		perr := lib.ExecuteString(" 0 pop ")
		postscript.VerifStepHook = nil
		c.Count("hook: residual-state probes")
		if perr != nil && !ref.Stopped(merr) {
			c.Violation(fmt.Sprintf("%s|probe-error|%s", fpPrefix, errName(perr)),
				fmt.Sprintf("after the program ended without error, executing `0 pop` on the same interpreter failed with %q\nprogram: %s", perr.Error(), text), "")
		} else if seen != nil && (seen.ExecDepth != 0 || seen.OpenProcs != 0 || seen.ErrLevel != 0) {
			c.Violation(fmt.Sprintf("%s|residual-nesting", fpPrefix),
				fmt.Sprintf("after the program ended, the interpreter still holds execution nesting %d, %d open procedure bodies, error level %d\nprogram: %s", seen.ExecDepth, seen.OpenProcs, seen.ErrLevel, text), "")
		}
	}
	if lerr != nil {
		c.Violation(fmt.Sprintf("%s|unexpected-error|%s", fpPrefix, errName(lerr)),
			fmt.Sprintf("the reference executes the program without error; the library failed with %q\nprogram: %s\nreference stack: %s", lerr.Error(), text, modelStackShow(model)), "")
		return psOutcome{"ok"}
	}
	if diffs := compareStates(env.bt, lib, model, withSystem); len(diffs) > 0 {
		c.Violation(fmt.Sprintf("%s|state|%s", fpPrefix, diffClass(diffs[0])),
			fmt.Sprintf("final state differs from the reference:\n  %s\nprogram: %s\nlibrary stack:   %s\nreference stack: %s",
				strings.Join(diffs, "\n  "), text, libStackShow(lib), modelStackShow(model)), "")
	}
	if ref.Stopped(merr) {
		return psOutcome{"stopped"}
	}
	return psOutcome{"ok"}
}

// runPSHistory executes the programs one after the other on one reference
// interpreter and one library interpreter (separate Execute calls) and
// compares call by call: the error outcome of every call, and the state after
// every call that ended without error or by stop. After a call that ended with
// an error only the error name is prescribed, so both operand stacks are
// cleared before the next call (dictionary stacks and contents stay).
func (env *psEnv) runPSHistory(c *rt.C, progs [][]ref.Tok, fpPrefix string, raw ...string) string {
	var texts []string
	for i, p := range progs {
		if i < len(raw) && raw[i] != "" {
			texts = append(texts, raw[i]) // the same tokens in a particular spelling
		} else {
			texts = append(texts, ref.RenderTokens(p))
		}
	}
	c.SetDetail(func() string { return "programs, one Execute call each:\n  " + strings.Join(texts, "\n  ") })
	model := ref.NewInterp(env.stdEnc)
	lib := postscript.NewInterpreter()
	lib.MaxOps = 2_000_000
	last := "ok"
	for i, prog := range progs {
		merr := model.Run(prog)
		if _, ok := merr.(*ref.Unsupported); ok {
			c.Skip("unsupported_by_design")
			return "unsupported"
		}
		lerr := lib.ExecuteString(texts[i])
		c.Eval()
		where := fmt.Sprintf("call %d of %d", i+1, len(progs))
		switch e := merr.(type) {
		case *ref.PSErr:
			got := errName(lerr)
			if lerr == nil {
				c.Violation(fmt.Sprintf("%s|missing-error|%s", fpPrefix, strings.Join(e.Names, ",")),
					fmt.Sprintf("%s: the reference prescribes the error %v (at %s); the library returned no error\nprograms:\n  %s", where, e.Names, e.Where, strings.Join(texts, "\n  ")), "")
				return "violation"
			} else if !e.Has(got) {
				c.Violation(fmt.Sprintf("%s|wrong-error|%s|want:%s", fpPrefix, got, strings.Join(e.Names, ",")),
					fmt.Sprintf("%s: the reference prescribes the error %v (at %s); the library failed with %q\nprograms:\n  %s", where, e.Names, e.Where, lerr.Error(), strings.Join(texts, "\n  ")), "")
				return "violation"
			}
			// only the error is prescribed: start the next call from empty operand stacks
			model.Stack = model.Stack[:0]
			lib.Stack = lib.Stack[:0]
			last = "error:" + e.Names[0]
			continue
		case nil:
			last = "ok"
		default:
			if !ref.Stopped(merr) {
				panic(fmt.Sprintf("unexpected model error %v", merr))
			}
			last = "stopped"
		}
		if lerr != nil {
			c.Violation(fmt.Sprintf("%s|unexpected-error|%s", fpPrefix, errName(lerr)),
				fmt.Sprintf("%s: the reference executes the program without error; the library failed with %q\nprograms:\n  %s", where, lerr.Error(), strings.Join(texts, "\n  ")), "")
			return "violation"
		}
		if diffs := compareStates(env.bt, lib, model, false); len(diffs) > 0 {
			c.Violation(fmt.Sprintf("%s|state|%s", fpPrefix, diffClass(diffs[0])),
				fmt.Sprintf("%s: state differs from the reference:\n  %s\nprograms:\n  %s\nlibrary stack:   %s\nreference stack: %s",
					where, strings.Join(diffs, "\n  "), strings.Join(texts, "\n  "), libStackShow(lib), modelStackShow(model)), "")
			return "violation"
		}
	}
	return last
}

// diffClass reduces a difference message to its location class.
func diffClass(d string) string {
	loc := d
	if i := strings.Index(d, ":"); i > 0 {
		loc = d[:i]
	}
	if i := strings.IndexAny(loc, "[/"); i > 0 {
		loc = loc[:i]
	}
	kind := "value"
	switch {
	case strings.Contains(d, "sharing differs"):
		kind = "sharing"
	case strings.Contains(d, "depth"):
		kind = "depth"
	case strings.Contains(d, "size"):
		kind = "size"
	}
	return loc + "/" + kind
}

// ---------------------------------------------------------------- pool

type poolItem struct {
	name string
	toks []ref.Tok
}

func xn(s string) ref.TName { return ref.TName{S: s, Exec: true} }
func ln(s string) ref.TName { return ref.TName{S: s} }

var c02Prelude = ref.MustParse(`/A [10 20 30 40] def /S (hello) def /D << /x 1 /y (s) >> def /P {1 2 add} def /N 7 def`)

func c02Pool() (full, reduced []poolItem) {
	add := func(reducedToo bool, name, text string) {
		it := poolItem{name, ref.MustParse(text)}
		full = append(full, it)
		if reducedToo {
			reduced = append(reduced, it)
		}
	}
	add(true, "0", "0")
	add(true, "1", "1")
	add(true, "-1", "-1")
	add(true, "2", "2")
	add(false, "3", "3")
	add(true, "4", "4")
	add(false, "5", "5")
	add(false, "255", "255")
	add(true, "256", "256")
	add(false, "2^31", "2147483648")
	add(false, "-2^31", "-2147483648")
	add(false, "2^53", "9007199254740992")
	add(false, "2^53+1", "9007199254740993")
	add(true, "maxint", "9223372036854775807")
	add(false, "maxint-1", "9223372036854775806")
	add(true, "minint", "-9223372036854775808")
	add(false, "minint+1", "-9223372036854775807")
	add(true, "0.0", "0.0")
	add(true, "1.5", "1.5")
	add(false, "-2.5", "-2.5")
	add(false, "1e18", "1e18")
	add(false, "2^53r", "9007199254740992.0")
	add(false, "2^63r", "9223372036854775808.0")
	add(false, "-2^63r", "-9223372036854775808.0")
	add(true, "true", "true")
	add(false, "false", "false")
	add(true, "/A", "/A")
	add(true, "/x", "/x")
	add(false, "/zz", "/zz")
	add(false, "/add", "/add")
	add(false, "/Font", "/Font")
	add(false, "/utf8name", "/\u00c4rger\u4e00")
	add(false, "/latin1name", "/\xe9t\xe9")
	add(true, "()", "()")
	add(false, "(abc)", "(abc)")
	add(false, "(A)", "(A)")
	add(true, "S", "S")
	add(true, "S[1..3]", "S 1 3 getinterval")
	add(false, "bigstr", "65535 string")
	add(true, "[]", "[]")
	add(false, "[1 2 3]", "[1 2 3]")
	add(true, "A", "A")
	add(true, "A[1..2]", "A 1 2 getinterval")
	add(false, "nested", "[[1 2] (x) /n]")
	add(false, "<<>>", "0 dict")
	add(true, "D", "D")
	add(false, "dict-lit", "<< /k 1 /A 2 >>")
	// dictionaries of equal size whose keys look like numbers, and one with the same content as another pool dictionary (identity, not content, decides eq)
	add(false, "dict-x", "<< /x 1 >>")
	add(false, "dict-0", "<< /0 1 >>")
	add(false, "dict-01", "<< /0 1 /1 (s) >>")
	add(false, "dict-like-D", "<< /x 1 /y (s) >>")
	add(false, "userdict", "userdict")
	add(true, "proc", "{1 2 add}")
	add(false, "mark", "mark")
	add(false, "null", "1 array 0 get")
	return
}

// operators under test with the number of operands they consume
var c02Ops = []struct {
	name  string
	arity int
}{
	{"count", 0}, {"currentdict", 0}, {"mark", 0}, {"[", 0}, {"<<", 0}, {"end", 0}, {"cleartomark", 0}, {"]", 0}, {">>", 0},
	{"abs", 1}, {"not", 1}, {"array", 1}, {"string", 1}, {"dict", 1}, {"begin", 1}, {"load", 1}, {"where", 1},
	{"length", 1}, {"maxlength", 1}, {"dup", 1}, {"pop", 1}, {"type", 1}, {"findfont", 1}, {"internaldict", 1},
	{"index", 1}, {"copy", 2},
	{"add", 2}, {"sub", 2}, {"mul", 2}, {"and", 2}, {"or", 2}, {"eq", 2}, {"ne", 2}, {"exch", 2}, {"known", 2},
	{"get", 2}, {"def", 2}, {"definefont", 2}, {"findresource", 2}, {"roll", 2},
	{"put", 3}, {"getinterval", 3}, {"putinterval", 3}, {"defineresource", 3},
}

func runC02(r *rt.Runner) {
	env := newPSEnv()
	full, reduced := c02Pool()

	checkSystemDictKeys(r)

	// pinned regression programs (known or fixed findings stay identifiable)
	for _, p := range c02Pinned {
		p := p
		r.Case("pinned", func(c *rt.C) {
			out := env.runPS(c, ref.MustParse(p), "pinned:"+p, true)
			c.Count("pinned:" + out.class)
			c.Nontrivial([]byte("pinned|"+p), func() string { return p })
		})
	}

	// the file operators as font programs use them, in clear text: closing the
	// current file ends the program at that point, with the operands gone
	for _, p := range []string{"currentfile closefile 1 2", "1 currentfile closefile 2", "mark currentfile closefile 5", "currentfile closefile",
		"7 8 currentfile closefile", "/x 1 def currentfile closefile /x 2 def", "{ currentfile closefile } exec 9", "1 2 currentfile pop", "currentfile currentfile pop closefile 3",
		"closefile", "5 closefile", "(a) closefile", "mark closefile", "[ 1 2 ] readonly 0 get", "{ 1 } executeonly exec", "(abc) noaccess length", "3 dict readonly begin currentdict end length",
		"true currentfile closefile"} {
		p := p
		r.Case("file-operators", func(c *rt.C) {
			fenv := *env
			fenv.fileOps = true
			out := fenv.runPS(c, ref.MustParse(p), "fileops:"+p, false)
			c.Count("file operators: " + out.class)
			c.Nontrivial([]byte("fileops|"+p), func() string { return p + " -> " + out.class })
		})
	}

	// (1)+(2) bounded-exhaustive operand tuples, every length 0..max(2,arity)
	for _, op := range c02Ops {
		op := op
		maxLen := op.arity
		if maxLen < 2 {
			maxLen = 2
		}
		for n := 0; n <= maxLen; n++ {
			pool := full
			if n >= 3 && r.Quick() && op.arity < 3 {
				pool = reduced
			}
			idx := make([]int, n)
			for {
				if r.Mine() {
					items := make([]poolItem, n)
					for i, k := range idx {
						items[i] = pool[k]
					}
					r.Case("tuple/"+op.name, func(c *rt.C) {
						prog := append([]ref.Tok(nil), c02Prelude...)
						var names []string
						for _, it := range items {
							prog = append(prog, it.toks...)
							names = append(names, it.name)
						}
						prog = append(prog, xn(op.name))
						out := env.runPS(c, prog, "tuple:"+op.name, len(items) == 0)
						c.Count("op " + op.name + " -> " + out.class)
						if out.class != "unsupported" {
							c.Nontrivial([]byte("tuple|"+op.name+"|"+strings.Join(names, "|")), func() string {
								return fmt.Sprintf("%s %s -> %s", strings.Join(names, " "), op.name, out.class)
							})
						}
					})
				} else {
					r.SkipCase()
				}
				// next tuple
				i := n - 1
				for i >= 0 {
					idx[i]++
					if idx[i] < len(pool) {
						break
					}
					idx[i] = 0
					i--
				}
				if i < 0 {
					break
				}
			}
		}
	}

	// (3) random programs over the data operators with an alias-stressing pool
	nRand := r.N(100000, 1500000)
	for k := 0; k < nRand; k++ {
		r.Case("random", func(c *rt.C) {
			prog := genDataProgram(c, env, full)
			out := env.runPS(c, prog, "random", false)
			c.Count("random program -> " + out.class)
			if out.class != "unsupported" {
				c.Nontrivial([]byte("random|"+ref.RenderTokens(prog)), func() string { return ref.RenderTokens(prog) })
			}
		})
	}
}

// c02Pinned: regression programs for findings (DESIGN.md section 6) and
// hand-picked alias/overflow situations.
var c02Pinned = []string{
	// a dictionary literal defines its pairs in order: the last value of a key wins
	"<< /a 1 /b 2 /a 3 >> dup /a get exch length",
	"mark /k (x) /k (y) /k 7 >> /k get",
	"<< /a 1 /a 2 /b 3 /b 4 /a 5 >> dup /a get exch /b get",
	// name look-up goes down the dictionary stack: a definition in userdict hides
	// the operator also when further dictionaries lie on top of it
	"/length 42 def 3 dict begin /x 1 def /length load end",
	"/add { sub } def 2 dict begin 1 dict begin 7 3 add end end",
	"/dup 5 def 1 dict begin /y 2 def dup end",
	"/abs (p) def 3 dict begin currentdict /abs known /abs load /abs where { /abs get } if end",
	// `[`, `<<` and `mark` push the same mark object: any of the three closers
	// works with any of them
	"[ /a 1 /b (x) >> /a get",
	"7 << 1 2 3 ] length",
	"mark /a 1 >> /a get",
	"mark 1 2 ] 1 get",
	"[ 1 2 cleartomark 5",
	"<< 1 2 cleartomark 5",
	"[ << /a 1 ] 1 get exch pop",
	"<< [ 1 2 >> length exch pop",
	"<< /k [ 1 2 ] >> /k get 1 get",
	"[ mark 1 ] counttomark",
	"0 -9223372036854775808 sub",
	"-1 -9223372036854775808 mul",
	"9223372036854775807 1 add",
	"-9223372036854775808 -1 add",
	"-9223372036854775808 abs",
	"9223372036854775807 2 mul",
	"3037000500 3037000500 mul",
	"4294967296 4294967296 mul",
	"9007199254740993 9007199254740992 eq",
	"9223372036854775807 9223372036854775806 ne",
	"9007199254740993 9007199254740992.0 eq",
	"-9223372036854775808 9223372036854775807 1 add eq",
	"9223372036854775807 9223372036854775807 1 add eq",
	"9223372036854775807 1 add -9223372036854775808 ne",
	"-9223372036854775808 -9223372036854775808 -1 add eq",
	"/a [1 2 3 4 5] def a 1 a 0 4 getinterval putinterval a",
	"/a [1 2 3 4 5] def a 0 a 1 4 getinterval putinterval a",
	"/s (abcde) def s 1 s 0 4 getinterval putinterval s",
	"/a [1 2 3 4 5] def a 1 4 getinterval a 0 4 getinterval copy pop a",
	"/a [1 2 3 4 5] def a 1 3 getinterval 0 99 put a",
	"/a [1 2 3 4 5] def a 1 3 getinterval 1 2 getinterval 0 77 put a",
	"/s (abcdef) def s 2 3 getinterval 0 65 put s",
	"/a [1 2 3] def /b 5 array def a b copy 0 42 put b a",
	"/d1 << /k 1 >> def /d2 2 dict def d1 d2 copy /k 9 put d1 d2",
	"[1 2 3] dup 0 (x) put",
	"/a [0 0] def a 0 a put a 0 get 0 get 1 get",
	"(abc) dup 1 255 put",
	"(abc) dup 1 256 put",
	"(abc) dup 1 -1 put",
	"1 2 3 4 5 3 -1 roll",
	"1 2 3 4 5 5 2 roll",
	"1 2 3 4 5 3 7 roll",
	"1 2 3 4 5 3 -7 roll",
	"1 2 3 0 5 roll",
	"1 2 3 2 copy",
	"1 2 3 0 copy",
	"1 2 9223372036854775807 copy",
	"3 array 9223372036854775807 [1] putinterval",
	"[1 2 3] 3 0 getinterval",
	"[1 2 3] 2 1 getinterval",
	"[1 2 3] 1 9223372036854775807 getinterval",
	"(abc) 0 3 getinterval",
	"mark 1 2 3 ] length",
	"<< /a 1 /b << /c 2 >> >> /b get /c get",
	"/f << /FontType 1 >> def /Foo f definefont /Foo findfont f eq",
	"/Foo << /x 1 >> /Font defineresource pop /Foo findfont /x get",
	"/Bar << /x 2 >> /CIDFont defineresource pop /Bar /CIDFont findresource /x get",
	"(Bar) /CIDFont findresource",
	"/nope /CIDFont findresource",
	"/nope /NoCategory findresource",
	"/k 1 def << /k 2 >> begin /k where pop /k get end",
	"/k 1 def << /k 2 >> begin /k load end",
	"/k 1 def << /q 2 >> begin /k where { /k get } if end",
	"userdict /zz known systemdict /add known",
	"StandardEncoding 65 get StandardEncoding length",
	"systemdict /systemdict get systemdict eq",
	"5 dict dup maxlength exch length",
	"1183615869 internaldict dup /q 1 put /q get",
	"5 internaldict",
	"true false and true true and 12 10 and 12 10 or true false or 5 not true not",
	"1 1.0 eq 1 (1) eq (abc) /abc eq /abc (abc) ne 1.5 1.5 eq",
	"end",
	"1 2 ]",
	"1 2 >>",
	"cleartomark",
	"<< 1 >>",
	"-1 array",
	"-1 string",
	"-1 dict",
	"[1 2 3] -1 get",
	"[1 2 3] 3 get",
	"(abc) 3 get",
	"<< /a 1 >> /b get",
	"/undefinedname load",
	"/undefinedname findfont",
	"count 1 2 3 count",
	"1 2 3 1 index 0 index",
	"1 2 3 3 index",
	"1 2 3 -1 index",
}

// checkSystemDictKeys verifies that the library's system dictionary defines
// exactly the operators the model knows; an operator added to the library is
// reported as inconclusive coverage, not as a violation.
func checkSystemDictKeys(r *rt.Runner) {
	r.Case("systemdict-keys", func(c *rt.C) {
		known := map[string]bool{}
		for _, n := range ref.SystemOps {
			known[n] = true
		}
		for _, n := range []string{"true", "false", "systemdict", "userdict", "errordict", "FontDirectory", "StandardEncoding"} {
			known[n] = true
		}
		intp := postscript.NewInterpreter()
		for k := range intp.SystemDict {
			if !known[string(k)] {
				c.Inconclusive("operator " + string(k) + " is not modelled by the reference evaluator")
			}
		}
		c.Nontrivial([]byte("systemdict-keys"), nil)
	})
}

// genDataProgram builds a random program; the reference model guides the
// generator so that most programs run long without error (a token that would
// fail is replaced with probability 0.85).
func genDataProgram(c *rt.C, env *psEnv, pool []poolItem) []ref.Tok {
	rng := c.Rand()
	target := 5 + rng.IntN(76)
	prog := append([]ref.Tok(nil), c02Prelude...)
	ops := c02Ops
	tries := 0
	for len(prog)-len(c02Prelude) < target && tries < 4*target {
		tries++
		var next []ref.Tok
		switch rng.IntN(10) {
		case 0, 1, 2, 3:
			next = pool[rng.IntN(len(pool))].toks
			if len(next) > 0 {
				if s, ok := next[0].(ref.TInt); ok && s == 65535 {
					continue // keep random programs light
				}
			}
		case 4:
			next = []ref.Tok{ref.TInt(rng.IntN(7) - 1)}
		case 5:
			// store the top object under one of a few names (creates aliases)
			next = []ref.Tok{ln([]string{"A", "S", "D", "T", "U"}[rng.IntN(5)]), xn("exch"), xn("def")}
		case 6:
			next = []ref.Tok{xn([]string{"A", "S", "D", "T", "U", "N"}[rng.IntN(6)])}
		default:
			next = []ref.Tok{xn(ops[rng.IntN(len(ops))].name)}
		}
		cand := append(append([]ref.Tok(nil), prog...), next...)
		m := ref.NewInterp(env.stdEnc)
		err := m.Run(cand)
		if err != nil && rng.IntN(100) < 85 {
			continue
		}
		prog = cand
		if err != nil {
			break
		}
	}
	return prog
}

// rolls of 6..70 elements on a stack that has never been deeper: an
// implementation that rotates in place using spare capacity of the stack's
// backing array meets every capacity boundary of a growing slice here
func init() {
	for d := 6; d <= 70; d++ {
		var sb strings.Builder
		for i := 1; i <= d; i++ {
			fmt.Fprintf(&sb, "%d ", i)
		}
		for _, j := range []int{3, -3, d / 2, -(d / 2), d - 1, 1 - d} {
			c02Pinned = append(c02Pinned, fmt.Sprintf("%s%d %d roll", sb.String(), d, j))
			if d%8 == 0 {
				c02Pinned = append(c02Pinned, fmt.Sprintf("(x) /y %s%d %d roll", sb.String(), d, j))
			}
		}
	}
}
