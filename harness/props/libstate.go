package props

// Canonical digest of a library interpreter's state (stacks, dictionaries,
// sharing), for real-vs-real comparisons (C05, C11, C12, C18).

import (
	"fmt"
	"reflect"
	"sort"
	"strings"
	"unsafe"

	"seehuhn.de/go/postscript"
)

type libDigester struct {
	sb      strings.Builder
	dictIDs map[uintptr]int
	arrIDs  map[uintptr]int // keyed by address of the first element
	strIDs  map[uintptr]int
	bt      builtinTable
	btNames map[uintptr]string
	budget  int
}

func newLibDigester(bt builtinTable) *libDigester {
	d := &libDigester{dictIDs: map[uintptr]int{}, arrIDs: map[uintptr]int{}, strIDs: map[uintptr]int{}, bt: bt, btNames: map[uintptr]string{}, budget: 400000}
	for n, p := range bt {
		d.btNames[p] = n
	}
	return d
}

func (d *libDigester) obj(o postscript.Object) {
	if d.budget <= 0 {
		return
	}
	d.budget--
	switch o := o.(type) {
	case nil:
		d.sb.WriteString("nil ")
	case postscript.Integer:
		fmt.Fprintf(&d.sb, "i%d ", int(o))
	case postscript.Real:
		fmt.Fprintf(&d.sb, "r%v ", float64(o))
	case postscript.Boolean:
		fmt.Fprintf(&d.sb, "b%t ", bool(o))
	case postscript.Name:
		fmt.Fprintf(&d.sb, "/%q ", string(o))
	case postscript.Operator:
		fmt.Fprintf(&d.sb, "x%q ", string(o))
	case postscript.String:
		if len(o) == 0 {
			d.sb.WriteString("s() ")
			return
		}
		p := uintptr(unsafe.Pointer(unsafe.SliceData([]byte(o))))
		id, seen := d.strIDs[p]
		if !seen {
			id = len(d.strIDs) + 1
			d.strIDs[p] = id
		}
		fmt.Fprintf(&d.sb, "s#%d(%q) ", id, string(o))
	case postscript.Array:
		d.arr("[", "]", o)
	case postscript.Procedure:
		d.arr("{", "}", o)
	case postscript.Dict:
		d.dict(o)
	case *postscript.CMapInfo:
		fmt.Fprintf(&d.sb, "cmapinfo%+v ", *o)
	default:
		rv := reflect.ValueOf(o)
		if rv.Kind() == reflect.Func {
			if n, ok := d.btNames[rv.Pointer()]; ok {
				fmt.Fprintf(&d.sb, "op:%s ", n)
			} else {
				d.sb.WriteString("op:? ")
			}
			return
		}
		fmt.Fprintf(&d.sb, "%T ", o)
	}
}

func (d *libDigester) arr(open, cl string, e []postscript.Object) {
	if len(e) == 0 {
		d.sb.WriteString(open + cl + " ")
		return
	}
	p := uintptr(unsafe.Pointer(unsafe.SliceData(e)))
	key := p ^ uintptr(len(e))<<48
	if id, seen := d.arrIDs[key]; seen {
		fmt.Fprintf(&d.sb, "%s#%d%s ", open, id, cl)
		return
	}
	id := len(d.arrIDs) + 1
	d.arrIDs[key] = id
	fmt.Fprintf(&d.sb, "%s#%d: ", open, id)
	for _, x := range e {
		d.obj(x)
	}
	d.sb.WriteString(cl + " ")
}

func (d *libDigester) dict(m postscript.Dict) {
	p := reflect.ValueOf(m).Pointer()
	if id, seen := d.dictIDs[p]; seen {
		fmt.Fprintf(&d.sb, "<<#%d>> ", id)
		return
	}
	id := len(d.dictIDs) + 1
	d.dictIDs[p] = id
	fmt.Fprintf(&d.sb, "<<#%d: ", id)
	keys := make([]string, 0, len(m))
	for k := range m {
		keys = append(keys, string(k))
	}
	sort.Strings(keys)
	for _, k := range keys {
		fmt.Fprintf(&d.sb, "/%q ", k)
		d.obj(m[postscript.Name(k)])
	}
	d.sb.WriteString(">> ")
}

// libStateDigest renders the observable interpreter state canonically.
// Error handlers and the CIDInit operators are closures without identity in
// the table; they are rendered as "op:?" on both sides of a comparison.
func libStateDigest(bt builtinTable, intp *postscript.Interpreter) string {
	d := newLibDigester(bt)
	d.sb.WriteString("STACK ")
	for _, o := range intp.Stack {
		d.obj(o)
	}
	d.sb.WriteString("\nDICTSTACK ")
	for _, m := range intp.DictStack {
		d.dict(m)
	}
	d.sb.WriteString("\nSYSTEM ")
	d.dict(intp.SystemDict)
	d.sb.WriteString("\nUSER ")
	d.dict(intp.UserDict)
	d.sb.WriteString("\nERRORDICT ")
	d.dict(intp.ErrorDict)
	d.sb.WriteString("\nFONTS ")
	d.dict(intp.FontDirectory)
	d.sb.WriteString("\nRESOURCES ")
	d.dict(intp.Resources)
	d.sb.WriteString("\nCMAPS ")
	d.dict(intp.CMapDirectory)
	d.sb.WriteString("\nINTERNAL ")
	d.dict(intp.InternalDict)
	fmt.Fprintf(&d.sb, "\nDSC %q", intp.DSC)
	return d.sb.String()
}

// firstDiff locates the first difference of two digests.
func firstDiff(a, b string) string {
	n := min(len(a), len(b))
	i := 0
	for i < n && a[i] == b[i] {
		i++
	}
	lo := max(0, i-80)
	return fmt.Sprintf("at byte %d:\n  A: …%s\n  B: …%s", i, a[lo:min(len(a), i+120)], b[lo:min(len(b), i+120)])
}
