package props

// C19 — Font and metrics query methods agree with their definitions.
//
// Reference-model monitor: every query result is compared with a direct
// re-computation from the definition in the property statement (R10).

import (
	"fmt"
	"math"
	"sort"
	"strings"

	"seehuhn.de/go/geom/matrix"
	"seehuhn.de/go/geom/rect"
	"seehuhn.de/go/postscript/afm"
	"seehuhn.de/go/postscript/type1"

	"verif/harness/rt"
)

func init() { register("C19", runC19) }

// checkGlyphList verifies the glyph-list clauses. glyphs: the glyph names;
// enc: the encoding.
func checkGlyphList(list []string, glyphs map[string]bool, enc []string, numGlyphs int) string {
	want := len(glyphs)
	if !glyphs[".notdef"] {
		want++
	}
	if numGlyphs != want {
		return fmt.Sprintf("NumGlyphs() = %d, but there are %d glyphs (counting .notdef)", numGlyphs, want)
	}
	if len(list) != numGlyphs {
		return fmt.Sprintf("len(GlyphList()) = %d, NumGlyphs() = %d", len(list), numGlyphs)
	}
	if len(list) == 0 || list[0] != ".notdef" {
		return fmt.Sprintf("GlyphList() does not start with .notdef: %q", head([]byte(fmt.Sprint(list)), 200))
	}
	seen := map[string]bool{}
	for _, n := range list {
		if seen[n] {
			return fmt.Sprintf("GlyphList() contains %q twice", n)
		}
		seen[n] = true
		if n != ".notdef" && !glyphs[n] {
			return fmt.Sprintf("GlyphList() contains %q, which is not a glyph", n)
		}
	}
	for n := range glyphs {
		if !seen[n] {
			return fmt.Sprintf("GlyphList() lacks the glyph %q", n)
		}
	}
	// encoded glyphs first, in code order (any one code per glyph may be used)
	codes := map[string][]int{}
	for c, n := range enc {
		if n != ".notdef" && glyphs[n] {
			codes[n] = append(codes[n], c)
		}
	}
	rest := list[1:]
	nEnc := len(codes)
	if len(rest) < nEnc {
		return "GlyphList() too short for the encoded glyphs"
	}
	prev := -1
	for i := 0; i < nEnc; i++ {
		cs, ok := codes[rest[i]]
		if !ok {
			return fmt.Sprintf("GlyphList()[%d] = %q is not encoded, but %d encoded glyphs must come first", i+1, rest[i], nEnc)
		}
		chosen := -1
		for _, c := range cs {
			if c > prev {
				chosen = c
				break
			}
		}
		if chosen < 0 {
			return fmt.Sprintf("GlyphList()[%d] = %q (codes %v) is out of code order after code %d", i+1, rest[i], cs, prev)
		}
		prev = chosen
	}
	tail := rest[nEnc:]
	if !sort.StringsAreSorted(tail) {
		return fmt.Sprintf("the unencoded part of GlyphList() is not in byte-wise name order: %q", head([]byte(fmt.Sprint(tail)), 300))
	}
	return ""
}

func relClose(a, b float64) bool {
	if a == b {
		return true
	}
	return math.Abs(a-b) <= 1e-9*math.Max(math.Abs(a), math.Abs(b))+1e-12
}

// rectCloseMag compares two boxes whose coordinates are sums of terms of
// magnitude up to magX / magY: different (equally legitimate) orders of
// evaluation of x*a + y*c + tx differ by rounding errors relative to the
// terms, not to the - possibly cancelled - result.
func rectCloseMag(a, b rect.Rect, magX, magY float64) bool {
	cl := func(u, v, mag float64) bool {
		return relClose(u, v) || math.Abs(u-v) <= 1e-9*mag
	}
	return cl(a.LLx, b.LLx, magX) && cl(a.LLy, b.LLy, magY) && cl(a.URx, b.URx, magX) && cl(a.URy, b.URy, magY)
}

func rectClose(a, b rect.Rect) bool {
	return relClose(a.LLx, b.LLx) && relClose(a.LLy, b.LLy) && relClose(a.URx, b.URx) && relClose(a.URy, b.URy)
}

// glyphBox recomputes a glyph's box through the map f (identity for BBox).
func glyphBox(g *type1.Glyph, f func(x, y float64) (float64, float64)) rect.Rect {
	var r rect.Rect
	first := true
	for _, c := range g.Cmds {
		var x, y float64
		switch c.Op {
		case type1.OpMoveTo, type1.OpLineTo:
			x, y = c.Args[0], c.Args[1]
		case type1.OpCurveTo:
			x, y = c.Args[4], c.Args[5]
		default:
			continue
		}
		x, y = f(x, y)
		if first {
			r = rect.Rect{LLx: x, LLy: y, URx: x, URy: y}
			first = false
			continue
		}
		r.LLx, r.LLy = math.Min(r.LLx, x), math.Min(r.LLy, y)
		r.URx, r.URy = math.Max(r.URx, x), math.Max(r.URy, y)
	}
	return r
}

func isZeroRect(r rect.Rect) bool { return r.LLx == 0 && r.LLy == 0 && r.URx == 0 && r.URy == 0 }

func unionBoxes(boxes []rect.Rect) rect.Rect {
	var u rect.Rect
	first := true
	for _, b := range boxes {
		if isZeroRect(b) {
			continue
		}
		if first {
			u = b
			first = false
			continue
		}
		u.LLx, u.LLy = math.Min(u.LLx, b.LLx), math.Min(u.LLy, b.LLy)
		u.URx, u.URy = math.Max(u.URx, b.URx), math.Max(u.URy, b.URy)
	}
	return u
}

func runC19(r *rt.Runner) {
	n := r.N(250000, 2000000)
	for k := 0; k < n; k++ {
		r.Case("type1", func(c *rt.C) {
			rng := c.Rand()
			o := &fontOpts{maxGlyphs: 14, fractional: true, noNotdef: true, features: map[string]bool{}}
			f := genFont(rng, o)
			// C19 wants axis-aligned matrices, including negative and non-uniform scales
			switch rng.IntN(6) {
			case 4, 5:
				// next to the customary matrix, but not equal to it
				f.FontMatrix = [][6]float64{{0.0010005, 0, 0, 0.0009995, 0, 0}, {1 / 999.5, 0, 0, 1 / 999.5, 0, 0}, {0.001, 0, 0, 0.001, 5e-7, -5e-7},
					{0.0010000001, 0, 0, 0.001, 0, 0}, {0.001, 0, 0, 0.0010009, 0, 0}, {0.00099999, 0, 0, 0.00100001, 1e-7, 0}, {0.001, 0, 0, -0.001, 0, 0}}[rng.IntN(7)]
				o.f("font matrix next to the customary one")
			case 0:
				f.FontMatrix = matrix.Matrix{-0.001, 0, 0, 0.002, 0, 0}
			case 1:
				f.FontMatrix = matrix.Matrix{0.001, 0, 0, 0.001, 0, 0}
			case 2:
				f.FontMatrix = matrix.Matrix{float64(rng.IntN(2001)-1000) / 1e5, 0, 0, float64(1+rng.IntN(1000)) / 1e5, float64(rng.IntN(21) - 10), float64(rng.IntN(21) - 10)}
			default:
				f.FontMatrix[1], f.FontMatrix[2] = 0, 0
			}
			if rng.IntN(8) == 0 {
				// quarter turns and an oblique matrix: the boxes are still the boxes of
				// the mapped end points, the PDF width still the advance times the
				// horizontal scale (which is 0 for a quarter turn), whatever the
				// vertical advance is
				f.FontMatrix = []matrix.Matrix{{0, 0.001, -0.001, 0, 0, 0}, {0, -0.001, 0.001, 0, 0.5, -0.25}, {0.001, 0, 0.000167, 0.001, 0, 0}, {-0.001, 0, 0, -0.001, 0, 0}, {0, 0.002, 0.001, 0, 0, 0}}[rng.IntN(5)]
				for _, g := range f.Glyphs {
					if rng.IntN(2) == 0 {
						g.WidthY = float64(rng.IntN(2001) - 1000)
					}
				}
				o.f("font matrix with a rotation or a slant, glyphs with vertical advances")
			}
			// command records that carry more arguments than their operator uses
			// (a caller that keeps six slots per command, or spare values behind
			// the points): the documented arguments are the first two / six
			if rng.IntN(6) == 0 {
				for _, g := range f.Glyphs {
					for i := range g.Cmds {
						if rng.IntN(2) == 0 {
							continue
						}
						pad := []float64{0, 0, 0, 0}[:1+rng.IntN(4)]
						if rng.IntN(2) == 0 {
							pad = []float64{float64(rng.IntN(4001) - 2000), float64(rng.IntN(4001) - 2000)}
						}
						g.Cmds[i].Args = append(append([]float64(nil), g.Cmds[i].Args...), pad...)
					}
				}
				o.f("commands with spare arguments behind the used ones")
			}
			// some glyphs with only closepath commands, some empty
			names := sortedGlyphNames(f)
			if rng.IntN(3) == 0 {
				g := f.Glyphs[names[rng.IntN(len(names))]]
				g.Cmds = []type1.GlyphOp{{Op: type1.OpClosePath}}
				o.f("glyph with only closepath")
			}
			if rng.IntN(3) == 0 {
				g := f.Glyphs[names[rng.IntN(len(names))]]
				g.Cmds = []type1.GlyphOp{{Op: type1.OpMoveTo, Args: []float64{0, 0}}, {Op: type1.OpLineTo, Args: []float64{0, 0}}, {Op: type1.OpClosePath}}
				o.f("glyph whose box is legitimately zero")
			}
			if rng.IntN(3) == 0 {
				g := f.Glyphs[names[rng.IntN(len(names))]]
				g.Cmds = nil
				g.MoveTo(0, 0)
				g.LineTo(float64(1+rng.IntN(500)), 0)
				g.LineTo(float64(1+rng.IntN(500)), float64(1+rng.IntN(500)))
				g.ClosePath()
				o.f("glyph with an extremal end point at the origin")
			}
			if rng.IntN(5) == 0 {
				// a glyph (or all of them) far away from the origin, beyond the
				// range of 16-bit font units on one side
				dx := []float64{0, 40000, -40000, 32768, -32769, 70000, 1e6, -2.5e6}[rng.IntN(8)]
				dy := []float64{0, 40000, -40000, 32768, -32769, -70000, 1e6}[rng.IntN(7)]
				which := names[rng.IntN(len(names))]
				all := rng.IntN(3) == 0
				for _, nme := range names {
					if !all && nme != which {
						continue
					}
					for _, cmd := range f.Glyphs[nme].Cmds {
						for i := range cmd.Args {
							if i%2 == 0 {
								cmd.Args[i] += dx
							} else {
								cmd.Args[i] += dy
							}
						}
					}
				}
				o.f("glyph beyond the 16-bit coordinate range")
			}
			c.SetDetail(func() string { return describeFont(f) })
			glyphs := map[string]bool{}
			for _, nme := range names {
				glyphs[nme] = true
			}
			if msg := checkGlyphList(f.GlyphList(), glyphs, f.Encoding, f.NumGlyphs()); msg != "" {
				c.Violation("type1|glyphlist|"+msgClass(msg), "type1.Font: "+msg, "")
			}
			M := f.FontMatrix
			toPDF := func(x, y float64) (float64, float64) {
				return (x*M[0] + y*M[2] + M[4]) * 1000, (x*M[1] + y*M[3] + M[5]) * 1000
			}
			// magnitude of the terms in toPDF over all points of the font
			var magX, magY float64
			for _, g := range f.Glyphs {
				for _, cmd := range g.Cmds {
					for k := 0; k+1 < len(cmd.Args); k += 2 {
						x, y := math.Abs(cmd.Args[k]), math.Abs(cmd.Args[k+1])
						magX = math.Max(magX, (x*math.Abs(M[0])+y*math.Abs(M[2])+math.Abs(M[4]))*1000)
						magY = math.Max(magY, (x*math.Abs(M[1])+y*math.Abs(M[3])+math.Abs(M[5]))*1000)
					}
				}
			}
			var boxes, boxesPDF []rect.Rect
			wm := f.WidthsMapPDF()
			if len(wm) != len(f.Glyphs) {
				c.Violation("type1|widthsmap-size", fmt.Sprintf("WidthsMapPDF() has %d entries for %d glyphs", len(wm), len(f.Glyphs)), "")
			}
			query := append([]string(nil), names...)
			query = append(query, "nosuchglyph", "", ".notdef", "A.missing", ".", "..", "a.b.c")
			// absent names made from present ones: with a suffix, without one, upper-cased, doubled
			for i, nme := range names {
				if i%3 == 0 && nme != "" {
					for _, q := range []string{nme + ".sc", nme + ".alt1", nme + ".", nme + "_" + nme, nme + nme, strings.ToUpper(nme) + "x", nme[:len(nme)-1]} {
						if _, ok := f.Glyphs[q]; !ok {
							query = append(query, q)
						}
					}
				}
			}
			for _, nme := range query {
				g := f.Glyphs[nme]
				var wantBox, wantPDF rect.Rect
				if g != nil {
					wantBox = glyphBox(g, func(x, y float64) (float64, float64) { return x, y })
					wantPDF = glyphBox(g, toPDF)
					boxes = append(boxes, wantBox)
					boxesPDF = append(boxesPDF, wantPDF)
					if got := g.BBox(); !rectClose(got, wantBox) {
						c.Violation("type1|glyph-bbox", fmt.Sprintf("glyph %q: BBox() = %v, re-computed %v", nme, got, wantBox), "")
					}
				}
				if got := f.GlyphBBoxPDF(nme); !rectCloseMag(got, wantPDF, magX, magY) {
					c.Violation("type1|glyph-bbox-pdf", fmt.Sprintf("GlyphBBoxPDF(%q) = %v, re-computed %v (glyph present: %v)", nme, got, wantPDF, g != nil), "")
				}
				// width
				wg := g
				if wg == nil {
					wg = f.Glyphs[".notdef"]
				}
				wantW := 0.0
				if wg != nil {
					wantW = wg.WidthX * M[0] * 1000
				}
				if got := f.GlyphWidthPDF(nme); !relClose(got, wantW) {
					c.Violation("type1|width-pdf", fmt.Sprintf("GlyphWidthPDF(%q) = %v, advance x horizontal scale x 1000 = %v (glyph present: %v)", nme, got, wantW, g != nil), "")
				}
				if g != nil {
					if got, ok := wm[nme]; !ok || !relClose(got, wantW) {
						c.Violation("type1|widthsmap", fmt.Sprintf("WidthsMapPDF()[%q] = %v (present %v), expected %v", nme, got, ok, wantW), "")
					}
				}
				c.Eval()
			}
			// the union is taken once per distinct glyph (query repeats .notdef)
			if got, want := f.FontBBox(), unionBoxes(boxes); !rectClose(got, want) {
				c.Violation("type1|font-bbox", fmt.Sprintf("FontBBox() = %v, union of the non-empty glyph boxes = %v", got, want), "")
			}
			if got, want := f.FontBBoxPDF(), unionBoxes(boxesPDF); !rectCloseMag(got, want, magX, magY) {
				c.Violation("type1|font-bbox-pdf", fmt.Sprintf("FontBBoxPDF() = %v, union of the non-empty glyph boxes = %v", got, want), "")
			}
			for ft := range o.features {
				c.Count("feature: " + ft)
			}
			c.Count("type1 fonts queried")
			c.Nontrivial([]byte("t1|"+describeFont(f)), func() string { return head([]byte(describeFont(f)), 400) })
		})
		r.Case("afm", func(c *rt.C) {
			rng := c.Rand()
			o := &afmOpts{features: map[string]bool{}}
			m := genMetrics(rng, o, 14)
			c.SetDetail(func() string { return describeMetrics(m) })
			names := sortedMetricNames(m)
			glyphs := map[string]bool{}
			var boxes []rect.Rect
			for _, nme := range names {
				glyphs[nme] = true
				boxes = append(boxes, m.Glyphs[nme].BBox)
			}
			if msg := checkGlyphList(m.GlyphList(), glyphs, m.Encoding, m.NumGlyphs()); msg != "" {
				c.Violation("afm|glyphlist|"+msgClass(msg), "afm.Metrics: "+msg, "")
			}
			if got, want := m.FontBBoxPDF(), unionBoxes(boxes); !rectClose(got, want) {
				c.Violation("afm|font-bbox-pdf", fmt.Sprintf("FontBBoxPDF() = %v, union of the non-empty glyph boxes = %v", got, want), "")
			}
			aq := append(append([]string(nil), names...), "nosuchglyph", "", ".", "a.b")
			for i, nme := range names {
				if i%3 == 0 && nme != "" {
					for _, q := range []string{nme + ".sc", nme + ".", nme + nme, nme[:len(nme)-1]} {
						if _, ok := m.Glyphs[q]; !ok {
							aq = append(aq, q)
						}
					}
				}
			}
			for _, nme := range aq {
				g := m.Glyphs[nme]
				if g == nil {
					g = m.Glyphs[".notdef"]
				}
				want := 0.0
				if g != nil {
					want = g.WidthX
				}
				if got := m.GlyphWidthPDF(nme); got != want {
					c.Violation("afm|width-pdf", fmt.Sprintf("GlyphWidthPDF(%q) = %v, expected %v", nme, got, want), "")
				}
				c.Eval()
			}
			for ft := range o.features {
				c.Count("feature: afm " + ft)
			}
			c.Count("afm metrics queried")
			c.Nontrivial([]byte("afm|"+describeMetrics(m)), nil)
		})
	}
	_ = afm.Metrics{}
}

func msgClass(msg string) string {
	for _, k := range []string{"NumGlyphs()", "len(GlyphList())", "start with .notdef", "twice", "not a glyph", "lacks", "not encoded", "out of code order", "name order"} {
		if len(msg) >= len(k) && containsStr(msg, k) {
			return k
		}
	}
	return "other"
}

func containsStr(s, sub string) bool {
	for i := 0; i+len(sub) <= len(s); i++ {
		if s[i:i+len(sub)] == sub {
			return true
		}
	}
	return false
}
