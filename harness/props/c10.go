package props

// C10 — Any font that was read can be written and re-read without further change.
//
// Round-trip/idempotence monitor over inputs that type1.Read accepts: files
// produced by the independent writer with unusual but legal content, and
// structure-aware mutations of them. F1 = Read(x); for each format
// F2 = Read(Write(F1)) must equal F1 up to the documented quantisation
// (widths rounded, coordinates within 1/214, BlueScale snapped to its default
// within 1e-6); F3 = Read(Write(F2)) must equal F2 exactly.

import (
	"bytes"
	"fmt"
	"math"
	"math/rand/v2"
	"regexp"

	"seehuhn.de/go/postscript/type1"

	"verif/harness/ref"
	"verif/harness/rt"
)

func init() { register("C10", runC10) }

func fontHasNonFinite(f *type1.Font) bool {
	bad := func(v float64) bool { return math.IsNaN(v) || math.IsInf(v, 0) }
	if bad(f.ItalicAngle) || bad(float64(f.UnderlinePosition)) || bad(float64(f.UnderlineThickness)) || bad(f.Private.BlueScale) || bad(f.Private.StdHW) || bad(f.Private.StdVW) {
		return true
	}
	for _, v := range f.FontMatrix {
		if bad(v) {
			return true
		}
	}
	for _, g := range f.Glyphs {
		if bad(g.WidthX) || bad(g.WidthY) {
			return true
		}
		for _, c := range g.Cmds {
			for _, a := range c.Args {
				if bad(a) {
					return true
				}
			}
		}
	}
	return false
}

// mutateFontText applies a structure-aware mutation to the clear-text part
// of an unencrypted font program.
func mutateFontText(rng *rand.Rand, data []byte) []byte {
	s := string(data)
	repl := [][2]string{
		{"/FontType 1 def", "/FontType 1 def /ExtraKey (x) def"},
		{"/PaintType 0 def", ""},
		{"/isFixedPitch true def", "/isFixedPitch (yes) def"},
		{"/ItalicAngle ", "/ItalicAngle 0 def /Ignored "},
		{"/UnderlinePosition ", "/UnderlineThickness "},
		{"/password 5839 def", ""},
		{"/FullName ", "/FullName /"},
		{"/Weight ", "/Weight 5 def /Wt "},
		{"/BlueValues ", "/BlueValues [] def /Bv "},
		{"/Encoding StandardEncoding def", "/Encoding 0 array def"},
		{"/Encoding StandardEncoding def", "/Encoding 5 array def"},
		{"/Encoding StandardEncoding def", "/Encoding (none) def"},
		{"/Encoding 256 array", "/Encoding 0 array def /EncodingWas 256 array"},
		{"/FontMatrix [", "/FontMatrix [0.001 0 0 0.001 0 0] def /FontMatrixWas ["},
		{"/FontBBox {", "/FontBBox [0 0 0 0] def /FontBBoxWas {"},
	}
	if rng.IntN(5) == 0 {
		// a CharStrings (or Subrs-free) entry keyed by a string instead of a name
		// literal, the string holding characters no name token can hold (most
		// interpreters convert string keys to names; if the reader accepts such
		// a file, the font it returns must still be writable)
		if loc := charStringKeyRe.FindSubmatchIndex(data); loc != nil {
			key := []string{"(A B)", "(a/b)", "(x(y)z)", "()", "(%)", "(two words)"}[rng.IntN(6)]
			out := append([]byte(nil), data[:loc[2]-1]...)
			out = append(out, key...)
			out = append(out, data[loc[3]:]...)
			return out
		}
	}
	r := repl[rng.IntN(len(repl))]
	return []byte(stringsReplaceOnce(s, r[0], r[1]))
}

// "/name 123 RD " or "/name 123 -| " at the start of a line: a charstring entry
var charStringKeyRe = regexp.MustCompile(`\n/([A-Za-z][A-Za-z0-9.]*) [0-9]+ (?:RD|-\|) `)

func stringsReplaceOnce(s, old, new string) string {
	i := bytes.Index([]byte(s), []byte(old))
	if i < 0 {
		return s
	}
	return s[:i] + new + s[i+len(old):]
}

func runC10(r *rt.Runner) {
	wildModel = true
	n := r.N(12000, 150000)
	for k := 0; k < n; k++ {
		r.Case("accepted", func(c *rt.C) {
			rng := c.Rand()
			mf := genModelFont(rng)
			if rng.IntN(4) == 0 {
				mf.lay.Container = "plain"
			}
			x := ref.RenderType1(rng, mf.w, mf.lay)
			mutated := false
			if mf.lay.Container == "plain" && rng.IntN(2) == 0 {
				x = mutateFontText(rng, x)
				mutated = true
			}
			c.SetDetail(func() string {
				return fmt.Sprintf("input produced by the independent writer (container %s, mutated %v); head: %q", mf.lay.Container, mutated, head(x, 2500))
			})
			f1, err := type1.Read(bytes.NewReader(x))
			if err != nil {
				c.Skip("input not accepted by the reader")
				return
			}
			if fontHasNonFinite(f1) {
				c.Skip("non-finite numbers")
				return
			}
			c.Count("accepted inputs")
			if mutated {
				c.Count("accepted mutated inputs")
			}
			for _, fm := range allFormats {
				cycle := func(f *type1.Font, tag string) *type1.Font {
					var buf bytes.Buffer
					var werr error
					func() {
						defer func() {
							if p := recover(); p != nil {
								werr = fmt.Errorf("panic: %v", p)
							}
						}()
						werr = f.Write(&buf, &type1.WriterOptions{Format: fm.f})
					}()
					c.Eval()
					if werr != nil {
						c.Violation("write-fails|"+errClass(werr), fmt.Sprintf("%s: writing a font that was read (%s) fails: %v", tag, fm.name, werr), "font:\n"+describeFont(f))
						return nil
					}
					g, err := type1.Read(bytes.NewReader(buf.Bytes()))
					if err != nil {
						c.Violation("reread-fails|"+errClass(err), fmt.Sprintf("%s: the %s output is not accepted by the reader: %v", tag, fm.name, err), "font:\n"+describeFont(f)+"\nwritten (head): "+fmt.Sprintf("%q", head(buf.Bytes(), 1200)))
						return nil
					}
					return g
				}
				f2 := cycle(f1, "first cycle")
				if f2 == nil {
					continue
				}
				if d := compareFonts(f1, f2, fontTol{coord: bound214, roundWidth: true, blueSnap: true}); len(d) > 0 {
					c.Violation("first-cycle|"+diffKind(d[0]), fmt.Sprintf("Read(Write(F1, %s)) differs from F1 by more than the documented quantisation:\n  %s", fm.name, joinLines(d)), "F1:\n"+describeFont(f1))
					continue
				}
				f3 := cycle(f2, "second cycle")
				if f3 == nil {
					continue
				}
				if d := compareFonts(f2, f3, fontTol{coord: 0}); len(d) > 0 {
					c.Violation("second-cycle|"+diffKind(d[0]), fmt.Sprintf("a second write/read cycle (%s) still changes the font:\n  %s", fm.name, joinLines(d)), "F2:\n"+describeFont(f2))
				}
				c.Count("two cycles completed " + fm.name)
			}
			for ft := range mf.feat {
				c.Count("feature: " + ft)
			}
			c.Nontrivial(x, func() string {
				return fmt.Sprintf("%d glyphs, container %s, mutated %v", len(f1.Glyphs), mf.lay.Container, mutated)
			})
		})
	}
}
