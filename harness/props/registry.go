// Package props holds one workload+oracle per property.
package props

import "verif/harness/rt"

// Registry maps property ids to their workloads.
var Registry = map[string]func(r *rt.Runner){}

func register(id string, f func(r *rt.Runner)) { Registry[id] = f }
