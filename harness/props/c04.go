package props

// C04 — Tokenizer reads every PostScript lexical form as the object it denotes.
//
// The generator is the model: it draws an object sequence, then independently
// a spelling for every object and a separator for every gap, renders
// `{ ... }`, executes it and compares the procedure pushed by the library
// element by element with the drawn objects. DSC comment lines are inserted at
// column 0 and compared with Interpreter.DSC. The serialisation clause is
// checked by reading String.PS()/Name.PS() back.
//
// Expected classification of bare tokens (number or name) comes from
// ref.ParseNumber, an independent transcription of PLRM 3.2.2.

import (
	"bytes"
	"fmt"
	"math"
	"math/big"
	"math/rand/v2"
	"strconv"
	"strings"

	"seehuhn.de/go/postscript"

	"verif/harness/ref"
	"verif/harness/rt"
)

func init() { register("C04", runC04) }

// tokObj is an expected object.
type tokObj struct {
	kind string // int real str name xname proc
	i    int64
	f    float64
	s    []byte
	sub  []tokObj
}

type spelled struct {
	text       []byte
	startDelim bool // begins with a delimiter character
	endDelim   bool // ends self-delimited
	feature    string
}

func cmpTok(got postscript.Object, want tokObj, path string) string {
	switch want.kind {
	case "int":
		if v, ok := got.(postscript.Integer); !ok || int64(v) != want.i {
			return fmt.Sprintf("%s: got %s, want integer %d", path, libShow(got), want.i)
		}
	case "real":
		if v, ok := got.(postscript.Real); !ok || !(float64(v) == want.f || (math.IsNaN(want.f) && math.IsNaN(float64(v)))) {
			return fmt.Sprintf("%s: got %s, want real %v", path, libShow(got), want.f)
		}
	case "str":
		if v, ok := got.(postscript.String); !ok || !bytes.Equal(v, want.s) {
			return fmt.Sprintf("%s: got %s, want string %q", path, libShow(got), want.s)
		}
	case "name":
		if v, ok := got.(postscript.Name); !ok || string(v) != string(want.s) {
			return fmt.Sprintf("%s: got %s, want literal name /%q", path, libShow(got), want.s)
		}
	case "xname":
		if v, ok := got.(postscript.Operator); !ok || string(v) != string(want.s) {
			return fmt.Sprintf("%s: got %s, want executable name %q", path, libShow(got), want.s)
		}
	case "proc":
		v, ok := got.(postscript.Procedure)
		if !ok {
			return fmt.Sprintf("%s: got %s, want a procedure", path, libShow(got))
		}
		if len(v) != len(want.sub) {
			var parts []string
			for _, o := range v {
				parts = append(parts, libShow(o))
			}
			return fmt.Sprintf("%s: procedure has %d elements, want %d; got: %s", path, len(v), len(want.sub), strings.Join(parts, " "))
		}
		for i := range v {
			if d := cmpTok(v[i], want.sub[i], fmt.Sprintf("%s[%d]", path, i)); d != "" {
				return d
			}
		}
	}
	return ""
}

// ---------------------------------------------------------------- spellings

type g4 struct {
	rng  *rand.Rand
	feat map[string]bool
}

func (g *g4) f(name string) { g.feat[name] = true }

var intPool = []int64{0, 1, -1, 7, 10, 255, 256, 65535, 65536, 1 << 31, -(1 << 31), 1<<31 - 1, 1 << 53, -(1 << 53), 1<<53 + 1,
	math.MaxInt64, math.MaxInt64 - 1, math.MinInt64, math.MinInt64 + 1, 1000000007, -42}

func (g *g4) intObj() (tokObj, spelled) {
	var v int64
	if g.rng.IntN(3) == 0 {
		v = intPool[g.rng.IntN(len(intPool))]
	} else {
		v = int64(g.rng.Uint64()>>uint(g.rng.IntN(64))) - int64(g.rng.IntN(3))*1000
	}
	o := tokObj{kind: "int", i: v}
	switch g.rng.IntN(6) {
	case 0: // radix
		if v >= 0 {
			base := 2 + g.rng.IntN(35)
			d := strconv.FormatInt(v, base)
			b := []byte(d)
			for i := range b {
				if g.rng.IntN(2) == 0 {
					b[i] = byte(strings.ToUpper(string(b[i]))[0])
				}
			}
			g.f("radix number")
			return o, spelled{text: []byte(fmt.Sprintf("%d#%s", base, b))}
		}
	case 1: // leading zeros / plus sign
		s := strconv.FormatInt(v, 10)
		sign := ""
		if s[0] == '-' {
			sign, s = "-", s[1:]
		} else if g.rng.IntN(2) == 0 {
			sign = "+"
		}
		g.f("signed / zero-padded integer")
		pad := g.rng.IntN(4)
		if g.rng.IntN(6) == 0 {
			// a fixed-width field: the spelling is longer than any integer's shortest one
			pad = []int{16, 19, 20, 21, 22, 30, 40, 64}[g.rng.IntN(8)] - len(s)
			if pad < 0 {
				pad = 0
			}
			g.f("integer padded with zeros to 16-64 digits")
		}
		return o, spelled{text: []byte(sign + strings.Repeat("0", pad) + s)}
	}
	return o, spelled{text: []byte(strconv.FormatInt(v, 10))}
}

func (g *g4) bigIntObj() (tokObj, spelled) {
	// beyond the integer range: read as a real
	digits := "9223372036854775808"
	switch g.rng.IntN(4) {
	case 0:
		digits = "18446744073709551616"
	case 1:
		digits = "123456789012345678901234567890"
	case 2:
		digits = "9223372036854775809"
	}
	if g.rng.IntN(2) == 0 && digits != "9223372036854775808" {
		digits = "-" + digits
	}
	f, _ := strconv.ParseFloat(digits, 64)
	g.f("integer beyond the 64-bit range (real)")
	return tokObj{kind: "real", f: f}, spelled{text: []byte(digits)}
}

func (g *g4) realObj() (tokObj, spelled) {
	var s string
	mant := func() string {
		a := strconv.Itoa(g.rng.IntN(100000))
		b := strconv.Itoa(g.rng.IntN(100000))
		switch g.rng.IntN(4) {
		case 0:
			return a + "."
		case 1:
			return "." + b
		case 2:
			return a + "." + b
		}
		return strings.Repeat("0", g.rng.IntN(3)) + a + "." + b + strings.Repeat("0", g.rng.IntN(3))
	}
	switch g.rng.IntN(5) {
	case 0:
		s = mant()
	case 1:
		s = strconv.Itoa(g.rng.IntN(1000)) + []string{"e", "E"}[g.rng.IntN(2)] + []string{"", "+", "-"}[g.rng.IntN(3)] + strconv.Itoa(g.rng.IntN(40))
	case 2:
		s = mant() + []string{"e", "E"}[g.rng.IntN(2)] + []string{"", "+", "-"}[g.rng.IntN(3)] + strconv.Itoa(g.rng.IntN(300))
	case 3:
		s = []string{"0.0", "1.", ".5", "0.", ".0", "1e0", "1E5", "3.14159", "1e-5", "123456789.123456789", "0.1", "1e22", "1e23", "4.9e-324", "1.7976931348623157e308", "2.2250738585072011e-308"}[g.rng.IntN(16)]
	case 4:
		s = strconv.FormatFloat(math.Float64frombits(g.rng.Uint64()), 'g', -1, 64)
		if !strings.ContainsAny(s, ".e") || strings.ContainsAny(s, "IN") {
			s = "2.5"
		}
	}
	switch g.rng.IntN(4) {
	case 0:
		s = "-" + s
	case 1:
		s = "+" + s
	}
	s = strings.Replace(s, "e+", []string{"e+", "e", "E+"}[g.rng.IntN(3)], 1)
	f, err := strconv.ParseFloat(s, 64)
	if err != nil || math.IsInf(f, 0) {
		s, f = "1.5", 1.5
	}
	g.f("real")
	return tokObj{kind: "real", f: f}, spelled{text: []byte(s)}
}

// near-numbers that are names under PLRM 3.2.2
var nearNumbers = []string{"1e", "e5", "1.2.3", "--5", "+", ".", "-", "1#0", "37#1", "10#-5", "+16#10", "16#", "0x1p4", "1_0", "1_000.5",
	"Inf", "NaN", "infinity", "0x10", "1e+", ".e5", "+.", "-.e1", "1E", "0b1", "0o7", "1__0", "1_", "_1", "8#9", "2#2", "16#G", "1#", "#1", "1e5e5",
	"+-1", "1-", "1+1", "0x", "1.e", "e", "E1", "-e1", "1,5", "1'000", "+Inf", "-inf", "nan", "1e1.5", "0X1P4", "1_0#1", "36#Z_", "1.0f", "0x1.8p1", "1p4"}

// radix numbers around the ends of the 64-bit range, in bases that are and are not
// powers of two (what lies beyond the integer range is not a number of this form)
func init() {
	two64 := new(big.Int).Lsh(big.NewInt(1), 64)
	two63 := new(big.Int).Lsh(big.NewInt(1), 63)
	for _, base := range []int{2, 3, 5, 7, 8, 10, 11, 16, 29, 36} {
		for _, ref := range []*big.Int{two63, two64, new(big.Int).Lsh(big.NewInt(1), 65), new(big.Int).Lsh(big.NewInt(1), 80)} {
			for d := int64(-3); d <= 40; d++ {
				if d > 6 && d%7 != 0 {
					continue
				}
				v := new(big.Int).Add(ref, big.NewInt(d))
				nearNumbers = append(nearNumbers, fmt.Sprintf("%d#%s", base, v.Text(base)))
			}
		}
	}
}

func isRegularByte(b byte) bool {
	if b <= 32 {
		return false
	}
	switch b {
	case '(', ')', '<', '>', '[', ']', '{', '}', '/', '%':
		return false
	}
	return true
}

func (g *g4) nameBytes() []byte {
	n := 1 + g.rng.IntN(10)
	b := make([]byte, n)
	for i := range b {
		for {
			var c byte
			switch g.rng.IntN(4) {
			case 0:
				c = byte(33 + g.rng.IntN(223))
			default:
				c = "abcdefghijklmnopqrstuvwxyzABCDEFGHIJKLMNOPQRSTUVWXYZ0123456789.-_+#*!$&',:;=?@\\^`|~\""[g.rng.IntN(84)]
			}
			if isRegularByte(c) {
				b[i] = c
				break
			}
		}
	}
	return b
}

func (g *g4) nameObj() (tokObj, spelled) {
	var b []byte
	switch g.rng.IntN(8) {
	case 0:
		b = []byte(nearNumbers[g.rng.IntN(len(nearNumbers))])
		g.f("near-number name")
	case 1:
		b = []byte{}
	default:
		b = g.nameBytes()
	}
	literal := g.rng.IntN(2) == 0 || len(b) == 0
	if literal {
		if len(b) == 0 {
			g.f("empty literal name")
		}
		g.f("literal name")
		return tokObj{kind: "name", s: b}, spelled{text: append([]byte{'/'}, b...), startDelim: true}
	}
	// a bare token: number or executable name, as PLRM 3.2.2 says
	if o, ok := ref.ParseNumber(b); ok {
		switch o := o.(type) {
		case ref.Int:
			return tokObj{kind: "int", i: int64(o)}, spelled{text: b}
		case ref.Real:
			return tokObj{kind: "real", f: float64(o)}, spelled{text: b}
		}
	}
	g.f("executable name")
	return tokObj{kind: "xname", s: b}, spelled{text: b}
}

func (g *g4) strBytes() []byte {
	n := g.rng.IntN(24)
	if g.rng.IntN(10) == 0 {
		n = 200 + g.rng.IntN(700)
	}
	b := make([]byte, n)
	for i := range b {
		switch g.rng.IntN(6) {
		case 0:
			b[i] = byte(g.rng.IntN(256))
		case 1:
			const special = "()\\\r\n\t\b\f%<>{}[]/ \x00"
			b[i] = special[g.rng.IntN(len(special))]
		default:
			b[i] = byte(32 + g.rng.IntN(95))
		}
	}
	if n >= 4 && g.rng.IntN(6) == 0 {
		// runs of extreme byte values (the largest and smallest 4-byte groups of
		// the binary-to-text encodings)
		start := g.rng.IntN(n - 3)
		ln := 4 + g.rng.IntN(min(13, n-start-3))
		v := []byte{0xFF, 0xFF, 0x00, 0xFE, 0x80}[g.rng.IntN(5)]
		for i := start; i < start+ln && i < n; i++ {
			b[i] = v
		}
		if g.rng.IntN(2) == 0 && start+ln-1 < n {
			b[start+ln-1] = byte(0xA0 + g.rng.IntN(0x60))
		}
		g.feat["string with a run of extreme bytes"] = true
	}
	return b
}

// parenString spells bytes as a literal string with random escape choices.
func (g *g4) parenString(val []byte) []byte {
	// decide which parentheses can stay raw: those that are balanced
	match := make([]bool, len(val))
	var stack []int
	for i, c := range val {
		if c == '(' {
			stack = append(stack, i)
		} else if c == ')' && len(stack) > 0 {
			j := stack[len(stack)-1]
			stack = stack[:len(stack)-1]
			if g.rng.IntN(4) > 0 && len(stack) < 6 {
				match[i], match[j] = true, true
			}
		}
	}
	// raw parens must be properly nested as a whole: recompute conservatively
	depth := 0
	for i, c := range val {
		if !match[i] {
			continue
		}
		if c == '(' {
			depth++
		} else {
			depth--
		}
		_ = depth
	}
	out := []byte{'('}
	cont := func() {
		if g.rng.IntN(12) == 0 {
			g.f("line continuation in string")
			out = append(out, '\\')
			out = append(out, []string{"\n", "\r", "\r\n"}[g.rng.IntN(3)]...)
		}
	}
	for i := 0; i < len(val); i++ {
		c := val[i]
		cont()
		nextIsDigit := i+1 < len(val) && val[i+1] >= '0' && val[i+1] <= '9'
		octal := func() {
			digits := 3
			if !nextIsDigit {
				digits = 1 + g.rng.IntN(3)
			}
			s := strconv.FormatInt(int64(c), 8)
			for len(s) < digits {
				s = "0" + s
			}
			g.f("octal escape")
			out = append(out, '\\')
			out = append(out, s...)
		}
		switch {
		case c == '(' || c == ')':
			if match[i] {
				g.f("balanced raw parentheses")
				out = append(out, c)
			} else if g.rng.IntN(3) == 0 {
				octal()
			} else {
				out = append(out, '\\', c)
			}
		case c == '\\':
			if g.rng.IntN(3) == 0 {
				octal()
			} else {
				out = append(out, '\\', '\\')
			}
		case c == '\n':
			// a raw LF, CR or CRLF inside a string reads as one LF; a raw LF
			// right after a raw CR would pair up, so it is escaped then
			k := g.rng.IntN(6)
			prevRawCR := len(out) > 0 && out[len(out)-1] == '\r'
			switch {
			case k == 0 && !prevRawCR:
				g.f("raw LF in string")
				out = append(out, '\n')
			case k == 1:
				g.f("raw CR in string")
				out = append(out, '\r')
			case k == 2:
				g.f("raw CRLF in string")
				out = append(out, '\r', '\n')
			case k == 3:
				out = append(out, '\\', 'n')
			default:
				octal()
			}
		case c == '\r':
			if g.rng.IntN(2) == 0 {
				out = append(out, '\\', 'r')
			} else {
				octal()
			}
		case c == '\t' || c == '\b' || c == '\f':
			k := g.rng.IntN(3)
			if k == 0 {
				out = append(out, '\\', map[byte]byte{'\t': 't', '\b': 'b', '\f': 'f'}[c])
			} else if k == 1 {
				out = append(out, c)
			} else {
				octal()
			}
		default:
			k := g.rng.IntN(12)
			if k == 0 {
				octal()
			} else if k == 1 && !strings.ContainsRune("nrtbf01234567\n\r()\\", rune(c)) {
				g.f("unknown escape (backslash ignored)")
				out = append(out, '\\', c)
			} else {
				out = append(out, c)
			}
		}
	}
	cont()
	return append(out, ')')
}

func (g *g4) hexString(val []byte) ([]byte, []byte) {
	out := []byte{'<'}
	ws := func() {
		for g.rng.IntN(8) == 0 {
			out = append(out, " \t\r\n\f\x00"[g.rng.IntN(6)])
		}
	}
	digits := "0123456789abcdef"
	if g.rng.IntN(2) == 0 {
		digits = "0123456789ABCDEF"
	}
	for _, c := range val {
		ws()
		out = append(out, digits[c>>4])
		ws()
		out = append(out, digits[c&15])
	}
	want := val
	if g.rng.IntN(4) == 0 {
		// odd digit count: the last digit is the high nibble of a final byte
		d := g.rng.IntN(16)
		ws()
		out = append(out, digits[d])
		want = append(append([]byte(nil), val...), byte(d<<4))
		g.f("hex string with odd digit count")
	}
	ws()
	g.f("hex string")
	return append(out, '>'), want
}

func (g *g4) a85String(val []byte) []byte {
	out := []byte("<~")
	ws := func() {
		for g.rng.IntN(10) == 0 {
			out = append(out, " \t\r\n"[g.rng.IntN(4)])
		}
	}
	for i := 0; i < len(val); i += 4 {
		chunk := val[i:min(i+4, len(val))]
		var v uint32
		for j := 0; j < 4; j++ {
			v <<= 8
			if j < len(chunk) {
				v |= uint32(chunk[j])
			}
		}
		ws()
		if len(chunk) == 4 && v == 0 && g.rng.IntN(3) > 0 {
			out = append(out, 'z')
			g.f("ascii85 z group")
			continue
		}
		var d [5]byte
		for j := 4; j >= 0; j-- {
			d[j] = byte(v%85) + '!'
			v /= 85
		}
		for j := 0; j < len(chunk)+1; j++ {
			ws()
			out = append(out, d[j])
		}
	}
	ws()
	g.f(fmt.Sprintf("ascii85 tail length %d", len(val)%4))
	return append(out, '~', '>')
}

func (g *g4) strObj() (tokObj, spelled) {
	val := g.strBytes()
	switch g.rng.IntN(4) {
	case 0:
		text, want := g.hexString(val)
		return tokObj{kind: "str", s: want}, spelled{text: text, startDelim: true, endDelim: true}
	case 1:
		return tokObj{kind: "str", s: val}, spelled{text: g.a85String(val), startDelim: true, endDelim: true}
	}
	g.f("literal string")
	return tokObj{kind: "str", s: val}, spelled{text: g.parenString(val), startDelim: true, endDelim: true}
}

func (g *g4) delimObj() (tokObj, spelled) {
	d := []string{"[", "]", "<<", ">>"}[g.rng.IntN(4)]
	g.f("delimiter token " + d)
	return tokObj{kind: "xname", s: []byte(d)}, spelled{text: []byte(d), startDelim: true, endDelim: true}
}

type dscLine struct{ key, value string }

// sequence renders objects with separators; DSC lines are only placed at the
// outermost level (dsc != nil).
func (g *g4) sequence(depth int, n int, out *bytes.Buffer, dsc *[]dscLine, col0 *bool) []tokObj {
	var objs []tokObj
	prevEndDelim := true // after '{' or at the start
	prevEmptyName := false
	for i := 0; i < n; i++ {
		var o tokObj
		var sp spelled
		k := g.rng.IntN(20)
		switch {
		case k < 4:
			o, sp = g.intObj()
		case k < 5:
			o, sp = g.bigIntObj()
		case k < 8:
			o, sp = g.realObj()
		case k < 12:
			o, sp = g.nameObj()
		case k < 16:
			o, sp = g.strObj()
		case k < 18:
			o, sp = g.delimObj()
		default:
			if depth < 3 {
				// nested procedure
				g.f("nested procedure")
				g.sep(out, prevEndDelim && !prevEmptyName, true, dsc, col0)
				out.WriteByte('{')
				*col0 = false
				sub := g.sequence(depth+1, g.rng.IntN(4), out, nil, col0)
				g.sep(out, true, true, nil, col0)
				out.WriteByte('}')
				*col0 = false
				objs = append(objs, tokObj{kind: "proc", sub: sub})
				prevEndDelim, prevEmptyName = true, false
				continue
			}
			o, sp = g.intObj()
		}
		canOmit := (prevEndDelim || sp.startDelim) && !(prevEmptyName && len(sp.text) > 0 && sp.text[0] == '/')
		if prevEmptyName && !sp.startDelim {
			canOmit = false
		}
		// "<" directly after "<" or ">" directly before ">" would change tokens
		if out.Len() > 0 && len(sp.text) > 0 {
			last := out.Bytes()[out.Len()-1]
			if (last == '<' && sp.text[0] == '<') || (last == '>' && sp.text[0] == '>') {
				canOmit = false
			}
		}
		g.sep(out, canOmit, false, dsc, col0)
		out.Write(sp.text)
		if len(sp.text) > 0 {
			lb := sp.text[len(sp.text)-1]
			*col0 = lb == '\n' || lb == '\r'
		}
		objs = append(objs, o)
		prevEndDelim = sp.endDelim
		prevEmptyName = o.kind == "name" && len(o.s) == 0
	}
	return objs
}

var wsChoices = []string{" ", "\t", "\r", "\n", "\r\n", "\f", "\x00"}

// sep writes a separator. canOmit: nothing at all is allowed here.
func (g *g4) sep(out *bytes.Buffer, canOmit, _ bool, dsc *[]dscLine, col0 *bool) {
	if canOmit && g.rng.IntN(3) == 0 {
		g.f("no separator")
		return
	}
	n := 1 + g.rng.IntN(3)
	for i := 0; i < n; i++ {
		switch k := g.rng.IntN(12); {
		case k < 8:
			w := wsChoices[g.rng.IntN(len(wsChoices))]
			g.f(fmt.Sprintf("separator %q", w))
			out.WriteString(w)
			*col0 = w[len(w)-1] == '\n' || w[len(w)-1] == '\r'
		case k < 10:
			// ordinary comment (a %% comment away from column 0 is ordinary too)
			eol := []string{"\n", "\r", "\r\n", "\f"}[g.rng.IntN(4)]
			if *col0 {
				out.WriteString(" ")
			}
			body := []string{"", "%", " a comment (with) {delims} <> [] /x", "%Key: not at column zero", "!PS", "\x00\x01binary\xff"}[g.rng.IntN(6)]
			g.f(fmt.Sprintf("comment ended by %q", eol))
			out.WriteString("%" + body + eol)
			*col0 = eol != "\f"
		default:
			if dsc == nil {
				out.WriteString(" ")
				*col0 = false
				continue
			}
			// a DSC line needs column 0
			if !*col0 && out.Len() > 0 {
				out.WriteString([]string{"\n", "\r", "\r\n"}[g.rng.IntN(3)])
			}
			key := string(g.dscKey())
			val := g.dscValue()
			line := "%%" + key
			full := val
			switch g.rng.IntN(4) {
			case 0:
				if val == "" {
					line += []string{":", ""}[g.rng.IntN(2)]
				} else {
					line += ":" + val
				}
			default:
				line += ": " + strings.Repeat(" ", g.rng.IntN(3)) + val
			}
			eol := []string{"\n", "\r", "\r\n"}[g.rng.IntN(3)]
			nextEOL := func() string { return eol }
			if g.rng.IntN(3) == 0 {
				// every line of the group with its own line end
				nextEOL = func() string { return []string{"\n", "\r", "\r\n"}[g.rng.IntN(3)] }
				g.f("DSC lines with mixed line ends")
			}
			line += nextEOL()
			for g.rng.IntN(4) == 0 {
				more := g.dscValue()
				if more == "" {
					more = "x"
				}
				line += "%%+" + strings.Repeat(" ", g.rng.IntN(3)) + more + nextEOL()
				full += " " + more
				g.f("DSC continuation line")
			}
			if g.rng.IntN(5) == 0 {
				// a key-less %% line (nothing is collected for it) before whatever follows
				line += "%%" + nextEOL()
				g.f("key-less %% line")
			}
			g.f(fmt.Sprintf("DSC line ended by %q", eol))
			out.WriteString(line)
			*dsc = append(*dsc, dscLine{key, full})
			*col0 = true
		}
	}
}

func (g *g4) dscKey() []byte {
	n := 1 + g.rng.IntN(12)
	b := make([]byte, n)
	for i := range b {
		for {
			c := byte(33 + g.rng.IntN(94))
			if c != ':' && !(i == 0 && c == '+') {
				b[i] = c
				break
			}
		}
	}
	return b
}

func (g *g4) dscValue() string {
	n := g.rng.IntN(20)
	if n == 0 {
		return ""
	}
	b := make([]byte, n)
	for i := range b {
		if g.rng.IntN(6) == 0 && i > 0 && i < n-1 {
			b[i] = " \t"[g.rng.IntN(2)]
		} else {
			b[i] = byte(33 + g.rng.IntN(94))
		}
	}
	return string(b)
}

// ---------------------------------------------------------------- runner

func runTokenCase(c *rt.C, text []byte, want []tokObj, wantDSC []dscLine, fp string) {
	c.SetDetail(func() string { return fmt.Sprintf("input: %q", text) })
	intp := postscript.NewInterpreter()
	intp.MaxOps = 100000
	err := intp.Execute(bytes.NewReader(text))
	if err != nil {
		c.Violation(fp+"|error", fmt.Sprintf("Execute failed: %v\ninput: %q", err, text), "")
		return
	}
	if len(intp.Stack) != 1 {
		c.Violation(fp+"|stack", fmt.Sprintf("expected exactly the procedure on the stack, found %d objects: %s\ninput: %q", len(intp.Stack), libStackShow(intp), text), "")
		return
	}
	if d := cmpTok(intp.Stack[0], tokObj{kind: "proc", sub: want}, "proc"); d != "" {
		c.Violation(fp+"|tokens", fmt.Sprintf("%s\ninput: %q", d, text), "")
		return
	}
	if wantDSC != nil || len(intp.DSC) > 0 {
		ok := len(intp.DSC) == len(wantDSC)
		if ok {
			for i := range wantDSC {
				if intp.DSC[i].Key != wantDSC[i].key || intp.DSC[i].Value != wantDSC[i].value {
					ok = false
				}
			}
		}
		if !ok {
			c.Violation(fp+"|dsc", fmt.Sprintf("DSC comments: got %q, want %q\ninput: %q", intp.DSC, wantDSC, text), "")
		}
	}
}

var c04Pinned = []struct {
	text string
	want []tokObj
}{
	{"{(a\r\n\nb)}", []tokObj{{kind: "str", s: []byte("a\n\nb")}}},
	{"{(a\r\rb)}", []tokObj{{kind: "str", s: []byte("a\n\nb")}}},
	{"{(a\n\rb)}", []tokObj{{kind: "str", s: []byte("a\n\nb")}}},
	{"{(a\r\n\r\nb)}", []tokObj{{kind: "str", s: []byte("a\n\nb")}}},
	{"{(a\\\r\n\nb)}", []tokObj{{kind: "str", s: []byte("a\nb")}}},
	{"{(a\rb\nc)}", []tokObj{{kind: "str", s: []byte("a\nb\nc")}}},
	{"{(a\\\rb\nc)}", []tokObj{{kind: "str", s: []byte("ab\nc")}}},
	{"{0x1p4}", []tokObj{{kind: "xname", s: []byte("0x1p4")}}},
	{"{1_0}", []tokObj{{kind: "xname", s: []byte("1_0")}}},
	{"{1_000.5}", []tokObj{{kind: "xname", s: []byte("1_000.5")}}},
	{"{0x10}", []tokObj{{kind: "xname", s: []byte("0x10")}}},
	{"{ %abc\f1 2\n3 }", []tokObj{{kind: "int", i: 1}, {kind: "int", i: 2}, {kind: "int", i: 3}}},
	{"{1 %x\r2 %y\r\n3 %z\n4}", []tokObj{{kind: "int", i: 1}, {kind: "int", i: 2}, {kind: "int", i: 3}, {kind: "int", i: 4}}},
	{"{(a)(b)/c/d 1(x)<41>/y]/z[1]}", []tokObj{{kind: "str", s: []byte("a")}, {kind: "str", s: []byte("b")}, {kind: "name", s: []byte("c")}, {kind: "name", s: []byte("d")},
		{kind: "int", i: 1}, {kind: "str", s: []byte("x")}, {kind: "str", s: []byte("A")}, {kind: "name", s: []byte("y")}, {kind: "xname", s: []byte("]")}, {kind: "name", s: []byte("z")},
		{kind: "xname", s: []byte("[")}, {kind: "int", i: 1}, {kind: "xname", s: []byte("]")}}},
	{"{<~87cURD]i,\"Ebo80~>}", []tokObj{{kind: "str", s: []byte("Hello World!")}}},
	{"{<~z~><~~><~!!~>}", []tokObj{{kind: "str", s: []byte{0, 0, 0, 0}}, {kind: "str", s: []byte{}}, {kind: "str", s: []byte{0}}}},
	{"{<> <4> <41 4> (\\101\\1\\18\\0101)}", []tokObj{{kind: "str", s: []byte{}}, {kind: "str", s: []byte{0x40}}, {kind: "str", s: []byte{0x41, 0x40}}, {kind: "str", s: []byte("A\x01\x018\x081")}}},
	{"{16#FF 2#101 36#zz 8#777 10#99 16#ff}", []tokObj{{kind: "int", i: 255}, {kind: "int", i: 5}, {kind: "int", i: 1295}, {kind: "int", i: 511}, {kind: "int", i: 99}, {kind: "int", i: 255}}},
}

func runC04(r *rt.Runner) {
	for i, p := range c04Pinned {
		p := p
		r.Case("pinned", func(c *rt.C) {
			runTokenCase(c, []byte(p.text), p.want, nil, fmt.Sprintf("pinned:%q", p.text))
			c.Nontrivial([]byte(fmt.Sprintf("pinned|%d", i)), func() string { return fmt.Sprintf("%q", p.text) })
		})
	}
	// control bytes that the PLRM treats as regular characters: one pinned
	// input per byte (kept out of the random generator, see DESIGN.md section 6)
	for b := 1; b < 32; b++ {
		if b == 9 || b == 10 || b == 12 || b == 13 {
			continue
		}
		b := b
		r.Case("pinned-control-byte", func(c *rt.C) {
			text := []byte{'{', '/', 'a', byte(b), 'b', '}'}
			runTokenCase(c, text, []tokObj{{kind: "name", s: []byte{'a', byte(b), 'b'}}}, nil, fmt.Sprintf("control-byte-in-name:%02x", b))
			c.Nontrivial(text, func() string { return fmt.Sprintf("%q", text) })
		})
	}
	// every byte value in each string flavour
	r.Case("all-bytes", func(c *rt.C) {
		g := &g4{rng: c.Rand(), feat: map[string]bool{}}
		all := make([]byte, 256)
		for i := range all {
			all[i] = byte(i)
		}
		for rep := 0; rep < 200; rep++ {
			perm := append([]byte(nil), all...)
			g.rng.Shuffle(len(perm), func(i, j int) { perm[i], perm[j] = perm[j], perm[i] })
			ht, hw := g.hexString(perm)
			for _, t := range []struct {
				text []byte
				want []byte
				kind string
			}{{g.parenString(perm), perm, "paren"}, {ht, hw, "hex"}, {g.a85String(perm), perm, "a85"}} {
				text := append(append([]byte{'{'}, t.text...), '}')
				runTokenCase(c, text, []tokObj{{kind: "str", s: t.want}}, nil, "all-bytes:"+t.kind)
				c.Eval()
				c.Nontrivial(text, nil)
			}
		}
		for f := range g.feat {
			c.Count("feature: " + f)
		}
	})
	// every near-number, bare and as a literal name
	r.Case("near-numbers", func(c *rt.C) {
		for _, s := range nearNumbers {
			var want tokObj
			if o, ok := ref.ParseNumber([]byte(s)); ok {
				switch o := o.(type) {
				case ref.Int:
					want = tokObj{kind: "int", i: int64(o)}
				case ref.Real:
					want = tokObj{kind: "real", f: float64(o)}
				}
			} else {
				want = tokObj{kind: "xname", s: []byte(s)}
			}
			runTokenCase(c, []byte("{"+s+"}"), []tokObj{want}, nil, "near-number:"+s)
			runTokenCase(c, []byte("{/"+s+" }"), []tokObj{{kind: "name", s: []byte(s)}}, nil, "near-number-literal:"+s)
			c.Eval()
			c.Nontrivial([]byte("near|"+s), func() string { return s })
		}
	})
	// every radix base with boundary values
	r.Case("radix", func(c *rt.C) {
		for base := 2; base <= 36; base++ {
			for _, v := range []int64{0, 1, int64(base - 1), int64(base), 255, 1 << 31, 1<<53 + 1, math.MaxInt64} {
				for _, up := range []bool{false, true} {
					d := strconv.FormatInt(v, base)
					if up {
						d = strings.ToUpper(d)
					}
					s := fmt.Sprintf("%d#%s", base, d)
					runTokenCase(c, []byte("{"+s+"}"), []tokObj{{kind: "int", i: v}}, nil, fmt.Sprintf("radix:%d", base))
					c.Eval()
					c.Nontrivial([]byte("radix|"+s), nil)
				}
			}
		}
	})
	// a continuation line that begins 0-3 bytes in front of every multiple of
	// the scanner's 512-byte buffer (and of 4096): the three bytes `%%+` may
	// straddle a refill of the buffer
	r.Case("continuation-at-buffer-boundary", func(c *rt.C) {
		for _, block := range []int{512, 1024, 4096} {
			for off := -3; off <= 2; off++ {
				for _, le := range []string{"\n", "\r", "\r\n"} {
					head := "%%Title: first" + le
					pos := block + off - len(head)
					text := "%" + strings.Repeat("x", pos-2-len(le)) + le + head + "%%+ second" + le + "{ 1 2 }"
					// the comment in front is an ordinary one (a single %), so the list holds one entry
					runTokenCase(c, []byte(text), []tokObj{{kind: "int", i: 1}, {kind: "int", i: 2}}, []dscLine{{"Title", "first second"}}, fmt.Sprintf("continuation-at|%d%+d|%q", block, off, le))
					c.Eval()
					c.Count("continuation lines placed at buffer boundaries")
				}
			}
		}
		c.Nontrivial([]byte("continuation-boundary"), nil)
	})
	// serialisation: String.PS and Name.PS read back
	nSer := r.N(2000, 20000)
	for k := 0; k < nSer; k++ {
		r.Case("serialise", func(c *rt.C) {
			g := &g4{rng: c.Rand(), feat: map[string]bool{}}
			for j := 0; j < 50; j++ {
				val := g.strBytes()
				if j%10 == 9 {
					// long strings made of bytes that need escapes, so that any line
					// breaking or chunking of the literal meets an escape sequence
					n := 200 + g.rng.IntN(1500)
					val = make([]byte, n)
					for i := range val {
						val[i] = "\\()\r\n\t\b\f\x00\x7f\xffab("[g.rng.IntN(14)]
					}
					// keep the parentheses balanced or not, as they come: PS() has to cope
					g.f("string of 200-1700 bytes that need escapes")
				}
				ps := postscript.String(val).PS()
				runTokenCase(c, []byte("{"+ps+"}"), []tokObj{{kind: "str", s: val}}, nil, "serialise-string")
				nb := g.nameBytes()
				ns := postscript.Name(nb).PS()
				runTokenCase(c, []byte("{"+ns+" }"), []tokObj{{kind: "name", s: nb}}, nil, "serialise-name")
				c.Eval()
				c.Count("serialisations read back")
				c.Nontrivial(append([]byte("ser|"), val...), nil)
			}
		})
	}
	// literal objects at the top level of a program (no enclosing braces), the
	// last one ending with the very last byte of the input or followed by one
	// separator: the operand stack then holds exactly these objects
	{
		type lit struct {
			text string
			objs []tokObj
		}
		tails := []lit{
			{"/", []tokObj{{kind: "name", s: []byte("")}}},
			{"/a", []tokObj{{kind: "name", s: []byte("a")}}},
			{"/a/", []tokObj{{kind: "name", s: []byte("a")}, {kind: "name", s: []byte("")}}},
			{"(s)/", []tokObj{{kind: "str", s: []byte("s")}, {kind: "name", s: []byte("")}}},
			{"/\xe9", []tokObj{{kind: "name", s: []byte("\xe9")}}},
			{"12", []tokObj{{kind: "int", i: 12}}},
			{"-7", []tokObj{{kind: "int", i: -7}}},
			{"16#ff", []tokObj{{kind: "int", i: 255}}},
			{"-.5", []tokObj{{kind: "real", f: -0.5}}},
			{"1e3", []tokObj{{kind: "real", f: 1000}}},
			{"(s)", []tokObj{{kind: "str", s: []byte("s")}}},
			{"()", []tokObj{{kind: "str", s: []byte("")}}},
			{"(a(b)c)", []tokObj{{kind: "str", s: []byte("a(b)c")}}},
			{"<41>", []tokObj{{kind: "str", s: []byte("A")}}},
			{"<>", []tokObj{{kind: "str", s: []byte("")}}},
			{"<4>", []tokObj{{kind: "str", s: []byte("@")}}},
			{"<~z~>", []tokObj{{kind: "str", s: []byte{0, 0, 0, 0}}}},
			{"<~~>", []tokObj{{kind: "str", s: []byte("")}}},
		}
		heads := []lit{
			{"", nil},
			{"1 ", []tokObj{{kind: "int", i: 1}}},
			{"(x)", []tokObj{{kind: "str", s: []byte("x")}}},
			{"/q ", []tokObj{{kind: "name", s: []byte("q")}}},
			{"1 (s) ", []tokObj{{kind: "int", i: 1}, {kind: "str", s: []byte("s")}}},
			{"%c\n", nil},
			{"<41>\r\n", []tokObj{{kind: "str", s: []byte("A")}}},
			{"/ ", []tokObj{{kind: "name", s: []byte("")}}},
		}
		seps := []string{"", " ", "\n", "\r", "\r\n", "\t", "\f", "\x00", "%c", "%c\n", " % c\r"}
		r.Case("top-level-at-end-of-input", func(c *rt.C) {
			for _, h := range heads {
				for _, t := range tails {
					for _, sp := range seps {
						text := h.text + t.text + sp
						want := append(append([]tokObj(nil), h.objs...), t.objs...)
						c.Eval()
						c.Count("top-level literal sequences")
						intp := postscript.NewInterpreter()
						intp.MaxOps = 1000
						err := intp.ExecuteString(text)
						fp := fmt.Sprintf("top-level|%q", t.text+sp)
						if err != nil {
							c.Violation(fp+"|error", fmt.Sprintf("Execute(%q) failed: %v", text, err), "")
							continue
						}
						if len(intp.Stack) != len(want) {
							c.Violation(fp+"|count", fmt.Sprintf("Execute(%q) leaves %d objects on the stack (%s), the input holds %d", text, len(intp.Stack), libStackShow(intp), len(want)), "")
							continue
						}
						for i := range want {
							if d := cmpTok(intp.Stack[i], want[i], fmt.Sprintf("object %d", i)); d != "" {
								c.Violation(fp+"|tokens", fmt.Sprintf("Execute(%q): %s", text, d), "")
								break
							}
						}
					}
				}
			}
			c.Nontrivial([]byte("top-level"), nil)
		})
	}
	// generated sequences
	nGen := r.N(500000, 5000000)
	for k := 0; k < nGen; k++ {
		r.Case("generated", func(c *rt.C) {
			g := &g4{rng: c.Rand(), feat: map[string]bool{}}
			var out bytes.Buffer
			var dsc []dscLine
			col0 := true
			// leading separators/DSC before the brace
			g.sep(&out, true, true, &dsc, &col0)
			out.WriteByte('{')
			col0 = false
			want := g.sequence(0, 1+g.rng.IntN(12), &out, &dsc, &col0)
			g.sep(&out, true, true, &dsc, &col0)
			out.WriteByte('}')
			g.sep(&out, true, true, nil, &col0)
			if dsc == nil {
				dsc = []dscLine{}
			}
			text := out.Bytes()
			runTokenCase(c, text, want, dsc, "generated")
			for f := range g.feat {
				c.Count("feature: " + f)
			}
			c.Runner().Count("DSC lines generated", int64(len(dsc)))
			c.Nontrivial(text, func() string { return fmt.Sprintf("%q", text) })
		})
	}
}
