package props

// Generators for library values (*type1.Font, *afm.Metrics) and comparison
// helpers shared by C08, C09, C10, C12, C13, C17, C18, C19, C20.

import (
	"fmt"
	"math"
	"math/rand/v2"
	"sort"
	"strings"
	"time"

	"seehuhn.de/go/geom/matrix"
	"seehuhn.de/go/postscript/funit"
	"seehuhn.de/go/postscript/psenc"
	"seehuhn.de/go/postscript/type1"
)

type fontOpts struct {
	maxGlyphs  int
	fractional bool // allow fractional coordinates
	hostileStr bool // info strings over all bytes
	oddStems   bool
	fracWidths bool
	noNotdef   bool
	features   map[string]bool
}

func (o *fontOpts) f(s string) {
	if o.features != nil {
		o.features[s] = true
	}
}

func genGlyphName(rng *rand.Rand, i int) string {
	switch rng.IntN(12) {
	case 0:
		// bytes >= 0x80 and unusual regular characters
		n := 1 + rng.IntN(6)
		if rng.IntN(8) == 0 {
			n = []int{100, 126, 127, 128, 129, 200, 255, 256, 257, 400}[rng.IntN(10)] // names have no length limit in a font file
		}
		b := make([]byte, n)
		for j := range b {
			for {
				c := byte(33 + rng.IntN(223))
				if isRegularByte(c) {
					b[j] = c
					break
				}
			}
		}
		return string(b) + fmt.Sprint(i)
	case 2:
		// names spelled with multi-byte UTF-8 sequences (every byte is a regular character;
		// the code points' low bytes are anything, white space and delimiters included)
		n := 1 + rng.IntN(4)
		var sb strings.Builder
		for j := 0; j < n; j++ {
			switch rng.IntN(4) {
			case 0:
				sb.WriteRune([]rune{0x0120, 0x0100, 0x4E00, 0x212F, 0x0128, 0x0129, 0x015B, 0x017B, 0x2025, 0x2028, 0x3000, 0x1F600}[rng.IntN(12)])
			case 1:
				sb.WriteRune(rune(0x100 + rng.IntN(0x2000)))
			case 2:
				sb.WriteRune(rune(0xA1 + rng.IntN(0x5E)))
			default:
				sb.WriteByte(byte('a' + rng.IntN(26)))
			}
		}
		return sb.String() + fmt.Sprint(i)
	case 1:
		// number and operator look-alikes; the nine names that the Type 1
		// CharStrings idiom itself looks up (RD ND def end string currentfile
		// exch readstring pop) are exercised by pinned cases only
		return []string{"123", "1.5", "add", "true", "16#FF", "1e5", "-7", "put", "dup", "begin", "dict", "NP", "readonly", "index"}[rng.IntN(14)] + strings.Repeat("x", rng.IntN(2))
	default:
		return stdGlyphNames[rng.IntN(len(stdGlyphNames))]
	}
}

var stdGlyphNames = func() []string {
	var out []string
	seen := map[string]bool{}
	for _, n := range stdEncNamesLib() {
		if n != ".notdef" && !seen[n] {
			seen[n] = true
			out = append(out, n)
		}
	}
	out = append(out, "Aacute", "Agrave", "ffi", "ffl", "Euro", "uni20AC", "a.sc", "f_f", "glyph00042")
	return out
}()

func genCoord(rng *rand.Rand, frac bool) float64 {
	v := float64(rng.IntN(2001) - 1000)
	if rng.IntN(20) == 0 {
		v = float64(rng.IntN(64001) - 32000)
	}
	if frac {
		switch rng.IntN(6) {
		case 0:
			v += float64(rng.IntN(1000)) / 1000
		case 1:
			v += float64(rng.IntN(107)) / float64(1+rng.IntN(107))
		case 2:
			v += rng.Float64()
		case 3:
			v += []float64{1e-7, -1e-7, 1e-5, -1e-5, 0.5, 1.0 / 3, 0.004, 0.996}[rng.IntN(8)]
		}
	}
	return v
}

func genGlyph(rng *rand.Rand, o *fontOpts) *type1.Glyph {
	g := &type1.Glyph{}
	g.WidthX = float64(rng.IntN(1500))
	switch rng.IntN(12) {
	case 0:
		g.WidthX = 0
	case 1:
		g.WidthX = float64(-rng.IntN(500))
		o.f("negative advance width")
	case 2:
		g.WidthY = float64(rng.IntN(2001) - 1000)
		o.f("vertical advance (sbw)")
	case 3:
		// a three-em dash in a font with 16384 units per em, and the ends of the
		// 32-bit range the charstring number format has
		sign := float64(1 - 2*rng.IntN(2))
		g.WidthX = sign * float64(32768+rng.IntN(170000))
		if rng.IntN(4) == 0 {
			g.WidthX = sign * float64(math.MaxInt32-rng.IntN(1000))
		}
		if rng.IntN(3) == 0 {
			g.WidthY = -sign * float64(32768+rng.IntN(70000))
		}
		o.f("advance width beyond 16 bits")
	}
	if o.fracWidths && rng.IntN(3) == 0 {
		g.WidthX += rng.Float64()
		o.f("fractional advance width")
	}
	frac := o.fractional && rng.IntN(2) == 0
	nContours := rng.IntN(4)
	if rng.IntN(30) == 0 {
		nContours = 5 + rng.IntN(20)
	}
	x, y := 0.0, 0.0
	for c := 0; c < nContours; c++ {
		x, y = genCoord(rng, frac), genCoord(rng, frac)
		switch rng.IntN(6) {
		case 0:
			if len(g.Cmds) > 0 {
				// a move that keeps x or y (hmoveto / vmoveto forms)
				prev := lastPoint(g)
				if rng.IntN(2) == 0 {
					x = prev[0]
				} else {
					y = prev[1]
				}
			}
		}
		g.MoveTo(x, y)
		nSeg := 1 + rng.IntN(6)
		for s := 0; s < nSeg; s++ {
			switch rng.IntN(8) {
			case 0:
				x = genCoord(rng, frac)
				g.LineTo(x, y) // hlineto
			case 1:
				y = genCoord(rng, frac)
				g.LineTo(x, y) // vlineto
			case 2, 3:
				x, y = genCoord(rng, frac), genCoord(rng, frac)
				g.LineTo(x, y)
			case 4:
				// hvcurveto shape: first tangent horizontal, last vertical
				x1, x2, y2 := genCoord(rng, frac), genCoord(rng, frac), genCoord(rng, frac)
				y3 := genCoord(rng, frac)
				y1 := y
				if frac && rng.IntN(3) == 0 {
					y1 += []float64{5e-7, -5e-7, 2e-6}[rng.IntN(3)] // near misses of the 1e-6 test
				}
				g.CurveTo(x1, y1, x2, y2, x2, y3)
				x, y = x2, y3
				o.f("hvcurveto-shaped curve")
			case 5:
				y1, x2, y2 := genCoord(rng, frac), genCoord(rng, frac), genCoord(rng, frac)
				x3 := genCoord(rng, frac)
				x1 := x
				if frac && rng.IntN(3) == 0 {
					x1 += []float64{5e-7, -5e-7, 2e-6}[rng.IntN(3)]
				}
				g.CurveTo(x1, y1, x2, y2, x3, y2)
				x, y = x3, y2
				o.f("vhcurveto-shaped curve")
			default:
				a := [6]float64{}
				for i := range a {
					a[i] = genCoord(rng, frac)
				}
				switch rng.IntN(6) {
				case 0:
					// leaves horizontally AND arrives horizontally (neither short form applies)
					a[1], a[5] = y, a[3]
					o.f("curve horizontal at both ends")
				case 1:
					// leaves vertically AND arrives vertically
					a[0], a[4] = x, a[2]
					o.f("curve vertical at both ends")
				}
				g.CurveTo(a[0], a[1], a[2], a[3], a[4], a[5])
				x, y = a[4], a[5]
			}
		}
		g.ClosePath()
	}
	if frac && nContours > 0 {
		o.f("fractional coordinates")
	}
	nh := rng.IntN(4)
	for i := 0; i < nh; i++ {
		a := funit.Int16(rng.IntN(2001) - 1000)
		g.HStem = append(g.HStem, a, a+funit.Int16(rng.IntN(200)-20))
	}
	nv := rng.IntN(4)
	for i := 0; i < nv; i++ {
		a := funit.Int16(rng.IntN(2001) - 1000)
		g.VStem = append(g.VStem, a, a+funit.Int16(rng.IntN(200)-20))
	}
	if rng.IntN(12) == 0 {
		// three stems that qualify as a stem3 triple (equal outer widths, equally
		// spaced centres), with or without other stems before and after them
		a := funit.Int16(rng.IntN(600) - 300)
		w1, w2, d := funit.Int16(10+rng.IntN(60)), funit.Int16(10+rng.IntN(80)), funit.Int16(100+rng.IntN(100))
		triple := []funit.Int16{a, a + w1, a + d + (w1-w2)/2, a + d + (w1-w2)/2 + w2, a + 2*d, a + 2*d + w1}
		var list []funit.Int16
		if rng.IntN(2) == 0 {
			list = append(list, a-200, a-180)
		}
		list = append(list, triple...)
		if rng.IntN(3) == 0 {
			list = append(list, triple[0]+1000, triple[1]+1000, triple[2]+1000, triple[3]+1000, triple[4]+1000, triple[5]+1000)
		}
		if rng.IntN(3) == 0 {
			list = append(list, a+900, a+930)
		}
		if rng.IntN(2) == 0 {
			g.HStem = list
		} else {
			g.VStem = list
		}
		o.f("stems forming a stem3 triple")
	}
	if rng.IntN(10) == 0 && len(g.HStem) >= 2 {
		// the same stem listed again (fonts with hint replacement list a stem once per group)
		g.HStem = append(g.HStem, g.HStem[0], g.HStem[1])
		if rng.IntN(2) == 0 {
			g.HStem = append(g.HStem, g.HStem[0], g.HStem[1]+1)
		}
		o.f("repeated stem")
	}
	if rng.IntN(10) == 0 && len(g.VStem) >= 2 {
		g.VStem = append(append([]funit.Int16{g.VStem[len(g.VStem)-2], g.VStem[len(g.VStem)-1]}, g.VStem...), g.VStem[0], g.VStem[1])
		o.f("repeated stem")
	}
	if rng.IntN(40) == 0 {
		g.HStem = append(g.HStem, -32768, 32767, 32767, -32768)
		o.f("extreme stem values")
	}
	if o.oddStems && rng.IntN(4) == 0 {
		g.HStem = append(g.HStem, 77)
		o.f("odd stem count")
	}
	return g
}

func lastPoint(g *type1.Glyph) [2]float64 {
	for i := len(g.Cmds) - 1; i >= 0; i-- {
		c := g.Cmds[i]
		switch c.Op {
		case type1.OpMoveTo, type1.OpLineTo:
			return [2]float64{c.Args[0], c.Args[1]}
		case type1.OpCurveTo:
			return [2]float64{c.Args[4], c.Args[5]}
		}
	}
	return [2]float64{0, 0}
}

func genInfoString(rng *rand.Rand, o *fontOpts) string {
	if !o.hostileStr || rng.IntN(3) == 0 {
		return []string{"", "Test Font", "Regular", "Copyright (c) 2024 Somebody", "001.002", "Medium", "Test Family"}[rng.IntN(7)]
	}
	n := rng.IntN(40)
	if rng.IntN(15) == 0 {
		n = 300 + rng.IntN(2000)
	}
	b := make([]byte, n)
	for i := range b {
		switch rng.IntN(5) {
		case 0:
			b[i] = byte(rng.IntN(256))
		case 1:
			const special = "()\\\r\n\t\x00%<>{}[]/ "
			b[i] = special[rng.IntN(len(special))]
		default:
			b[i] = byte(32 + rng.IntN(95))
		}
	}
	o.f("info string over all bytes")
	if rng.IntN(8) == 0 {
		// text that looks like parts of a font program: anything that locates
		// the sections of the file by searching for such text is misled
		frag := []string{"\ncurrentfile eexec\n", "currentfile eexec\r", "\ncleartomark\n", "%!PS-AdobeFont-1.0: X 1.0\n", "\n%%CreationDate: Mon Jan 2 15:04:05 2006\n",
			"mark currentfile closefile\n", "\n/Private 10 dict dup begin\n", "dup /FontName get exch definefont pop\n", "\n/CharStrings 1 dict dup begin\n", "\nend\n",
			"0000000000000000000000000000000000000000000000000000000000000000\n", "\x80\x03", "\x80\x01\x05\x00\x00\x00", "/Encoding StandardEncoding def\n"}[rng.IntN(14)]
		pos := rng.IntN(len(b) + 1)
		o.f("info string holding font-program text")
		return string(b[:pos]) + frag + string(b[pos:])
	}
	return string(b)
}

func genNumber(rng *rand.Rand) float64 {
	switch rng.IntN(8) {
	case 0:
		return 0
	case 1:
		return float64(rng.IntN(2001) - 1000)
	case 2:
		return float64(rng.IntN(200001)-100000) / 100
	case 3:
		return []float64{1e-7, 1e21, -1e21, 1e-5, 123456789.125, -0.5, 1e6, 1e300, 1e-300}[rng.IntN(9)]
	default:
		return math.Round(rng.NormFloat64()*30*1000) / 1000
	}
}

func genFont(rng *rand.Rand, o *fontOpts) *type1.Font {
	f := &type1.Font{
		FontInfo: &type1.FontInfo{},
		Private:  &type1.PrivateDict{BlueScale: 0.039625, BlueShift: 7, BlueFuzz: 1},
		Glyphs:   map[string]*type1.Glyph{},
	}
	nameBytes := []byte("TestFont")
	if rng.IntN(3) == 0 {
		nameBytes = []byte(genGlyphName(rng, 0))
	}
	f.FontInfo.FontName = string(nameBytes)
	fi := f.FontInfo
	fi.Version = genInfoString(rng, o)
	fi.Notice = genInfoString(rng, o)
	fi.Copyright = genInfoString(rng, o)
	fi.FullName = genInfoString(rng, o)
	fi.FamilyName = genInfoString(rng, o)
	fi.Weight = genInfoString(rng, o)
	fi.ItalicAngle = genNumber(rng)
	fi.IsFixedPitch = rng.IntN(2) == 0
	fi.UnderlinePosition = funit.Float64(genNumber(rng))
	fi.UnderlineThickness = funit.Float64(genNumber(rng))
	switch rng.IntN(8) {
	case 5:
		// quarter turns and axis swaps: both diagonal entries are exactly zero
		a := []float64{0.001, -0.001, 0.0005, 1}[rng.IntN(4)]
		fi.FontMatrix = matrix.Matrix{0, a, -a, 0, 0, 0}
		if rng.IntN(2) == 0 {
			fi.FontMatrix = matrix.Matrix{0, a, a, 0, genNumber(rng), genNumber(rng)}
		}
		o.f("font matrix with a zero diagonal")
	case 6, 7:
		fi.FontMatrix = matrix.Matrix{genNumber(rng) / 1000, genNumber(rng) / 1000, genNumber(rng) / 1000, genNumber(rng) / 1000, genNumber(rng), genNumber(rng)}
		o.f("general font matrix")
	case 0:
		fi.FontMatrix = matrix.Matrix{0.001, 0, 0, 0.001, 0, 0}
	case 1:
		fi.FontMatrix = matrix.Matrix{0.0005, 0, 0, 0.0005, 0, 0}
	case 2:
		fi.FontMatrix = matrix.Matrix{0.001, 0, 0.000167, 0.001, 0, 0}
	case 3:
		fi.FontMatrix = matrix.Matrix{1, 0, 0, 1, 0, 0}
	default:
		fi.FontMatrix = matrix.Matrix{genNumber(rng) / 1000, 0, 0, genNumber(rng) / 1000, genNumber(rng), genNumber(rng)}
	}
	p := f.Private
	nBlue, nOther := 2*rng.IntN(4), 2*rng.IntN(3)
	if rng.IntN(12) == 0 {
		// more alignment zones than the Type 1 book allows (7 and 5): the
		// writer takes them, so they belong to the writable domain
		nBlue, nOther = 2*rng.IntN(17), 2*rng.IntN(13)
		o.f("more alignment zones than the book allows")
	}
	for i := 0; i < nBlue; i++ {
		p.BlueValues = append(p.BlueValues, funit.Int16(rng.IntN(2001)-1000))
	}
	for i := 0; i < nOther; i++ {
		p.OtherBlues = append(p.OtherBlues, funit.Int16(rng.IntN(2001)-1000))
	}
	switch rng.IntN(4) {
	case 0:
		p.BlueScale = 0.05
	case 1:
		p.BlueScale = float64(rng.IntN(1000)) / 10000
		if math.Abs(p.BlueScale-0.039625) < 2e-6 {
			p.BlueScale = 0.04
		}
	}
	if rng.IntN(3) == 0 {
		p.BlueShift = int32(rng.IntN(20))
	}
	if rng.IntN(3) == 0 {
		p.BlueFuzz = int32(rng.IntN(5))
	}
	if rng.IntN(2) == 0 {
		p.StdHW = float64(rng.IntN(200)) / 2
	}
	if rng.IntN(2) == 0 {
		p.StdVW = float64(rng.IntN(200)) / 2
	}
	p.ForceBold = rng.IntN(2) == 0

	n := 1 + rng.IntN(o.maxGlyphs)
	if !o.noNotdef || rng.IntN(2) == 0 {
		f.Glyphs[".notdef"] = genGlyph(rng, o)
	} else {
		o.f("font without .notdef")
	}
	for i := 0; len(f.Glyphs) < n && i < 4*n; i++ {
		name := genGlyphName(rng, i)
		if _, dup := f.Glyphs[name]; dup {
			name += fmt.Sprint(i)
		}
		f.Glyphs[name] = genGlyph(rng, o)
	}
	if rng.IntN(8) == 0 && len(f.Glyphs) > 0 {
		// twins: the same outline, hints and horizontal advance under a second
		// name, differing in the vertical advance only (and one exact copy)
		for _, n := range sortedGlyphNames(f) {
			if n == ".notdef" || rng.IntN(3) > 0 {
				continue
			}
			g := f.Glyphs[n]
			tw := &type1.Glyph{WidthX: g.WidthX, WidthY: g.WidthY + float64(100+rng.IntN(400)), HStem: append([]funit.Int16(nil), g.HStem...), VStem: append([]funit.Int16(nil), g.VStem...)}
			for _, c := range g.Cmds {
				tw.Cmds = append(tw.Cmds, type1.GlyphOp{Op: c.Op, Args: append([]float64(nil), c.Args...)})
			}
			if _, dup := f.Glyphs[n+".v"]; !dup {
				f.Glyphs[n+".v"] = tw
			}
			if _, dup := f.Glyphs[n+".copy"]; !dup && rng.IntN(2) == 0 {
				cp := *tw
				cp.WidthY = g.WidthY
				f.Glyphs[n+".copy"] = &cp
			}
			o.f("twin glyphs differing in the vertical advance only")
			break
		}
	}
	names := sortedGlyphNames(f)

	// encoding
	std := stdEncNamesLib()
	switch rng.IntN(8) {
	case 7:
		// the standard encoding, plus glyphs of this font at codes the standard leaves empty (code 0 among them)
		f.Encoding = append([]string(nil), std...)
		var empty []int
		for i, n := range std {
			if n == ".notdef" {
				empty = append(empty, i)
			}
		}
		placed := 0
		for _, n := range names {
			if placed >= 3 || len(empty) == 0 {
				break
			}
			if n == ".notdef" || rng.IntN(2) == 0 {
				continue
			}
			at := empty[rng.IntN(len(empty))]
			if placed == 0 && rng.IntN(2) == 0 {
				at = 0
			}
			f.Encoding[at] = n
			placed++
		}
		if rng.IntN(2) == 0 {
			// ... and .notdef where the standard glyph is in the font (the short form is not equivalent then)
			for i, n := range f.Encoding {
				if _, ok := f.Glyphs[n]; ok && n == std[i] && rng.IntN(4) == 0 {
					f.Encoding[i] = ".notdef"
				}
			}
		}
		o.f("encoding = StandardEncoding plus glyphs at empty codes")
	case 0:
		f.Encoding = nil
		o.f("encoding absent")
	case 1:
		f.Encoding = append([]string(nil), std...)
		o.f("encoding = StandardEncoding")
		if rng.IntN(2) == 0 {
			// the customary way of saying so: a slice of the package's table
			f.Encoding = psenc.StandardEncoding[:]
			o.f("encoding = psenc.StandardEncoding[:]")
		}
	case 2:
		// a subset of StandardEncoding: .notdef on codes whose standard glyph exists in the font
		f.Encoding = append([]string(nil), std...)
		for i := range f.Encoding {
			if rng.IntN(3) == 0 {
				f.Encoding[i] = ".notdef"
			}
		}
		o.f("encoding = subset of StandardEncoding")
		if rng.IntN(2) == 0 {
			// codes whose standard glyph IS in the font, given to a name that is not:
			// the code selects .notdef, which the short form does not say
			for i, n := range std {
				if _, ok := f.Glyphs[n]; ok && n != ".notdef" && rng.IntN(3) == 0 {
					f.Encoding[i] = []string{n + "small", "absent" + fmt.Sprint(i), n + ".alt", "Z" + n}[rng.IntN(4)]
					if _, clash := f.Glyphs[f.Encoding[i]]; clash {
						f.Encoding[i] = ".notdef"
					}
				}
			}
			o.f("standard codes of present glyphs given to names of absent glyphs")
		}
	case 3:
		f.Encoding = make([]string, 256)
		perm := rng.Perm(256)
		for i := range f.Encoding {
			f.Encoding[i] = ".notdef"
		}
		for i, name := range names {
			if i < 256 {
				f.Encoding[perm[i]] = name
			}
		}
		o.f("encoding = permutation")
	case 4:
		f.Encoding = make([]string, 256)
		for i := range f.Encoding {
			switch rng.IntN(4) {
			case 0:
				f.Encoding[i] = names[rng.IntN(len(names))] // repeated names
			case 1:
				f.Encoding[i] = "missingglyph" + fmt.Sprint(rng.IntN(5))
			default:
				f.Encoding[i] = ".notdef"
			}
		}
		o.f("encoding with repeated and missing names")
	default:
		f.Encoding = make([]string, 256)
		for i := range f.Encoding {
			f.Encoding[i] = ".notdef"
		}
		for _, name := range names {
			if rng.IntN(2) == 0 {
				f.Encoding[rng.IntN(256)] = name
			}
		}
		o.f("encoding partial")
	}

	// creation time
	switch rng.IntN(8) {
	case 0:
	case 6:
		// local mean time and other offsets that are not whole minutes or quarter hours
		off := []int{3208, -3208, 1, -1, 59, 3599, 20700, -12600, 45296, -43199}[rng.IntN(10)]
		f.CreationDate = time.Date(1880+rng.IntN(200), time.Month(1+rng.IntN(12)), 1+rng.IntN(28), rng.IntN(24), rng.IntN(60), rng.IntN(60), 0, time.FixedZone([]string{"LMT", "", "XST"}[rng.IntN(3)], off))
		o.f("creation time in a zone whose offset has seconds")
	case 7:
		// zone names which are not customary abbreviations
		name := []string{"x", "Local", "UTC+5", "ABCDE", "AB", "A B", "-0330", "+0300", "Europe/Berlin", "ÄST", "mst", "A", "ABCDEFG", "GMT+2", "ChST", "WITA", "(Z)", "%",
			// abbreviations that date parsers treat in a special way
			"GMT", "GMTT", "GMTST", "GMTAT", "UTC", "UTCT", "UT", "Z", "UTCST", "GMTX", "ZT", "MST", "EST", "EDT"}[rng.IntN(32)]
		f.CreationDate = time.Date(1990+rng.IntN(60), time.Month(1+rng.IntN(12)), 1+rng.IntN(28), rng.IntN(24), rng.IntN(60), rng.IntN(60), 0, time.FixedZone(name, (rng.IntN(25)-12)*3600))
		o.f("creation time in a zone with an unusual name")
	case 1:
		f.CreationDate = time.Date(2000+rng.IntN(40), time.Month(1+rng.IntN(12)), 1+rng.IntN(28), rng.IntN(24), rng.IntN(60), rng.IntN(60), rng.IntN(1e9), time.UTC)
	case 2:
		f.CreationDate = time.Date(1990+rng.IntN(40), time.Month(1+rng.IntN(12)), 1+rng.IntN(28), rng.IntN(24), rng.IntN(60), rng.IntN(60), 0, time.FixedZone("CET", 3600))
	case 3:
		f.CreationDate = time.Date(2024, 2, 29, 23, 59, 59, 999999999, time.FixedZone("", (rng.IntN(27)-13)*3600+rng.IntN(4)*900))
		o.f("creation time in a zone without abbreviation")
	case 4:
		f.CreationDate = time.Date(1970+rng.IntN(80), 6, 15, 12, 0, 0, 0, time.FixedZone("XYZT", -(rng.IntN(12))*3600))
	default:
		f.CreationDate = time.Unix(int64(rng.IntN(2000000000)), 0).In(time.FixedZone("+03", 3*3600))
		o.f("creation time in a zone with numeric abbreviation")
	}
	return f
}

func sortedGlyphNames(f *type1.Font) []string {
	names := make([]string, 0, len(f.Glyphs))
	for n := range f.Glyphs {
		names = append(names, n)
	}
	sort.Strings(names)
	return names
}

// ---------------------------------------------------------------- comparison

type fontTol struct {
	coord      float64 // tolerance for non-integer coordinates
	roundWidth bool    // widths are compared after rounding the original to integers
	blueSnap   bool    // BlueScale within 1e-6 of the default snaps to it
	skipStems  map[string]bool
	inexact    map[string]bool // glyphs whose integer coordinates are sums of quotients (rational side bearing): compared with coord, not exactly
}

func isIntegral(v float64) bool { return v == math.Trunc(v) }

// compareFonts reports differences between the expected font a and the
// actual font b.
func compareFonts(a, b *type1.Font, tol fontTol) []string {
	var d []string
	add := func(format string, args ...any) {
		if len(d) < 10 {
			d = append(d, fmt.Sprintf(format, args...))
		}
	}
	if b == nil || b.FontInfo == nil || b.Private == nil {
		return []string{"result font or its FontInfo/Private is nil"}
	}
	// glyph set
	for _, n := range sortedGlyphNames(a) {
		if _, ok := b.Glyphs[n]; !ok {
			add("glyph %q is missing", n)
		}
	}
	for _, n := range sortedGlyphNames(b) {
		if _, ok := a.Glyphs[n]; !ok {
			add("unexpected glyph %q", n)
		}
	}
	for _, n := range sortedGlyphNames(a) {
		ga, gb := a.Glyphs[n], b.Glyphs[n]
		if gb == nil {
			continue
		}
		wx, wy := ga.WidthX, ga.WidthY
		if tol.roundWidth {
			wx, wy = math.Round(wx), math.Round(wy)
		}
		if gb.WidthX != wx || gb.WidthY != wy {
			add("glyph %q: width (%v,%v), expected (%v,%v)", n, gb.WidthX, gb.WidthY, wx, wy)
		}
		allInt := true
		for _, c := range ga.Cmds {
			for _, v := range c.Args {
				if !isIntegral(v) {
					allInt = false
				}
			}
		}
		if tol.inexact[n] {
			allInt = false
		}
		if len(ga.Cmds) != len(gb.Cmds) {
			add("glyph %q: %d path commands, expected %d: got %v", n, len(gb.Cmds), len(ga.Cmds), gb.Cmds)
		} else {
			for i := range ga.Cmds {
				ca, cb := ga.Cmds[i], gb.Cmds[i]
				if ca.Op != cb.Op || len(ca.Args) != len(cb.Args) {
					add("glyph %q command %d: %v, expected %v", n, i, cb, ca)
					break
				}
				bad := false
				for j := range ca.Args {
					if allInt {
						if cb.Args[j] != ca.Args[j] {
							bad = true
						}
					} else if math.Abs(cb.Args[j]-ca.Args[j]) > tol.coord {
						bad = true
					}
				}
				if bad {
					add("glyph %q command %d: %v, expected %v (tolerance %g; glyphs with only integer coordinates exact)", n, i, cb, ca, tol.coord)
					break
				}
			}
		}
		if !tol.skipStems[n] {
			if !int16sEqual(ga.HStem, gb.HStem) {
				add("glyph %q: HStem %v, expected %v", n, gb.HStem, ga.HStem)
			}
			if !int16sEqual(ga.VStem, gb.VStem) {
				add("glyph %q: VStem %v, expected %v", n, gb.VStem, ga.VStem)
			}
		}
	}
	// encoding: the glyph name at each code; names of absent glyphs read back as .notdef
	if (a.Encoding == nil) != (b.Encoding == nil) || (a.Encoding != nil && len(b.Encoding) != 256) {
		add("encoding: got %d entries, expected %d", len(b.Encoding), len(a.Encoding))
	} else if a.Encoding != nil {
		for i := range a.Encoding {
			want := a.Encoding[i]
			if _, ok := a.Glyphs[want]; !ok {
				want = ".notdef"
			}
			if b.Encoding[i] != want {
				add("encoding[%d] = %q, expected %q", i, b.Encoding[i], want)
				break
			}
		}
	}
	ia, ib := a.FontInfo, b.FontInfo
	strs := []struct{ name, a, b string }{
		{"FontName", ia.FontName, ib.FontName}, {"Version", ia.Version, ib.Version}, {"Notice", ia.Notice, ib.Notice},
		{"Copyright", ia.Copyright, ib.Copyright}, {"FullName", ia.FullName, ib.FullName}, {"FamilyName", ia.FamilyName, ib.FamilyName},
		{"Weight", ia.Weight, ib.Weight},
	}
	for _, s := range strs {
		if s.a != s.b {
			add("%s = %q, expected %q", s.name, s.b, s.a)
		}
	}
	nums := []struct {
		name string
		a, b float64
	}{
		{"ItalicAngle", ia.ItalicAngle, ib.ItalicAngle}, {"UnderlinePosition", float64(ia.UnderlinePosition), float64(ib.UnderlinePosition)},
		{"UnderlineThickness", float64(ia.UnderlineThickness), float64(ib.UnderlineThickness)},
		{"StdHW", a.Private.StdHW, b.Private.StdHW}, {"StdVW", a.Private.StdVW, b.Private.StdVW},
	}
	for _, s := range nums {
		if s.a != s.b {
			add("%s = %v, expected %v", s.name, s.b, s.a)
		}
	}
	if ia.IsFixedPitch != ib.IsFixedPitch {
		add("IsFixedPitch = %v, expected %v", ib.IsFixedPitch, ia.IsFixedPitch)
	}
	if ia.FontMatrix != ib.FontMatrix {
		add("FontMatrix = %v, expected %v", ib.FontMatrix, ia.FontMatrix)
	}
	pa, pb := a.Private, b.Private
	if !int16sEqual(pa.BlueValues, pb.BlueValues) {
		add("BlueValues = %v, expected %v", pb.BlueValues, pa.BlueValues)
	}
	if !int16sEqual(pa.OtherBlues, pb.OtherBlues) {
		add("OtherBlues = %v, expected %v", pb.OtherBlues, pa.OtherBlues)
	}
	wantBS := pa.BlueScale
	if tol.blueSnap && math.Abs(wantBS-0.039625) <= 1e-6+1e-9 { // (slack: the bound itself is not asserted)
		wantBS = 0.039625
	}
	if pb.BlueScale != wantBS {
		add("BlueScale = %v, expected %v", pb.BlueScale, wantBS)
	}
	if pa.BlueShift != pb.BlueShift || pa.BlueFuzz != pb.BlueFuzz || pa.ForceBold != pb.ForceBold {
		add("BlueShift/BlueFuzz/ForceBold = %v/%v/%v, expected %v/%v/%v", pb.BlueShift, pb.BlueFuzz, pb.ForceBold, pa.BlueShift, pa.BlueFuzz, pa.ForceBold)
	}
	ta, tb := a.CreationDate, b.CreationDate
	if ta.IsZero() != tb.IsZero() || (!ta.IsZero() && ta.Unix() != tb.Unix()) {
		add("CreationDate = %v, expected %v (compared as instants to the second)", tb, ta)
	}
	return d
}

func int16sEqual(a, b []funit.Int16) bool {
	if len(a) != len(b) {
		return false
	}
	for i := range a {
		if a[i] != b[i] {
			return false
		}
	}
	return true
}

var allFormats = []struct {
	name string
	f    type1.FileFormat
}{{"PFA", type1.FormatPFA}, {"PFB", type1.FormatPFB}, {"Binary", type1.FormatBinary}, {"NoEExec", type1.FormatNoEExec}}

// describeFont renders a font value compactly for witnesses.
func describeFont(f *type1.Font) string {
	var sb strings.Builder
	q := func(s string) string {
		if len(s) > 400 {
			return fmt.Sprintf("%q…(%d bytes)", s[:400], len(s))
		}
		return fmt.Sprintf("%q", s)
	}
	fmt.Fprintf(&sb, "FontName %s Version %s Notice %s Copyright %s FullName %s FamilyName %s Weight %s\n", q(f.FontName), q(f.Version), q(f.Notice), q(f.Copyright), q(f.FullName), q(f.FamilyName), q(f.Weight))
	fmt.Fprintf(&sb, "ItalicAngle %v FixedPitch %v UPos %v UThick %v Matrix %v Created %v\n", f.ItalicAngle, f.IsFixedPitch, f.UnderlinePosition, f.UnderlineThickness, f.FontMatrix, f.CreationDate)
	fmt.Fprintf(&sb, "Private %+v\n", *f.Private)
	if f.Encoding != nil {
		var parts []string
		for i, n := range f.Encoding {
			if n != ".notdef" {
				parts = append(parts, fmt.Sprintf("%d:%s", i, n))
			}
		}
		fmt.Fprintf(&sb, "Encoding %s\n", strings.Join(parts, " "))
	} else {
		sb.WriteString("Encoding absent\n")
	}
	for _, n := range sortedGlyphNames(f) {
		g := f.Glyphs[n]
		fmt.Fprintf(&sb, "glyph %q w=(%v,%v) hstem=%v vstem=%v cmds=%v\n", n, g.WidthX, g.WidthY, g.HStem, g.VStem, g.Cmds)
		if sb.Len() > 12000 {
			sb.WriteString("…\n")
			break
		}
	}
	return sb.String()
}

// ---------------------------------------------------------------- AFM metrics

type afmOpts struct {
	representable bool // C15 clause 1 domain: integral in-range numbers, single-token names, injective encoding
	features      map[string]bool
}

func (o *afmOpts) f(s string) {
	if o.features != nil {
		o.features[s] = true
	}
}

func genToken(rng *rand.Rand) string {
	n := 1 + rng.IntN(10)
	if rng.IntN(40) == 0 {
		n = []int{126, 127, 128, 129, 200, 255, 256, 300}[rng.IntN(8)] // no format limits the length of a token
	}
	b := make([]byte, n)
	high := rng.IntN(4) == 0 // names in ISO Latin-1 or UTF-8 (no byte of which is white space)
	for i := range b {
		for {
			c := byte(33 + rng.IntN(94))
			if high && rng.IntN(3) == 0 {
				c = byte(0xA1 + rng.IntN(0x5F))
			}
			if c != ';' {
				b[i] = c
				break
			}
		}
	}
	if high && rng.IntN(3) == 0 {
		return string(b) + string(rune(0x100+rng.IntN(0x80)))
	}
	return string(b)
}

func genWords(rng *rand.Rand) string {
	n := rng.IntN(5)
	var w []string
	for i := 0; i < n; i++ {
		w = append(w, genToken(rng))
	}
	return strings.Join(w, " ")
}
