package props

// State-graph comparer (DESIGN.md 3.5): compares the library interpreter's
// state with the reference model's state as pointed graphs with sharing.

import (
	"fmt"
	"math"
	"reflect"
	"strings"
	"unsafe"

	"seehuhn.de/go/postscript"
	"seehuhn.de/go/postscript/psenc"

	"verif/harness/ref"
)

// builtinTable maps operator names to the code pointers of a pristine
// interpreter's system dictionary.
type builtinTable map[string]uintptr

func pristineBuiltins() builtinTable {
	intp := postscript.NewInterpreter()
	t := builtinTable{}
	for k, v := range intp.SystemDict {
		rv := reflect.ValueOf(v)
		if rv.IsValid() && rv.Kind() == reflect.Func {
			t[string(k)] = rv.Pointer()
		}
	}
	return t
}

func stdEncNamesLib() []string {
	out := make([]string, 256)
	copy(out, psenc.StandardEncoding[:])
	return out
}

// errName extracts the PostScript error name from a library error.
func errName(err error) string {
	if err == nil {
		return ""
	}
	s := err.Error()
	if i := strings.Index(s, ":"); i > 0 {
		return s[:i]
	}
	return s
}

type graphCmp struct {
	bt       builtinTable
	diffs    []string
	visited  map[[2]uintptr]bool
	arrL2M   map[uintptr]int
	arrM2L   map[int]uintptr
	strL2M   map[uintptr]int
	strM2L   map[int]uintptr
	dictL2M  map[uintptr]int
	dictM2L  map[int]uintptr
	identity bool
}

func newGraphCmp(bt builtinTable) *graphCmp {
	return &graphCmp{bt: bt, visited: map[[2]uintptr]bool{},
		arrL2M: map[uintptr]int{}, arrM2L: map[int]uintptr{}, strL2M: map[uintptr]int{}, strM2L: map[int]uintptr{},
		dictL2M: map[uintptr]int{}, dictM2L: map[int]uintptr{}, identity: true}
}

func (g *graphCmp) diff(path, format string, a ...any) {
	if len(g.diffs) < 12 {
		g.diffs = append(g.diffs, path+": "+fmt.Sprintf(format, a...))
	}
}

func (g *graphCmp) bij(l2m map[uintptr]int, m2l map[int]uintptr, l uintptr, m int, path, kind string) {
	if !g.identity {
		return
	}
	if old, ok := l2m[l]; ok && old != m {
		g.diff(path, "%s sharing differs: the library object shares its value with an object that the reference keeps separate (model stores #%d and #%d)", kind, old, m)
	}
	if old, ok := m2l[m]; ok && old != l {
		g.diff(path, "%s sharing differs: the reference says this object shares its value with an earlier one (model store #%d), the library has two separate values", kind, m)
	}
	l2m[l] = m
	m2l[m] = l
}

func realClose(a, b float64) bool {
	if a == b || (math.IsNaN(a) && math.IsNaN(b)) {
		return true
	}
	d := math.Abs(a - b)
	return d <= 4*math.Abs(a)*2.220446049250313e-16
}

func libShow(o postscript.Object) string {
	switch o := o.(type) {
	case nil:
		return "null/file"
	case postscript.Integer:
		return fmt.Sprint(int(o))
	case postscript.Real:
		return fmt.Sprintf("%gr", float64(o))
	case postscript.Boolean:
		return fmt.Sprint(bool(o))
	case postscript.Name:
		return "/" + string(o)
	case postscript.Operator:
		return string(o)
	case postscript.String:
		if len(o) > 24 {
			return fmt.Sprintf("(%q… len %d)", string(o[:24]), len(o))
		}
		return fmt.Sprintf("(%q)", string(o))
	case postscript.Array:
		return fmt.Sprintf("array[%d]", len(o))
	case postscript.Procedure:
		return fmt.Sprintf("proc{%d}", len(o))
	case postscript.Dict:
		return fmt.Sprintf("dict<%d>", len(o))
	}
	rv := reflect.ValueOf(o)
	if rv.Kind() == reflect.Func {
		return "--operator--"
	}
	return fmt.Sprintf("%T", o)
}

func (g *graphCmp) obj(l postscript.Object, m ref.Obj, path string) {
	switch m := m.(type) {
	case ref.Int:
		if v, ok := l.(postscript.Integer); !ok || int64(v) != int64(m) {
			g.diff(path, "library has %s, reference %s", libShow(l), ref.Show(m))
		}
	case ref.AnyIntGE:
		if v, ok := l.(postscript.Integer); !ok || int64(v) < m.Min {
			g.diff(path, "library has %s, reference %s", libShow(l), ref.Show(m))
		}
	case ref.Real:
		if v, ok := l.(postscript.Real); !ok || !realClose(float64(v), float64(m)) {
			g.diff(path, "library has %s, reference %s", libShow(l), ref.Show(m))
		}
	case ref.Bool:
		if v, ok := l.(postscript.Boolean); !ok || bool(v) != bool(m) {
			g.diff(path, "library has %s, reference %s", libShow(l), ref.Show(m))
		}
	case ref.Null, ref.File:
		if l != nil {
			g.diff(path, "library has %s, reference %s", libShow(l), ref.Show(m))
		}
	case ref.Mark:
		if l == nil || fmt.Sprintf("%T", l) != "postscript.mark" {
			g.diff(path, "library has %s, reference a mark", libShow(l))
		}
	case ref.Name:
		switch v := l.(type) {
		case postscript.Name:
			if string(v) != m.S || (m.Exec && !m.AnyAttr) {
				g.diff(path, "library has %s, reference %s", libShow(l), ref.Show(m))
			}
		case postscript.Operator:
			if string(v) != m.S || (!m.Exec && !m.AnyAttr) {
				g.diff(path, "library has executable name %s, reference %s", libShow(l), ref.Show(m))
			}
		default:
			g.diff(path, "library has %s, reference %s", libShow(l), ref.Show(m))
		}
	case ref.Str:
		v, ok := l.(postscript.String)
		if !ok {
			g.diff(path, "library has %s, reference %s", libShow(l), ref.Show(m))
			return
		}
		if string(v) != string(m.Bytes()) {
			g.diff(path, "string contents differ: library %s, reference %s", libShow(l), ref.Show(m))
		}
		if len(v) > 0 && len(v) == m.N {
			base := uintptr(unsafe.Pointer(unsafe.SliceData([]byte(v)))) - uintptr(m.Off)
			g.bij(g.strL2M, g.strM2L, base, m.St.ID, path, "string")
		}
	case ref.Arr:
		var elems []postscript.Object
		switch v := l.(type) {
		case postscript.Array:
			if m.Exec {
				g.diff(path, "library has a literal array, reference the procedure %s", ref.Show(m))
				return
			}
			elems = v
		case postscript.Procedure:
			if !m.Exec {
				g.diff(path, "library has a procedure, reference the literal array %s", ref.Show(m))
				return
			}
			elems = v
		default:
			g.diff(path, "library has %s, reference %s", libShow(l), ref.Show(m))
			return
		}
		if len(elems) != m.N {
			g.diff(path, "array length: library %d, reference %d (%s)", len(elems), m.N, ref.Show(m))
			return
		}
		if len(elems) == 0 {
			return
		}
		p := uintptr(unsafe.Pointer(unsafe.SliceData(elems)))
		base := p - uintptr(m.Off)*unsafe.Sizeof(elems[0])
		g.bij(g.arrL2M, g.arrM2L, base, m.St.ID, path, "array")
		key := [2]uintptr{p, uintptr(m.St.ID)<<24 | uintptr(m.Off)<<4 | 1}
		if g.visited[key] {
			return
		}
		g.visited[key] = true
		me := m.Elems()
		for i := range elems {
			g.obj(elems[i], me[i], fmt.Sprintf("%s[%d]", path, i))
		}
	case ref.Dict:
		v, ok := l.(postscript.Dict)
		if !ok {
			g.diff(path, "library has %s, reference %s", libShow(l), ref.Show(m))
			return
		}
		g.dict(v, m, path)
	case ref.Op:
		rv := reflect.ValueOf(l)
		if !rv.IsValid() || rv.Kind() != reflect.Func {
			g.diff(path, "library has %s, reference the operator %s", libShow(l), m.Name)
			return
		}
		if want, ok := g.bt[m.Name]; ok && rv.Pointer() != want {
			g.diff(path, "library has a different operator than %s", m.Name)
		}
	case ref.Opaque:
	default:
		g.diff(path, "comparer: unhandled model object %T", m)
	}
}

func (g *graphCmp) dict(l postscript.Dict, m ref.Dict, path string) {
	p := reflect.ValueOf(l).Pointer()
	g.bij(g.dictL2M, g.dictM2L, p, m.D.ID, path, "dictionary")
	key := [2]uintptr{p, uintptr(m.D.ID)<<4 | 2}
	if g.visited[key] {
		return
	}
	g.visited[key] = true
	if m.D.Label == "errordict" || m.D.Label == "systemdict" {
		// identity only: the error handlers are library-specific values, the
		// system dictionary is compared entry by entry in systemDict
		return
	}
	if len(l) != len(m.D.M) {
		var extra, missing []string
		for k := range l {
			if _, ok := m.D.M[string(k)]; !ok {
				extra = append(extra, string(k))
			}
		}
		for k := range m.D.M {
			if _, ok := l[postscript.Name(k)]; !ok {
				missing = append(missing, k)
			}
		}
		g.diff(path, "dictionary size: library %d, reference %d (only in library: %v; only in reference: %v)", len(l), len(m.D.M), extra, missing)
		return
	}
	for _, k := range m.Keys() {
		lv, ok := l[postscript.Name(k)]
		if !ok {
			g.diff(path, "key /%s missing in the library's dictionary", k)
			continue
		}
		g.obj(lv, m.D.M[k], path+"/"+k)
	}
}

// compareStates compares the whole interpreter state.
func compareStates(bt builtinTable, lib *postscript.Interpreter, m *ref.Interp, withSystem bool) []string {
	g := newGraphCmp(bt)
	if len(lib.Stack) != len(m.Stack) {
		g.diff("stack", "depth: library %d, reference %d; library top: %s", len(lib.Stack), len(m.Stack), libTop(lib))
	} else {
		for i := range m.Stack {
			g.obj(lib.Stack[i], m.Stack[i], fmt.Sprintf("stack[%d]", i))
		}
	}
	if len(lib.DictStack) != len(m.DStack) {
		g.diff("dictstack", "depth: library %d, reference %d", len(lib.DictStack), len(m.DStack))
	} else {
		for i := range m.DStack {
			g.dict(lib.DictStack[i], m.DStack[i], fmt.Sprintf("dictstack[%d]", i))
		}
	}
	g.dict(lib.UserDict, m.User, "userdict")
	g.dict(lib.FontDirectory, m.FontDir, "FontDirectory")
	g.bij(g.dictL2M, g.dictM2L, reflect.ValueOf(lib.ErrorDict).Pointer(), m.ErrorD.D.ID, "errordict", "dictionary")
	for _, cat := range m.ResOrder {
		ld, ok := lib.Resources[postscript.Name(cat)].(postscript.Dict)
		if !ok {
			g.diff("Resources/"+cat, "category missing in the library")
			continue
		}
		if cat == "ProcSet" || cat == "CMap" {
			continue
		}
		g.dict(ld, m.Resources[cat], "Resources/"+cat)
	}
	if withSystem {
		g.systemDict(lib, m)
	}
	return g.diffs
}

// systemDict compares the system dictionary entry by entry; the error
// dictionary's handlers and the CIDInit procedure set are library-specific
// values the model does not describe.
func (g *graphCmp) systemDict(lib *postscript.Interpreter, m *ref.Interp) {
	p := reflect.ValueOf(lib.SystemDict).Pointer()
	g.bij(g.dictL2M, g.dictM2L, p, m.System.D.ID, "systemdict", "dictionary")
	for _, k := range m.System.Keys() {
		lv, ok := lib.SystemDict[postscript.Name(k)]
		if !ok {
			g.diff("systemdict", "key /%s missing in the library", k)
			continue
		}
		if k == "errordict" {
			continue
		}
		mv := m.System.D.M[k]
		if d, isD := mv.(ref.Dict); isD && d.D == m.System.D {
			if ld, ok := lv.(postscript.Dict); !ok || reflect.ValueOf(ld).Pointer() != p {
				g.diff("systemdict/"+k, "not the system dictionary itself")
			}
			continue
		}
		g.obj(lv, mv, "systemdict/"+k)
	}
	for k := range lib.SystemDict {
		if _, ok := m.System.D.M[string(k)]; !ok {
			g.diff("systemdict", "library has extra key /%s", k)
		}
	}
}

func libTop(lib *postscript.Interpreter) string {
	var parts []string
	n := len(lib.Stack)
	for i := max(0, n-4); i < n; i++ {
		parts = append(parts, libShow(lib.Stack[i]))
	}
	return strings.Join(parts, " ")
}

func modelStackShow(m *ref.Interp) string {
	var parts []string
	for _, o := range m.Stack {
		parts = append(parts, ref.Show(o))
	}
	return strings.Join(parts, " ")
}

func libStackShow(lib *postscript.Interpreter) string {
	var parts []string
	for _, o := range lib.Stack {
		parts = append(parts, libShow(o))
	}
	return strings.Join(parts, " ")
}
