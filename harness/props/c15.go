package props

// C15 — AFM metrics survive writing and reading.
//
// Three clauses, three workloads:
//  (1) model round trip: afm.Read(M.Write()) == M for representable M;
//  (2) independent layout: the same M written by ref.WriteAFM (other spacing,
//      field order, comments, LF/CRLF) reads as M;
//  (3) closure on accepted input: F1=Read(x), F2=Read(Write(F1)),
//      F3=Read(Write(F2)); names/text equal, numbers change by less than 1,
//      F3 == F2 exactly.

import (
	"bytes"
	"fmt"
	"io"
	"math"
	"math/rand/v2"
	"sort"
	"strings"

	"seehuhn.de/go/postscript/afm"
	"seehuhn.de/go/postscript/funit"

	"verif/harness/mon"
	"verif/harness/ref"
	"verif/harness/rt"
)

func init() { register("C15", runC15) }

// compareMetrics: numTol < 0 means exact.
func compareMetrics(a, b *afm.Metrics, numTol float64, encodingToo bool) []string {
	var d []string
	add := func(f string, x ...any) {
		if len(d) < 10 {
			d = append(d, fmt.Sprintf(f, x...))
		}
	}
	numEq := func(x, y float64) bool {
		if numTol < 0 {
			return x == y || (math.IsNaN(x) && math.IsNaN(y))
		}
		return math.Abs(x-y) < numTol
	}
	if b == nil {
		return []string{"result is nil"}
	}
	for _, s := range []struct{ n, x, y string }{{"FontName", a.FontName, b.FontName}, {"FullName", a.FullName, b.FullName}, {"Version", a.Version, b.Version}, {"Notice", a.Notice, b.Notice}} {
		if s.x != s.y {
			add("%s = %q, expected %q", s.n, s.y, s.x)
		}
	}
	for _, s := range []struct {
		n    string
		x, y float64
	}{{"CapHeight", a.CapHeight, b.CapHeight}, {"XHeight", a.XHeight, b.XHeight}, {"Ascent", a.Ascent, b.Ascent}, {"Descent", a.Descent, b.Descent},
		{"UnderlinePosition", a.UnderlinePosition, b.UnderlinePosition}, {"UnderlineThickness", a.UnderlineThickness, b.UnderlineThickness}} {
		if !numEq(s.x, s.y) {
			add("%s = %v, expected %v", s.n, s.y, s.x)
		}
	}
	if a.ItalicAngle != b.ItalicAngle && !(math.IsNaN(a.ItalicAngle) && math.IsNaN(b.ItalicAngle)) {
		add("ItalicAngle = %v, expected %v", b.ItalicAngle, a.ItalicAngle)
	}
	if a.IsFixedPitch != b.IsFixedPitch {
		add("IsFixedPitch = %v, expected %v", b.IsFixedPitch, a.IsFixedPitch)
	}
	for _, n := range sortedMetricNames(a) {
		ga, gb := a.Glyphs[n], b.Glyphs[n]
		if gb == nil {
			add("glyph %q is missing", n)
			continue
		}
		if !numEq(ga.WidthX, gb.WidthX) {
			add("glyph %q: width %v, expected %v", n, gb.WidthX, ga.WidthX)
		}
		if !numEq(ga.BBox.LLx, gb.BBox.LLx) || !numEq(ga.BBox.LLy, gb.BBox.LLy) || !numEq(ga.BBox.URx, gb.BBox.URx) || !numEq(ga.BBox.URy, gb.BBox.URy) {
			add("glyph %q: box %v, expected %v", n, gb.BBox, ga.BBox)
		}
		if len(ga.Ligatures) != len(gb.Ligatures) {
			add("glyph %q: ligatures %v, expected %v", n, gb.Ligatures, ga.Ligatures)
		} else {
			for k, v := range ga.Ligatures {
				if gb.Ligatures[k] != v {
					add("glyph %q: ligatures %v, expected %v", n, gb.Ligatures, ga.Ligatures)
					break
				}
			}
		}
	}
	for _, n := range sortedMetricNames(b) {
		if a.Glyphs[n] == nil {
			add("unexpected glyph %q", n)
		}
	}
	if encodingToo {
		if len(a.Encoding) != len(b.Encoding) {
			add("encoding has %d entries, expected %d", len(b.Encoding), len(a.Encoding))
		} else {
			for i := range a.Encoding {
				if a.Encoding[i] != b.Encoding[i] {
					add("code %d is assigned to %q, expected %q", i, b.Encoding[i], a.Encoding[i])
					break
				}
			}
		}
	}
	if len(a.Kern) != len(b.Kern) {
		add("%d kerning pairs, expected %d", len(b.Kern), len(a.Kern))
	} else {
		for i := range a.Kern {
			if *a.Kern[i] != *b.Kern[i] {
				add("kerning pair %d is %v, expected %v", i, *b.Kern[i], *a.Kern[i])
				break
			}
		}
	}
	return d
}

func toAFMModel(rng *rand.Rand, m *afm.Metrics) *ref.AFMModel {
	am := &ref.AFMModel{FontName: m.FontName, FullName: m.FullName, Version: m.Version, Notice: m.Notice, Header: map[string]string{
		"CapHeight": ref.FormatInt(m.CapHeight), "XHeight": ref.FormatInt(m.XHeight), "Ascender": ref.FormatInt(m.Ascent), "Descender": ref.FormatInt(m.Descent),
		"UnderlinePosition": ref.FormatInt(m.UnderlinePosition), "UnderlineThickness": ref.FormatInt(m.UnderlineThickness),
		"ItalicAngle": ref.FormatInt(m.ItalicAngle), "IsFixedPitch": fmt.Sprint(m.IsFixedPitch)}}
	names := sortedMetricNames(m)
	rng.Shuffle(len(names), func(i, j int) { names[i], names[j] = names[j], names[i] })
	for _, n := range names {
		g := m.Glyphs[n]
		code := -1
		for i, e := range m.Encoding {
			if e == n && n != ".notdef" {
				code = i
			}
		}
		ag := ref.AFMGlyph{Name: n, Code: code, WX: ref.FormatInt(g.WidthX), HasBox: true,
			LLx: ref.FormatInt(g.BBox.LLx), LLy: ref.FormatInt(g.BBox.LLy), URx: ref.FormatInt(g.BBox.URx), URy: ref.FormatInt(g.BBox.URy)}
		if g.BBox.LLx == 0 && g.BBox.LLy == 0 && g.BBox.URx == 0 && g.BBox.URy == 0 && rng.IntN(2) == 0 {
			ag.HasBox = false
		}
		keys := make([]string, 0, len(g.Ligatures))
		for k := range g.Ligatures {
			keys = append(keys, k)
		}
		sort.Strings(keys)
		for _, k := range keys {
			ag.Ligs = append(ag.Ligs, [2]string{k, g.Ligatures[k]})
		}
		am.Glyphs = append(am.Glyphs, ag)
	}
	for _, k := range m.Kern {
		am.Kern = append(am.Kern, ref.AFMKern{Left: k.Left, Right: k.Right, Adjust: fmt.Sprint(int(k.Adjust))})
	}
	return am
}

// hugeOrNonFinite reports whether any number of the metrics lies outside the
// range where "rounding to an integer" is meaningful.
func hugeOrNonFinite(m *afm.Metrics) bool {
	bad := func(v float64) bool { return math.IsNaN(v) || math.IsInf(v, 0) || math.Abs(v) >= 1<<53 }
	for _, v := range []float64{m.CapHeight, m.XHeight, m.Ascent, m.Descent, m.UnderlinePosition, m.UnderlineThickness, m.ItalicAngle} {
		if bad(v) {
			return true
		}
	}
	for _, g := range m.Glyphs {
		if bad(g.WidthX) || bad(g.BBox.LLx) || bad(g.BBox.LLy) || bad(g.BBox.URx) || bad(g.BBox.URy) {
			return true
		}
	}
	return false
}

func runC15(r *rt.Runner) {
	// a metrics file of many megabytes (no long lines: very many kerning pairs)
	nHuge := r.N(1, 2)
	for k := 0; k < nHuge; k++ {
		k := k
		r.Case("huge", func(c *rt.C) {
			rng := rand.New(rand.NewPCG(r.Seed, uint64(k)+15))
			o := &afmOpts{representable: true, features: map[string]bool{}}
			m := genMetrics(rng, o, 20)
			var names []string
			for i := 0; i < 1000; i++ {
				n := fmt.Sprintf("glyph%04d", i)
				names = append(names, n)
				m.Glyphs[n] = &afm.GlyphInfo{WidthX: float64(rng.IntN(1000))}
			}
			m.Kern = m.Kern[:0]
			for i := 0; i < 660000+rng.IntN(20000); i++ {
				m.Kern = append(m.Kern, &afm.KernPair{Left: names[rng.IntN(len(names))], Right: names[rng.IntN(len(names))], Adjust: funit.Int16(rng.IntN(401) - 200)})
			}
			c.SetDetail(func() string { return fmt.Sprintf("%d glyphs, %d kerning pairs", len(m.Glyphs), len(m.Kern)) })
			var buf bytes.Buffer
			if err := m.Write(&buf); err != nil {
				c.Violation("huge|write-error", fmt.Sprintf("Write failed: %v", err), "")
				return
			}
			m1, err := afm.Read(bytes.NewReader(buf.Bytes()))
			if err != nil {
				c.Violation("huge|read-error", fmt.Sprintf("Read(Write(M)) failed on a file of %d bytes: %v", buf.Len(), err), "")
				return
			}
			if d := compareMetrics(m, m1, -1, true); len(d) > 0 {
				c.Violation("huge|roundtrip|"+diffKind15(d[0]), fmt.Sprintf("Read(Write(M)) differs from M (file of %d bytes, %d kerning pairs):\n  %s", buf.Len(), len(m.Kern), joinLines(d[:min(5, len(d))])), "")
			}
			c.Count("round trips of metrics files beyond 16 MiB")
			c.Runner().Max("largest metrics file written and read back (bytes)", int64(buf.Len()))
			c.Nontrivial([]byte(fmt.Sprintf("huge|%d|%d", k, len(m.Kern))), func() string { return fmt.Sprintf("%d kerning pairs, %d bytes", len(m.Kern), buf.Len()) })
		})
	}
	n := r.N(150000, 1500000)
	for k := 0; k < n; k++ {
		r.Case("model", func(c *rt.C) {
			rng := c.Rand()
			o := &afmOpts{representable: true, features: map[string]bool{}}
			m := genMetrics(rng, o, 20)
			c.SetDetail(func() string { return describeMetrics(m) })
			// clause 1
			var buf bytes.Buffer
			if err := m.Write(&buf); err != nil {
				c.Violation("model|write-error", fmt.Sprintf("Write failed: %v", err), "")
				return
			}
			text1 := append([]byte(nil), buf.Bytes()...)
			m1, err := afm.Read(afmSource(rng, text1))
			if err != nil {
				c.Violation("model|read-error", fmt.Sprintf("Read(Write(M)) failed: %v\n%s", err, head(text1, 1500)), "")
			} else if d := compareMetrics(m, m1, -1, true); len(d) > 0 {
				c.Violation("model|roundtrip|"+diffKind15(d[0]), "Read(Write(M)) differs from M:\n  "+joinLines(d), "written file:\n"+head(text1, 3000))
			}
			c.Count("model round trips")
			// clause 2
			text2 := ref.WriteAFM(rng, toAFMModel(rng, m))
			m2, err := afm.Read(afmSource(rng, text2))
			if err != nil {
				c.Violation("layout|read-error", fmt.Sprintf("reading the independently laid out file failed: %v\n%s", err, head(text2, 1500)), "")
			} else if d := compareMetrics(m, m2, -1, true); len(d) > 0 {
				c.Violation("layout|"+diffKind15(d[0]), "the independently laid out file reads differently from M:\n  "+joinLines(d), "file:\n"+head(text2, 3000))
			}
			// results belong to the caller: write into them (a later Read in this
			// process must not see it)
			for _, mm := range []*afm.Metrics{m1, m2} {
				if mm == nil {
					continue
				}
				for i := range mm.Encoding {
					mm.Encoding[i] = "scribbled"
				}
				for _, g := range mm.Glyphs {
					g.WidthX = -1
					for k := range g.Ligatures {
						g.Ligatures[k] = "scribbled"
					}
				}
			}
			c.Count("independent layouts read")
			for ft := range o.features {
				c.Count("feature: " + ft)
			}
			c.Nontrivial([]byte(describeMetrics(m)), func() string { return head([]byte(describeMetrics(m)), 400) })
		})
		r.Case("accepted", func(c *rt.C) {
			rng := c.Rand()
			x := genAcceptedAFM(rng)
			c.SetDetail(func() string { return fmt.Sprintf("input text:\n%s", head(x, 4000)) })
			f1, err := afm.Read(bytes.NewReader(x))
			if err != nil {
				c.Skip("input not accepted by the reader")
				return
			}
			if hugeOrNonFinite(f1) {
				c.Skip("non-finite or huge numbers (rounding to integers undefined)")
				return
			}
			cycle := func(f *afm.Metrics, tag string) *afm.Metrics {
				var buf bytes.Buffer
				if err := f.Write(&buf); err != nil {
					c.Violation("accepted|write-error", fmt.Sprintf("%s: Write failed: %v", tag, err), "")
					return nil
				}
				g, err := afm.Read(bytes.NewReader(buf.Bytes()))
				if err != nil {
					c.Violation("accepted|reread-error", fmt.Sprintf("%s: the written file is not accepted: %v\n%s", tag, err, head(buf.Bytes(), 1500)), "")
					return nil
				}
				return g
			}
			f2 := cycle(f1, "first cycle")
			if f2 == nil {
				return
			}
			if d := compareMetrics(f1, f2, 1, true); len(d) > 0 {
				c.Violation("accepted|first-cycle|"+diffKind15(d[0]), "one write/read cycle changed more than the rounding of numbers to integers:\n  "+joinLines(d), "")
			}
			f3 := cycle(f2, "second cycle")
			if f3 == nil {
				return
			}
			if d := compareMetrics(f2, f3, -1, true); len(d) > 0 {
				c.Violation("accepted|second-cycle|"+diffKind15(d[0]), "a second write/read cycle still changes the metrics:\n  "+joinLines(d), "")
			}
			c.Count("accepted inputs cycled twice")
			c.Nontrivial(x, func() string { return head(x, 300) })
		})
	}
}

func diffKind15(d string) string {
	for _, k := range []string{"FontName", "FullName", "Version", "Notice", "CapHeight", "XHeight", "Ascent", "Descent", "UnderlinePosition", "UnderlineThickness",
		"ItalicAngle", "IsFixedPitch", "is missing", "width", "box", "ligatures", "unexpected glyph", "encoding", "code", "kerning"} {
		if strings.Contains(d, k) {
			return k
		}
	}
	return "other"
}

// genAcceptedAFM produces AFM-like text: R7 output with fractional and
// out-of-range numbers, duplicates, missing fields, junk lines, and byte-level
// noise. Whether the reader accepts it is decided by the reader.
func genAcceptedAFM(rng *rand.Rand) []byte {
	o := &afmOpts{}
	m := genMetrics(rng, o, 12)
	am := toAFMModel(rng, m)
	num := func(s string) string {
		switch rng.IntN(10) {
		case 0:
			return s + ".5"
		case 1:
			return fmt.Sprintf("%.3f", rng.Float64()*2000-1000)
		case 2:
			return fmt.Sprint(rng.IntN(200000) - 100000)
		case 3:
			return []string{"1e3", "-0", "+5", "007", "1e-3", "0.999", "-0.5", "32767", "32768", "-32769", "65536"}[rng.IntN(11)]
		}
		return s
	}
	for k, v := range am.Header {
		if k != "IsFixedPitch" {
			am.Header[k] = num(v)
		} else if rng.IntN(4) == 0 {
			am.Header[k] = []string{"True", "yes", "false", "true"}[rng.IntN(4)]
		}
	}
	for i := range am.Glyphs {
		g := &am.Glyphs[i]
		if rng.IntN(3) == 0 {
			g.WX = fmt.Sprint(rng.IntN(200000) - 100000)
		} else if strings.Contains(g.WX, ".") && rng.IntN(10) > 0 {
			g.WX = g.WX[:strings.Index(g.WX, ".")] // the reader only accepts integral widths
		}
		g.LLx, g.LLy, g.URx, g.URy = num(g.LLx), num(g.LLy), num(g.URx), num(g.URy)
		if rng.IntN(10) == 0 {
			g.Code = rng.IntN(600) - 100
		}
		if rng.IntN(10) == 0 && i > 0 {
			g.Code = am.Glyphs[i-1].Code // duplicate code
		}
		if rng.IntN(12) == 0 && i > 0 {
			g.Name = am.Glyphs[i-1].Name // duplicate glyph
		}
	}
	for i := range am.Kern {
		if rng.IntN(4) == 0 {
			am.Kern[i].Adjust = fmt.Sprint(rng.IntN(200000) - 100000)
		}
	}
	if rng.IntN(5) == 0 {
		am.FontName = ""
	}
	text := ref.WriteAFM(rng, am)
	// line-level noise
	lines := strings.Split(string(text), "\n")
	var out []string
	for _, l := range lines {
		switch rng.IntN(40) {
		case 0:
			continue // dropped line
		case 1:
			out = append(out, l, l) // duplicated line
			continue
		case 2:
			out = append(out, "Junk line with ; semicolons ; and N words", l)
			continue
		case 3:
			out = append(out, "KPX onlythree fields", l)
			continue
		case 4, 5, 6:
			// a header keyword that occurs twice, with different texts
			if f := strings.Fields(l); len(f) >= 2 {
				switch f[0] {
				case "Notice", "Version", "FullName", "FontName", "Comment", "FamilyName", "Weight", "EncodingScheme":
					out = append(out, l, f[0]+" second "+f[0]+" line "+fmt.Sprint(rng.IntN(100)))
					continue
				}
			}
		}
		out = append(out, l)
	}
	return []byte(strings.Join(out, "\n"))
}

// afmSource hands the text to the reader through one of several kinds of
// source: a reader at its start, a seekable reader positioned behind another
// AFM text, a stream delivered in chunks.
func afmSource(rng *rand.Rand, text []byte) io.Reader {
	switch rng.IntN(5) {
	case 0:
		prefix := []byte("StartFontMetrics 4.1\nFontName Other\nNotice other file\nStartCharMetrics 1\nC 65 ; WX 999 ; N OtherGlyph ; B 1 2 3 4 ;\nEndCharMetrics\nStartKernData\nStartKernPairs 1\nKPX OtherGlyph OtherGlyph -7\nEndKernPairs\nEndKernData\nEndFontMetrics\n")
		br := bytes.NewReader(append(append([]byte(nil), prefix...), text...))
		br.Seek(int64(len(prefix)), io.SeekStart)
		return br
	case 1:
		return &mon.PlanReader{Data: text, Chunks: randChunks(rng)}
	}
	return bytes.NewReader(text)
}
