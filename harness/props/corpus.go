package props

// Input corpus and entry-point runners shared by C01, C12, C13 and C18.

import (
	"bytes"
	"fmt"
	"io"
	"math/rand/v2"
	"strings"

	"seehuhn.de/go/postscript"
	"seehuhn.de/go/postscript/afm"
	"seehuhn.de/go/postscript/pfb"
	"seehuhn.de/go/postscript/type1"

	"verif/harness/ref"
	"verif/harness/rt"
)

// entry kinds
const (
	kPS    = "ps"
	kCMap  = "cmap"
	kType1 = "type1"
	kAFM   = "afm"
	kPFB   = "pfb"
)

var allKinds = []string{kPS, kCMap, kType1, kAFM, kPFB}

type corpusItem struct {
	kind string
	data []byte
	desc string
	// marks: offsets worth probing (eexec start, PFB headers, ...)
	marks []int
}

// runEntry feeds r to the entry point and returns a digest of the result.
func runEntry(env *psEnv, kind string, r io.Reader) (string, error) {
	switch kind {
	case kPS:
		intp := postscript.NewInterpreter()
		intp.MaxOps = 300000
		err := intp.Execute(r)
		if err != nil {
			return "", err
		}
		return sha([]byte(libStateDigest(env.bt, intp))) + fmt.Sprintf("/ops=%d", intp.NumOps), nil
	case kCMap:
		d, err := postscript.ReadCMap(r)
		if err != nil {
			return "", err
		}
		dg := newLibDigester(env.bt)
		dg.dict(d)
		return sha([]byte(dg.sb.String())), nil
	case kType1:
		f, err := type1.Read(r)
		if err != nil {
			return "", err
		}
		return fontDigest(f), nil
	case kAFM:
		m, err := afm.Read(r)
		if err != nil {
			return "", err
		}
		return metricsDigest(m), nil
	case kPFB:
		b, err := io.ReadAll(pfb.Decode(r))
		if err != nil {
			return sha(b), err
		}
		return sha(b), nil
	}
	panic("bad kind")
}

// genCorpusItem draws one input for the given entry point. invalid asks for a
// variant with a content error.
func genCorpusItem(c *rt.C, env *psEnv, kind string, invalid bool) corpusItem {
	rng := c.Rand()
	it := corpusItem{kind: kind}
	switch kind {
	case kPS:
		full, _ := c02Pool()
		bm := newPairBitmap()
		var buf bytes.Buffer
		// filler so that interesting places straddle the 512-byte refills at every phase
		buf.WriteString("%!PS\n")
		for i, n := 0, rng.IntN(40); i < n; i++ {
			buf.WriteString("% filler comment line\n"[:1+rng.IntN(21)] + "\n")
		}
		if rng.IntN(2) == 0 {
			// structured comments with continuation lines, every line end style, also mixed
			les := []string{"\n", "\r", "\r\n"}
			le := func() string { return les[rng.IntN(3)] }
			if rng.IntN(2) == 0 {
				one := le()
				le = func() string { return one }
			}
			for i, n := 0, 1+rng.IntN(4); i < n; i++ {
				fmt.Fprintf(&buf, "%%%%Key%d: value %d%s", i, rng.IntN(100), le())
				for j := rng.IntN(3); j > 0; j-- {
					buf.WriteString([]string{"%%+ continued", "%%+", "%%+  more text "}[rng.IntN(3)] + le())
				}
				if rng.IntN(4) == 0 {
					buf.WriteString("%%" + le())
				}
				if rng.IntN(4) == 0 {
					buf.WriteString("% plain comment" + le())
				}
			}
		}
		g := &g3{rng: rng, feat: map[string]bool{}, maxD: 2}
		txt := ref.RenderTokens(g.body(0, 0))
		buf.WriteString(txt + "\n")
		if rng.IntN(2) == 0 {
			// binary data pulled out of the clear text with readstring: short
			// strings and strings longer than any internal buffer
			k := rng.IntN(40)
			if rng.IntN(2) == 0 {
				k = 400 + rng.IntN(1400)
			}
			data := make([]byte, k)
			for j := range data {
				data[j] = byte(rng.IntN(256))
			}
			fmt.Fprintf(&buf, "/RDc { string currentfile exch readstring pop } def /cleardata %d RDc ", k)
			if k > 0 && rng.IntN(2) == 0 {
				data[k-1] = "\n\r"[rng.IntN(2)] // the data ends with a line end ...
			}
			buf.Write(data)
			if rng.IntN(2) == 0 {
				// ... and a structured comment follows it immediately: whether it starts
				// in column 0 depends on the data bytes, not on how they were delivered
				buf.WriteString("%%EndData: yes\n def\n")
			} else {
				buf.WriteString(" def\n")
			}
		}
		if rng.IntN(2) == 0 {
			P, _ := genEexecPlain(c, env, full)
			plain := append(append([]byte(nil), P...), "currentfile closefile\n"...)
			lay := layoutSection(rng, plain, bm, false)
			buf.WriteString("currentfile eexec\n")
			it.marks = append(it.marks, buf.Len())
			buf.Write(lay.text)
			buf.WriteString("\n/after 2 def\n")
		}
		if rng.IntN(4) == 0 {
			// the program closes its own file in clear text; what follows is never read as program
			buf.WriteString("mark currentfile closefile\n" + strings.Repeat("00000000000000000000000000000000\n", 1+rng.IntN(20)) + "cleartomark ) } > never executed\n")
		}
		it.data = buf.Bytes()
		it.desc = "program"
	case kCMap:
		maps := []*ref.MCMap{ref.GenCMap(rng, fmt.Sprintf("CM%d", rng.IntN(100)))}
		if len(maps[0].Blocks) > 8 {
			maps[0].Blocks = maps[0].Blocks[:8]
		}
		it.data = ref.RenderFile(rng, maps)
		it.desc = "CMap file"
	case kType1:
		if rng.IntN(3) == 0 {
			o := &fontOpts{maxGlyphs: 6, fractional: true, hostileStr: true}
			f := genFont(rng, o)
			var buf bytes.Buffer
			fm := allFormats[rng.IntN(4)]
			f.Write(&buf, &type1.WriterOptions{Format: fm.f})
			it.data = buf.Bytes()
			it.desc = "font written by the library, " + fm.name
		} else {
			save := wildModel
			wildModel = false
			mf := genModelFont(rng)
			wildModel = save
			if len(mf.w.Glyphs) > 8 {
				mf.w.Glyphs = mf.w.Glyphs[:8]
				// composites may refer to dropped glyphs: drop them too
				var keep []*ref.WGlyph
				for _, g := range mf.w.Glyphs {
					if g.Seac == nil {
						keep = append(keep, g)
					}
				}
				mf.w.Glyphs = keep
			}
			it.data = ref.RenderType1(rng, mf.w, mf.lay)
			it.desc = "font written by the independent writer, " + mf.lay.Container
		}
		if i := bytes.Index(it.data, []byte("eexec")); i >= 0 {
			it.marks = append(it.marks, i+6)
		}
		if len(it.data) > 0 && it.data[0] == 0x80 {
			for i := 0; i+6 <= len(it.data); {
				it.marks = append(it.marks, i, i+6)
				if it.data[i+1] == 3 {
					break
				}
				n := int(it.data[i+2]) | int(it.data[i+3])<<8 | int(it.data[i+4])<<16 | int(it.data[i+5])<<24
				i += 6 + n
			}
		}
	case kAFM:
		o := &afmOpts{representable: rng.IntN(2) == 0}
		m := genMetrics(rng, o, 10)
		if rng.IntN(2) == 0 {
			var buf bytes.Buffer
			m.Write(&buf)
			it.data = buf.Bytes()
		} else {
			it.data = ref.WriteAFM(rng, toAFMModel(rng, m))
		}
		it.desc = "AFM file"
		if rng.IntN(5) == 0 {
			// a file without the customary first line whose first line carries
			// data, with things in front of it that editors and transfers leave
			// there: whatever the reader makes of them must not depend on how
			// many bytes its first read returns
			pre := []string{"\xef\xbb\xbf", "\xef\xbb\xbf", "\xef\xbb\xbf", "\xef\xbb\xbf", "\xfe\xff", "\xff\xfe", "\x04", " ", "\t", "\r\n", "\x00", "\x1a", "\xef\xbb", "\xef"}[rng.IntN(14)]
			key := []string{"FontName Demo", "Notice first line", "CapHeight 700", "StartCharMetrics 1", "IsFixedPitch true"}[rng.IntN(5)]
			it.data = []byte(pre + key + "\nStartCharMetrics 2\nC 65 ; WX 500 ; N A ; B 0 0 10 10 ;\nC 66 ; WX 600 ; N B ;\nEndCharMetrics\nEndFontMetrics\n")
			it.desc = "AFM file without the customary first line, with bytes in front of its first keyword"
		}
	case kPFB:
		var segs []pfbSeg
		for i, n := 0, 1+rng.IntN(5); i < n; i++ {
			d := make([]byte, rng.IntN(700))
			for j := range d {
				d[j] = byte(rng.IntN(256))
			}
			segs = append(segs, pfbSeg{byte(1 + rng.IntN(2)), d})
		}
		it.data, _ = framePFB(segs, rng.IntN(4) > 0, nil)
		off := 0
		for _, s := range segs {
			it.marks = append(it.marks, off, off+6)
			off += 6 + len(s.data)
		}
		it.desc = "PFB stream"
	}
	if invalid && len(it.data) > 10 {
		d := append([]byte(nil), it.data...)
		switch rng.IntN(3) {
		case 0:
			d = d[:rng.IntN(len(d))]
			it.desc += ", truncated"
		case 1:
			p := rng.IntN(len(d))
			d[p] ^= byte(1 + rng.IntN(255))
			it.desc += ", one byte changed"
		default:
			p := rng.IntN(len(d))
			d = append(d[:p], append([]byte(" undefinedname } ) > "), d[p:]...)...)
			it.desc += ", junk inserted"
		}
		it.data = d
	}
	return it
}

func randChunks(rng *rand.Rand) []int {
	n := 1 + rng.IntN(8)
	p := make([]int, n)
	for i := range p {
		p[i] = 1 + rng.IntN(700)
		if rng.IntN(3) == 0 {
			p[i] = 1 + rng.IntN(8)
		}
	}
	return p
}
