package props

// Canary over process-wide state of the library (runs after every case of the
// checks named below): the exported table psenc.StandardEncoding is shared by
// every reader, writer and interpreter of the process, so a call that writes
// into it (through a slice of it held by a font, or directly) changes what
// every later call reads and writes. The case that did it is the one that
// has just finished; the table is put back so that one defect gives one
// report per offending case, not a cascade.

import (
	"fmt"

	"seehuhn.de/go/postscript/psenc"

	"verif/harness/ref"
	"verif/harness/rt"
)

var canaryStdEnc []string

func init() { rt.AfterCase = canary }

func canary(c *rt.C) {
	switch c.Runner().Prop {
	case "C06", "C08", "C09", "C10", "C17", "C18":
	default:
		return
	}
	if canaryStdEnc == nil {
		canaryStdEnc = ref.MustStdEnc()
	}
	var bad []string
	for i := range psenc.StandardEncoding {
		if psenc.StandardEncoding[i] != canaryStdEnc[i] {
			if len(bad) < 5 {
				bad = append(bad, fmt.Sprintf("code %d: %q instead of %q", i, psenc.StandardEncoding[i], canaryStdEnc[i]))
			}
			psenc.StandardEncoding[i] = canaryStdEnc[i]
		}
	}
	if len(bad) > 0 {
		c.Violation("canary|StandardEncoding", fmt.Sprintf("the process-wide standard encoding table was modified during this case (every later reader, writer and interpreter of the process sees the change): %v", bad), "")
	}
	c.Runner().Count("canary checks of the shared standard encoding table", 1)
}
