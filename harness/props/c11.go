package props

// C11 — Operation budget, resource limits and the %! start check.
//
// Clause map:
//  (1) budget N: ErrExecutionLimitExceeded as soon as more than N operations
//      would run, counter never past N+1, programs needing <= N operations end
//      in the unbudgeted state          -> every cut point N in 1..ops(P)+2,
//                                          step hook records the per-step trace
//  (2) runaway operand stack / dictionary stack / execution nesting cut off by
//      stackoverflow / dictstackoverflow / execstackoverflow, oversized
//      containers by limitcheck          -> runaway shapes with a large budget,
//                                          hook-observed peaks under generous caps
//  (3) CheckStart: anything not starting with %! is rejected with
//      ErrNoPostScript before anything runs; not repeated once passed
//                                        -> all 65536 two-byte prefixes (+ short inputs)
// Implementation constants (100/500/20/65536) are not pinned: peaks are held
// against generous caps only.

import (
	"fmt"
	"sort"
	"strings"

	"seehuhn.de/go/postscript"

	"verif/harness/ref"
	"verif/harness/rt"
)

func init() { register("C11", runC11) }

type stepRec struct{ numOps, stack, dstack, depth int }

type stepTrace struct {
	steps   []stepRec
	maxOver int // max of NumOps-MaxOps seen with a budget set
	peakSt  int
	peakDS  int
	peakEx  int
	badInc  int
	last    int
}

func (t *stepTrace) hook(_ *postscript.Interpreter, s postscript.VerifStep) {
	rt.Progress.Add(1)
	if t.last != 0 && s.NumOps != t.last+1 {
		t.badInc++
	}
	t.last = s.NumOps
	if len(t.steps) < 200000 {
		t.steps = append(t.steps, stepRec{s.NumOps, s.StackLen, s.DictStackLen, s.ExecDepth})
	}
	if s.MaxOps > 0 && s.NumOps-s.MaxOps > t.maxOver {
		t.maxOver = s.NumOps - s.MaxOps
	}
	t.peakSt = max(t.peakSt, s.StackLen)
	t.peakDS = max(t.peakDS, s.DictStackLen)
	t.peakEx = max(t.peakEx, s.ExecDepth)
	if s.StackLen > 20000 || s.DictStackLen > 2000 || s.ExecDepth > 2000 {
		// far beyond every limit of the interpreter: growth is not being cut
		// off. Name look-up walks the whole dictionary stack, so letting the
		// run continue to its budget would take hours; abandon it (the
		// monitor's own panic, recovered in runTraced).
		panic(growthAbort{})
	}
}

type growthAbort struct{}

var errGrowthAbandoned = fmt.Errorf("run abandoned by the monitor: a stack grew far beyond its limit")

// runTraced runs text in a fresh interpreter with the given budget.
func runTraced(text string, budget int, checkStart bool) (*postscript.Interpreter, error, *stepTrace) {
	tr := &stepTrace{}
	intp := postscript.NewInterpreter()
	intp.MaxOps = budget
	intp.CheckStart = checkStart
	postscript.VerifStepHook = tr.hook
	var err error
	func() {
		defer func() {
			if p := recover(); p != nil {
				if _, ok := p.(growthAbort); !ok {
					panic(p)
				}
				err = errGrowthAbandoned
			}
		}()
		err = intp.ExecuteString(text)
	}()
	postscript.VerifStepHook = nil
	return intp, err, tr
}

func runC11(r *rt.Runner) {
	env := newPSEnv()

	// ---- (1) every cut point
	cutProgram := func(c *rt.C, text, fp string) {
		c.SetDetail(func() string { return "program: " + text })
		// the reference run gets a budget far above the sweep range only to
		// bound non-terminating generated programs; those are skipped
		ref0, err0, tr0 := runTraced(text, 100000, false)
		ops := ref0.NumOps
		if ops > 4000 || err0 == postscript.ErrExecutionLimitExceeded {
			c.Skip("more than 3000 operations")
			return
		}
		if tr0.badInc > 0 {
			c.Violation(fp+"|counter-step", fmt.Sprintf("the operation counter did not advance by exactly one between two hook calls (%d times)\nprogram: %s", tr0.badInc, text), "")
		}
		dig0 := libStateDigest(env.bt, ref0)
		c.Count("programs swept over every cut point")
		c.Runner().Max("operations per program", int64(ops))
		for n := 1; n <= ops+2; n++ {
			intp, err, tr := runTraced(text, n, false)
			c.Eval()
			c.Count("budgeted runs")
			c.Runner().Count("hook steps observed", int64(len(tr.steps)))
			key := fmt.Sprintf("%s|N=%d", fp, n)
			if n < ops {
				c.Count("budget cut the program")
				if err != postscript.ErrExecutionLimitExceeded {
					c.Violation(fp+"|no-limit-error", fmt.Sprintf("budget %d < %d operations needed: Execute returned %v instead of ErrExecutionLimitExceeded\nprogram: %s", n, ops, err, text), "")
					return
				}
				if intp.NumOps != n+1 {
					c.Violation(fp+"|counter-at-return", fmt.Sprintf("budget %d: counter is %d at return, expected exactly %d\nprogram: %s", n, intp.NumOps, n+1, text), "")
					return
				}
				if n%7 == 1 {
					// a later call on the exhausted interpreter: still the budget error, still N+1
					postscript.VerifStepHook = tr.hook
					err2 := intp.ExecuteString("1 2 add")
					postscript.VerifStepHook = nil
					c.Count("later calls after the budget was used up")
					// (when another limit is exceeded as well - a full operand stack - its error may come first)
					if err2 == nil || intp.NumOps != n+1 {
						c.Violation(fp+"|later-call", fmt.Sprintf("budget %d used up; a later Execute call returned %v and left the counter at %d (expected an error and %d)\nprogram: %s", n, err2, intp.NumOps, n+1, text), "")
						return
					}
				}
			} else {
				c.Count("budget sufficient")
				if (err == nil) != (err0 == nil) || (err != nil && err.Error() != err0.Error()) {
					c.Violation(fp+"|sufficient-budget-error", fmt.Sprintf("budget %d >= %d operations needed: Execute returned %v, without budget %v\nprogram: %s", n, ops, err, err0, text), "")
					return
				}
				if intp.NumOps != ops {
					c.Violation(fp+"|sufficient-budget-counter", fmt.Sprintf("budget %d: counter %d, without budget %d\nprogram: %s", n, intp.NumOps, ops, text), "")
					return
				}
				if dig := libStateDigest(env.bt, intp); dig != dig0 {
					c.Violation(fp+"|sufficient-budget-state", fmt.Sprintf("budget %d >= %d operations needed, but the final state differs from the unbudgeted run %s\nprogram: %s", n, ops, firstDiff(dig0, dig), text), "")
					return
				}
			}
			if tr.maxOver > 1 {
				c.Violation(fp+"|counter-overshoot", fmt.Sprintf("budget %d: the counter reached %d (more than N+1) during the run\nprogram: %s", n, n+tr.maxOver, text), "")
				return
			}
			// the budgeted trace must be a prefix of the unbudgeted one
			for i, s := range tr.steps {
				if i >= len(tr0.steps) {
					break
				}
				if s != tr0.steps[i] {
					c.Violation(fp+"|trace-prefix", fmt.Sprintf("budget %d: step %d has (ops %d, stack %d, dictstack %d, nesting %d), the unbudgeted run (ops %d, stack %d, dictstack %d, nesting %d)\nprogram: %s",
						n, i, s.numOps, s.stack, s.dstack, s.depth, tr0.steps[i].numOps, tr0.steps[i].stack, tr0.steps[i].dstack, tr0.steps[i].depth, text), "")
					return
				}
			}
			if n == 1 || n == ops || n == ops/2 {
				c.Nontrivial([]byte(key+"|"+text), func() string { return fmt.Sprintf("N=%d ops=%d: %s", n, ops, text) })
			}
		}
	}
	for _, p := range c11CutPinned {
		p := p
		r.Case("cut/pinned", func(c *rt.C) { cutProgram(c, p, "cut-pinned:"+p) })
	}
	nCut := r.N(2500, 60000)
	for k := 0; k < nCut; k++ {
		r.Case("cut/generated", func(c *rt.C) {
			var prog []ref.Tok
			if c.Rand().IntN(3) == 0 {
				prog = genDataProgram(c, env, c02PoolFull)
			} else {
				g := &g3{rng: c.Rand(), feat: map[string]bool{}, maxD: 2 + c.Rand().IntN(3)}
				prog = g.body(0, 0)
			}
			cutProgram(c, ref.RenderTokens(prog), "cut")
		})
	}

	// ---- (2) runaway shapes
	for _, sh := range c11Shapes {
		sh := sh
		r.Case("runaway/"+sh.name, func(c *rt.C) {
			c.SetDetail(func() string { return "program: " + sh.text })
			budget := 5_000_000
			if strings.HasPrefix(sh.name, "swallowed-") || strings.HasPrefix(sh.name, "budgeted-") {
				budget = 300_000
			}
			intp, err, tr := runTraced(sh.text, budget, false)
			got := errName(err)
			c.Count("runaway shapes")
			c.Runner().Max("peak operand stack (hook)", int64(tr.peakSt))
			c.Runner().Max("peak dictionary stack (hook)", int64(tr.peakDS))
			c.Runner().Max("peak execution nesting (hook)", int64(tr.peakEx))
			c.Runner().Count("hook steps observed", int64(tr.last))
			ok := false
			for _, w := range sh.want {
				if got == w || (w == "(budget)" && err == postscript.ErrExecutionLimitExceeded) {
					ok = true
				}
			}
			if !ok && sh.want != nil {
				c.Violation("runaway:"+sh.name+"|error", fmt.Sprintf("expected the run to be cut off by %v; Execute returned %v after %d operations (stack %d, dictstack %d)\nprogram: %s",
					sh.want, err, intp.NumOps, len(intp.Stack), len(intp.DictStack), sh.text), "")
			}
			if tr.peakSt > 10000 || tr.peakDS > 1000 || tr.peakEx > 1000 || len(intp.Stack) > 10000 || len(intp.DictStack) > 1000 {
				c.Violation("runaway:"+sh.name+"|peak", fmt.Sprintf("growth was not cut off: peak operand stack %d, dictionary stack %d, execution nesting %d\nprogram: %s", tr.peakSt, tr.peakDS, tr.peakEx, sh.text), "")
			}
			c.Nontrivial([]byte("runaway|"+sh.text), func() string { return sh.text + " -> " + got })
		})
	}

	// ---- (2b) no operator can make the budget error disappear: for every name
	// in systemdict (found at run time, so operators added later are included)
	// a procedure that never ends is handed to the operator in every operand
	// position pattern. If the endless loop is entered, the run has to end with
	// the budget error and the counter at N+1, whatever the operator does with
	// errors of its procedure.
	{
		probe := postscript.NewInterpreter()
		var opNames []string
		for k := range probe.SystemDict {
			opNames = append(opNames, string(k))
		}
		sortStrings(opNames)
		pre := []string{"", "true", "false true", "3", "0 1 5", "[ 1 2 ]", "(ab)", "<< /k 1 >>", "{ } ", "true { }", "mark"}
		for _, op := range opNames {
			op := op
			r.Case("budget-vs-operator/"+op, func(c *rt.C) {
				const N = 700
				for _, p := range pre {
					for _, tail := range []string{"", " 1 2 add", " pop 7"} {
						text := p + " { { 1 pop } loop } " + op + tail
						intp, err, tr := runTraced(text, N, false)
						c.Eval()
						c.Count("operator x endless procedure runs")
						if intp.NumOps > N+1 || tr.maxOver > 1 {
							c.Violation("budget-vs-operator|"+op+"|overshoot", fmt.Sprintf("budget %d: the counter reached %d\nprogram: %s", N, max(intp.NumOps, N+tr.maxOver), text), "")
							return
						}
						if intp.NumOps > N && err != postscript.ErrExecutionLimitExceeded {
							c.Violation("budget-vs-operator|"+op+"|swallowed", fmt.Sprintf("budget %d was used up (counter %d) but Execute returned %v instead of ErrExecutionLimitExceeded\nprogram: %s", N, intp.NumOps, err, text), "")
							return
						}
						if intp.NumOps > N {
							c.Count("operator x endless procedure runs ended by the budget")
						}
					}
				}
				c.Nontrivial([]byte("bvo|"+op), func() string { return "{ { 1 pop } loop } " + op })
			})
		}
	}

	// ---- (2c) just below the limit of the execution nesting: leaving a loop by exit,
	// or the program by stop, from the bottom of a recursion needs no more levels
	// than returning normally does (the limit is found by running, not pinned)
	r.Case("near-the-nesting-limit", func(c *rt.C) {
		prog := func(leaf string, n int, tail string) string {
			return fmt.Sprintf("{ /r { dup 0 eq { pop %s } { 1 sub r } ifelse } def %d r %s } loop 7", leaf, n, tail)
		}
		deepest := func(leaf, tail string, ok func(intp *postscript.Interpreter, err error) bool) int {
			best := 0
			for n := 1; n <= 400; n++ {
				intp, err, _ := runTraced(prog(leaf, n, tail), 200000, false)
				c.Eval()
				if !ok(intp, err) {
					break
				}
				best = n
			}
			return best
		}
		plain := deepest("5 pop", "exit", func(intp *postscript.Interpreter, err error) bool { return err == nil && len(intp.Stack) == 1 })
		byExit := deepest("exit", "9", func(intp *postscript.Interpreter, err error) bool { return err == nil && len(intp.Stack) == 1 })
		byStop := deepest("stop", "9", func(intp *postscript.Interpreter, err error) bool { return err == nil && len(intp.Stack) == 0 })
		c.Runner().Max("deepest recursion that returns normally", int64(plain))
		c.Count("near-limit recursion probes")
		c.SetDetail(func() string {
			return fmt.Sprintf("deepest working recursion: returning normally %d, leaving by exit %d, by stop %d", plain, byExit, byStop)
		})
		if plain < 20 || plain >= 400 {
			c.Inconclusive(fmt.Sprintf("recursion depth limit not found (%d)", plain))
			return
		}
		if byExit < plain-1 || byStop < plain-1 {
			c.Violation("near-limit|exit-or-stop", fmt.Sprintf("a recursion %d deep returns normally, but leaving the enclosing loop by exit works only to depth %d and ending the program by stop to depth %d\nprogram shape: %s", plain, byExit, byStop, prog("exit", plain, "9")), "")
		}
		c.Nontrivial([]byte("near-limit"), func() string { return fmt.Sprintf("plain %d exit %d stop %d", plain, byExit, byStop) })
	})

	// ---- (3) start check, all two-byte prefixes
	tail := " /zz 42 def 7 8 9\n"
	for hi := 0; hi < 256; hi++ {
		hi := hi
		r.Case(fmt.Sprintf("startcheck/%02X", hi), func(c *rt.C) {
			for lo := 0; lo < 256; lo++ {
				text := string([]byte{byte(hi), byte(lo)}) + tail
				checkStartCase(c, env, text, hi == '%' && lo == '!')
			}
		})
	}
	r.Case("startcheck/short", func(c *rt.C) {
		checkStartCase(c, env, "", false)
		for b := 0; b < 256; b++ {
			checkStartCase(c, env, string([]byte{byte(b)}), false)
		}
		checkStartCase(c, env, "%!", true)
		checkStartCase(c, env, "%!PS-AdobeFont-1.0\n/zz 42 def 7 8 9", true)
		checkStartCase(c, env, " %!\n7", false)
		checkStartCase(c, env, "\n%!\n7", false)
		checkStartCase(c, env, "%\n!7", false)
		checkStartCase(c, env, "%%!\n7", false)
		// things that are found in front of `%!` in files from other systems: a
		// byte order mark, Ctrl-D, a printer job language header, a MacBinary or
		// PFB header - the input does not begin with `%!`
		for _, pre := range []string{"\xef\xbb\xbf", "\xfe\xff", "\xff\xfe", "\x04", "\x1b%-12345X", "\x1b%-12345X@PJL\n", "\x80\x01\x10\x00\x00\x00", "\r\n", "\x00", "\t", "\f", "\xc2\xa0", "\xe2\x80\x8b", "%", "!", "%%", "%\xef\xbb\xbf!"} {
			checkStartCase(c, env, pre+"%!PS-AdobeFont-1.0\n/zz 42 def 7 8 9\n", false)
			checkStartCase(c, env, pre+"%!", false)
		}
		// the first call passes the check and then fails: the check has been
		// passed all the same, and is not repeated
		for _, t := range []string{"%!\n1 (a) add", "%!\nexit", "%!\nnosuchname", "%!\ncurrentfile closefile", "%! 1 2\n{ 1 dict begin } loop", "%!PS\n1 2 stop 3", "%!\n16777216 array", "%!\n1 0 idiv",
			"%!\n<zz>", "%!\n)", "%!\n1 2 3 currentfile eexec\n" + hexSection("4 5 nosuchname "), "%!"} {
			checkStartCase(c, env, t, true)
		}
	})
}

func checkStartCase(c *rt.C, env *psEnv, text string, isPS bool) {
	c.Eval()
	c.Count("start-check inputs")
	fp := fmt.Sprintf("startcheck:%q", text[:min(2, len(text))])
	intp, err, tr := runTraced(text, 100000, true)
	c.Nontrivial([]byte("start|"+text), func() string { return fmt.Sprintf("%q -> %v", text, err) })
	if !isPS {
		if err != postscript.ErrNoPostScript {
			c.Violation(fp+"|not-rejected", fmt.Sprintf("input %q does not begin with %%!, Execute returned %v instead of ErrNoPostScript", text, err), "")
			return
		}
		if tr.last != 0 || len(intp.Stack) != 0 || len(intp.DictStack) != 2 || intp.NumOps != 0 || len(intp.UserDict) != 0 {
			c.Violation(fp+"|executed-before-reject", fmt.Sprintf("input %q was rejected, but %d operations ran (stack %d, userdict %d entries)", text, intp.NumOps, len(intp.Stack), len(intp.UserDict)), "")
		}
		return
	}
	c.Count("start-check inputs beginning with %!")
	if err == postscript.ErrNoPostScript {
		c.Violation(fp+"|rejected", fmt.Sprintf("input %q begins with %%! but was rejected", text), "")
		return
	}
	// the check is not repeated on later calls
	before := len(intp.Stack)
	err2 := intp.ExecuteString("11 12")
	if err2 != nil || len(intp.Stack) != before+2 {
		c.Violation(fp+"|repeated", fmt.Sprintf("after %q passed the start check, a second Execute of input without %%! returned %v (stack %d -> %d)", text, err2, before, len(intp.Stack)), "")
	}
}

var c02PoolFull, _ = c02Pool()

var c11CutPinned = []string{
	"1 2 add",
	"true { true { true { 1 2 add } if } if } if",
	"0 1 3 { 0 1 3 { add } for } for",
	"/p { 1 2 add } def p p p",
	"{ { { 1 } exec } exec } exec 2",
	"3 { 2 { 1 } repeat } repeat",
	"[ 1 2 3 ] { { 4 } exec } forall",
	"/c 0 def { /c c 1 add def c 3 eq { exit } if } loop 9",
	"1 (a) add",
	"true { 1 (a) add } if",
	"0 1 2 { true { 1 (a) add } if } for",
	"undefinedname",
	"{ undefinedname } exec",
	"1 2 stop 3",
	"0 1 3 { exit } for 5",
	"<< /a 1 >> begin a end",
	"",
	"   ",
	"% comment only\n",
	// programs that end at a resource limit: every budget below that point must
	// still give the budget error (and nothing else), every budget above it the limit's error
	"{ 1 1 } loop",
	"{ 1 } loop",
	"7 { dup dup } loop",
	"1 2 3 { 3 copy } loop",
	"{ mark } loop",
	"/p { p 1 } def p",
	"/p { 1 p } def 5 p",
	"/a { b 1 } def /b { a 2 } def a",
	"{ 1 dict begin } loop",
	"{ userdict begin 1 } loop",
	"errordict /typecheck { 1 (a) add } put 1 (a) add",
	"errordict /undefined { pop 7 } put nosuchname nosuchname 8",
	"errordict /stackoverflow { } put { 1 } loop",
	"16777216 array",
	// loops that announce far more rounds than they run: the budget counts what
	// is executed, not what is announced
	"7 1000000 { exit } repeat 1 add",
	"0 1 1000000 { exit } for 5",
	"1000000 { stop } repeat",
	"3 2147483647 { pop exit } repeat 4",
	"100000 string { exit } forall 6",
	// large requests that succeed: they are one operation each, whatever they allocate
	"65535 string pop 1", "5000 array length 2", "3000 dict pop 3", "1024 string 1025 array 1023 dict 4", "65535 array pop 65535 string pop 5",
	"currentfile eexec\n" + hexSection("{ 1 1 } loop "),
	"currentfile eexec\n" + hexSection("/p { p 1 } def p "),
	"/p { currentfile eexec } def p\n" + hexSection("/x 1 def { 1 } loop "),
	"18 { userdict begin } repeat { currentfile eexec } exec\n" + hexSection("1 2 add userdict begin "),
}

var c11Shapes = []struct {
	name, text string
	want       []string
}{
	{"loop-push", "{ 1 } loop", []string{"stackoverflow"}},
	{"loop-dup", "7 { dup } loop", []string{"stackoverflow"}},
	{"for-push", "0 1 100000000 { } for", []string{"stackoverflow"}},
	{"repeat-push", "100000000 { 1 } repeat", []string{"stackoverflow"}},
	{"forall-push", "60000 string { } forall", []string{"stackoverflow"}},
	{"mark-loop", "{ mark } loop", []string{"stackoverflow"}},
	{"array-literal-growth", "[ { 1 } loop ]", []string{"stackoverflow"}},
	{"name-recursion", "/p { p 1 } def p", []string{"execstackoverflow"}},
	{"mutual-recursion", "/a { b 1 } def /b { a 2 } def a", []string{"execstackoverflow"}},
	{"exec-recursion", "/p { { p } exec 1 } def p", []string{"execstackoverflow"}},
	{"if-recursion", "/p { true { p } if 1 } def p", []string{"execstackoverflow"}},
	{"ifelse-recursion", "/p { false { } { p } ifelse 1 } def p", []string{"execstackoverflow"}},
	{"self-exec", "{ dup exec 1 } dup exec", []string{"execstackoverflow"}},
	{"self-stored", "/a 1 array def a 0 { a 0 get exec 1 } put a 0 get exec", []string{"execstackoverflow"}},
	{"for-recursion", "/p { 0 1 0 { pop p } for 1 } def p", []string{"execstackoverflow"}},
	{"forall-recursion", "/p { [ 1 ] { pop p } forall 1 } def p", []string{"execstackoverflow"}},
	{"loop-recursion", "/p { { p exit } loop 1 } def p", []string{"execstackoverflow"}},
	{"repeat-recursion", "/p { 1 { p } repeat 1 } def p", []string{"execstackoverflow"}},
	{"exec-chain-300", strings.Repeat("{ ", 300) + "1" + strings.Repeat(" } exec", 300), []string{"execstackoverflow"}},
	{"begin-loop", "{ 1 dict begin } loop", []string{"dictstackoverflow"}},
	{"begin-userdict-loop", "{ userdict begin } loop", []string{"dictstackoverflow"}},
	{"begin-recursion", "/p { currentdict begin p } def p", []string{"dictstackoverflow", "execstackoverflow"}},
	{"handler-fails", "errordict /typecheck { 1 (a) add } put 1 (a) add", []string{"typecheck", "execstackoverflow", "stackoverflow"}},
	{"handler-recurses-undefined", "errordict /undefined { nosuchname } put nosuchname", []string{"undefined", "execstackoverflow", "stackoverflow"}},
	{"handler-loops", "errordict /typecheck { { 1 (a) add } loop } put 1 (a) add", []string{"typecheck", "execstackoverflow", "stackoverflow"}},
	{"handler-pushes", "errordict /stackoverflow { { 1 } loop } put { 1 } loop", []string{"stackoverflow"}},
	{"array-2^24", "16777216 array", []string{"limitcheck", "VMerror"}},
	{"string-2^24", "16777216 string", []string{"limitcheck", "VMerror"}},
	{"dict-2^24", "16777216 dict", []string{"limitcheck", "VMerror"}},
	{"array-2^31", "2147483648 array", []string{"limitcheck", "VMerror"}},
	{"string-2^31", "2147483648 string", []string{"limitcheck", "VMerror"}},
	{"dict-2^31", "2147483648 dict", []string{"limitcheck", "VMerror"}},
	{"array-maxint", "9223372036854775807 array", []string{"limitcheck", "VMerror"}},
	{"string-maxint", "9223372036854775807 string", []string{"limitcheck", "VMerror"}},
	{"dict-maxint", "9223372036854775807 dict", []string{"limitcheck", "VMerror"}},
	{"array-in-loop", "{ 16777216 array } loop", []string{"limitcheck", "VMerror"}},
	// sizes whose product with an element size wraps around 2^64 to something small
	{"array-2^60", "1152921504606846976 array", []string{"limitcheck", "VMerror"}},
	{"dict-2^60", "1152921504606846976 dict", []string{"limitcheck", "VMerror"}},
	{"string-2^60", "1152921504606846976 string", []string{"limitcheck", "VMerror"}},
	{"array-2^61+5", "2305843009213693957 array", []string{"limitcheck", "VMerror"}},
	{"dict-2^61", "2305843009213693952 dict", []string{"limitcheck", "VMerror"}},
	{"array-2^62", "4611686018427387904 array", []string{"limitcheck", "VMerror"}},
	{"dict-2^62+100", "4611686018427387914 dict", []string{"limitcheck", "VMerror"}},
	{"string-2^62", "4611686018427387904 string", []string{"limitcheck", "VMerror"}},
	{"array-2^56", "72057594037927936 array", []string{"limitcheck", "VMerror"}},
	{"dict-2^59+1", "576460752303423489 dict", []string{"limitcheck", "VMerror"}},
	{"array-2^32", "4294967296 array", []string{"limitcheck", "VMerror"}},
	{"dict-2^32+7", "4294967303 dict", []string{"limitcheck", "VMerror"}},
	{"string-2^32", "4294967296 string", []string{"limitcheck", "VMerror"}},
	{"array-radix-2^60", "16#1000000000000000 array", []string{"limitcheck", "VMerror"}},
	// the dictionary stack is full when eexec pushes systemdict on top of it; begin must still refuse
	{"begin-loop-inside-eexec-on-full-dictstack", "18 { userdict begin } repeat currentfile eexec\n" + hexSection("{ userdict begin } loop "), []string{"dictstackoverflow"}},
	{"begin-loop-inside-eexec", "currentfile eexec\n" + hexSection("{ 1 dict begin } loop "), []string{"dictstackoverflow"}},
	{"push-loop-inside-eexec", "currentfile eexec\n" + hexSection("{ 1 } loop "), []string{"stackoverflow"}},
	{"recursion-inside-eexec", "currentfile eexec\n" + hexSection("/p { p 1 } def p "), []string{"execstackoverflow"}},
	// an encrypted section that leaves a body open, started from a looping operator:
	// every later round only appends to the open body
	{"eexec-open-body-in-repeat", "200000 { currentfile eexec } repeat\n" + hexSection("{ "), []string{"stackoverflow", "syntaxerror", "limitcheck", "invalidaccess"}},
	{"eexec-open-body-in-for", "0 1 200000 { pop currentfile eexec } for\n" + hexSection("7 { 8 { "), []string{"stackoverflow", "syntaxerror", "limitcheck", "invalidaccess"}},
	{"eexec-open-body-in-loop", "{ currentfile eexec } loop\n" + hexSection("[ { "), []string{"stackoverflow", "syntaxerror", "limitcheck", "invalidaccess"}},
	// chains of executable names bound to each other: every step is an operation, so the budget ends them
	{"budgeted-name-cycle", "/a { a } 0 get def a", []string{"(budget)", "execstackoverflow"}},
	{"budgeted-name-cycle-2", "/a { b } 0 get def /b { a } 0 get def 1 a", []string{"(budget)", "execstackoverflow"}},
	{"budgeted-name-cycle-in-dict", "<< /a { c } 0 get /c { a } 0 get >> begin a", []string{"(budget)", "execstackoverflow"}},
	{"budgeted-name-cycle-put", "userdict /a { a } 0 get put { a } exec", []string{"(budget)", "execstackoverflow"}},
	// a procedure body that never ends: its elements must not pile up without bound
	{"open-body-100000", "{ " + strings.Repeat("0 ", 100000), []string{"stackoverflow", "limitcheck", "syntaxerror"}},
	{"open-body-nested-100000", "/p { 1 { " + strings.Repeat("0 0 (a) /b ", 25000), []string{"stackoverflow", "limitcheck", "syntaxerror"}},
	{"long-body-70000", "{ " + strings.Repeat("0 ", 70000) + "} pop 1", []string{"stackoverflow", "limitcheck"}},
	{"open-array-100000", "[ " + strings.Repeat("0 ", 100000), []string{"stackoverflow", "limitcheck"}},
	{"open-dict-100000", "<< " + strings.Repeat("/k 0 ", 50000), []string{"stackoverflow", "limitcheck"}},
	// error handlers that swallow the error while the failing operation sits in a
	// loop. How such a run ends is not prescribed (this interpreter resumes after
	// the innermost enclosing operator, so the loop may end or run until the
	// budget ends it); only the growth is asserted: nothing may pass the caps
	{"swallowed-stackoverflow", "errordict /stackoverflow { } put { 1 } loop", nil},
	{"swallowed-dictstackoverflow", "errordict /dictstackoverflow { } put { 1 dict begin } loop", nil},
	{"swallowed-execstackoverflow", "errordict /execstackoverflow { } put /p { p 1 } def { p } loop", nil},
	{"swallowed-limitcheck", "errordict /limitcheck { } put { 16777216 array } loop", nil},
	{"swallowed-typecheck-eexec", "errordict /typecheck { } put { 1 eexec } loop", nil},
	{"swallowed-eexec-at-end-of-input", "errordict /syntaxerror { } put errordict /invalidaccess { } put errordict /ioerror { } put { currentfile eexec } loop", nil},
	{"swallowed-nested-eexec", "currentfile eexec\n" + hexSection("errordict /invalidaccess { } put { currentfile eexec } loop "), nil},
	{"swallowed-nested-eexec-by-name", "currentfile eexec\n" + hexSection("errordict /invalidaccess { pop } put /e { currentfile eexec } def { e e } loop "), nil},
}

// hexSection encrypts plain (with four zero bytes in front) for eexec, in
// hexadecimal form.
func hexSection(plain string) string {
	c := ref.Encrypt(append([]byte{0, 0, 0, 0}, plain...), 55665, nil)
	return fmt.Sprintf("%x", c)
}

func sortStrings(a []string) { sort.Strings(a) }
