package props

import (
	"fmt"
	"math/rand/v2"
	"sort"
	"strings"

	"seehuhn.de/go/geom/rect"
	"seehuhn.de/go/postscript/afm"
	"seehuhn.de/go/postscript/funit"
)

// genMetrics draws an *afm.Metrics value. With o.representable the value lies
// in the domain of C15's first clause.
func genMetrics(rng *rand.Rand, o *afmOpts, maxGlyphs int) *afm.Metrics {
	m := &afm.Metrics{Glyphs: map[string]*afm.GlyphInfo{}}
	n := 1 + rng.IntN(maxGlyphs)
	var names []string
	for i := 0; len(names) < n && i < 4*n; i++ {
		var name string
		if rng.IntN(3) == 0 {
			name = genToken(rng)
		} else {
			name = stdGlyphNames[rng.IntN(len(stdGlyphNames))]
		}
		if name == "" || m.Glyphs[name] != nil {
			continue
		}
		if len(name) >= 14 && name[:14] == "EndCharMetrics" {
			continue
		}
		names = append(names, name)
		m.Glyphs[name] = &afm.GlyphInfo{}
	}
	if rng.IntN(3) > 0 && m.Glyphs[".notdef"] == nil {
		names = append(names, ".notdef")
		m.Glyphs[".notdef"] = &afm.GlyphInfo{}
	} else if m.Glyphs[".notdef"] == nil {
		o.f("metrics without .notdef")
	}
	sort.Strings(names)
	num := func(lo, hi int) float64 {
		v := float64(lo + rng.IntN(hi-lo+1))
		if !o.representable && rng.IntN(4) == 0 {
			v += rng.Float64()
		}
		return v
	}
	offOrigin := rng.IntN(4) == 0
	if offOrigin {
		o.f("all glyph boxes off the origin")
	}
	for _, name := range names {
		g := m.Glyphs[name]
		g.WidthX = num(0, 2000)
		if rng.IntN(8) == 0 {
			g.WidthX = num(-500, 0)
		}
		switch rng.IntN(5) {
		case 0: // blank glyph
		default:
			llx, lly := num(-1000, 1000), num(-1000, 1000)
			if offOrigin {
				llx, lly = num(10, 500), num(10, 500)
			}
			g.BBox = rect.Rect{LLx: llx, LLy: lly, URx: llx + num(0, 1500), URy: lly + num(0, 1500)}
		}
		nl := 0
		switch rng.IntN(6) {
		case 0:
			nl = 1
		case 1:
			nl = 2 + rng.IntN(5)
			o.f("several ligatures per glyph")
		}
		for j := 0; j < nl; j++ {
			if g.Ligatures == nil {
				g.Ligatures = map[string]string{}
			}
			succ := names[rng.IntN(len(names))]
			if rng.IntN(3) == 0 {
				succ = genToken(rng)
			}
			g.Ligatures[succ] = names[rng.IntN(len(names))]
		}
	}
	// encoding
	m.Encoding = make([]string, 256)
	for i := range m.Encoding {
		m.Encoding[i] = ".notdef"
	}
	perm := rng.Perm(256)
	k := 0
	for _, name := range names {
		if name != ".notdef" && rng.IntN(3) > 0 && k < 256 {
			m.Encoding[perm[k]] = name
			k++
		}
	}
	if rng.IntN(4) == 0 {
		// a glyph at code 0 (and at codes 1, 2), also when .notdef is a glyph of its own
		at := 0
		for _, nm := range names {
			if nm == ".notdef" || at > 2 || (at > 0 && rng.IntN(2) == 0) {
				continue
			}
			for i := 0; i < 256; i++ {
				if m.Encoding[i] == nm {
					m.Encoding[i] = ".notdef"
				}
			}
			m.Encoding[at] = nm
			at++
		}
		if at > 0 {
			o.f("glyph at code 0")
		}
	}
	if !o.representable {
		switch rng.IntN(5) {
		case 0:
			m.Encoding = nil
			o.f("encoding absent")
		case 1:
			for i := 0; i < 20; i++ {
				m.Encoding[rng.IntN(256)] = names[rng.IntN(len(names))]
			}
			o.f("encoding with repeated names")
		case 2:
			for i := 0; i < 20; i++ {
				m.Encoding[rng.IntN(256)] = fmt.Sprintf("missing%d", i)
			}
			o.f("encoding naming missing glyphs")
		}
	}
	m.FontName = genToken(rng)
	switch rng.IntN(8) {
	case 0:
		// the name of a subset font as PDF files carry it, or of a font family member
		tag := make([]byte, 6)
		for i := range tag {
			tag[i] = byte('A' + rng.IntN(26))
		}
		m.FontName = string(tag) + "+" + []string{"Demo-Regular", "X", m.FontName, "ABCDEF+Nested", ""}[rng.IntN(5)]
		o.f("font name with a subset tag")
	case 1:
		m.FontName = []string{"Times-Roman", "Helvetica-BoldOblique", "A+B", "+", "a.b-c_d", "Font#20Name", "MT,Bold", "1234", "-"}[rng.IntN(9)]
	}
	m.FullName = genWords(rng)
	m.Version = genWords(rng)
	m.Notice = genWords(rng)
	if rng.IntN(150) == 0 {
		// a line of more than 64 KiB
		m.Notice = strings.TrimSpace(strings.Repeat("All rights reserved. ", 3400))
		o.f("header line longer than 64 KiB")
	}
	m.CapHeight = num(0, 1000)
	m.XHeight = num(0, 1000)
	m.Ascent = num(0, 1200)
	m.Descent = num(-500, 0)
	m.UnderlinePosition = num(-300, 0)
	m.UnderlineThickness = num(0, 200)
	if rng.IntN(5) == 0 {
		// header values of exactly zero (a reader cannot tell them from absent
		// entries and may be tempted to derive them from the glyphs H, x, d, p)
		for _, p := range []*float64{&m.CapHeight, &m.XHeight, &m.Ascent, &m.Descent, &m.UnderlinePosition, &m.UnderlineThickness} {
			if rng.IntN(2) == 0 {
				*p = 0
			}
		}
		for _, nm := range []string{"H", "x", "d", "p", "X", "h"} {
			if rng.IntN(3) > 0 && m.Glyphs[nm] == nil {
				m.Glyphs[nm] = &afm.GlyphInfo{WidthX: num(200, 900), BBox: rect.Rect{LLx: num(0, 50), LLy: num(-250, 0), URx: num(300, 700), URy: num(400, 800)}}
			}
		}
		o.f("header values of exactly zero next to the glyphs H, x, d, p")
	}
	m.ItalicAngle = float64(rng.IntN(9001)-4500) / 100
	switch rng.IntN(6) {
	case 0:
		// any finite angle, with all the digits a float64 has
		m.ItalicAngle = (rng.Float64() - 0.5) * 90
		o.f("italic angle with 17 significant digits")
	case 1:
		m.ItalicAngle = []float64{-9.399993896484375, -12.3456789, 11.25000001, 16777217, -33554433, 1e-7, 0.1 + 0.2, 123456789.125}[rng.IntN(8)]
		o.f("italic angle beyond single precision")
	}
	m.IsFixedPitch = rng.IntN(2) == 0
	nk := rng.IntN(6)
	if rng.IntN(10) == 0 {
		nk = 50 + rng.IntN(200)
	}
	for i := 0; i < nk; i++ {
		m.Kern = append(m.Kern, &afm.KernPair{Left: names[rng.IntN(len(names))], Right: names[rng.IntN(len(names))], Adjust: funit.Int16(rng.IntN(401) - 200)})
	}
	return m
}

func sortedMetricNames(m *afm.Metrics) []string {
	names := make([]string, 0, len(m.Glyphs))
	for n := range m.Glyphs {
		names = append(names, n)
	}
	sort.Strings(names)
	return names
}

func describeMetrics(m *afm.Metrics) string {
	s := fmt.Sprintf("FontName %q FullName %q Version %q Notice %q Cap %v X %v Asc %v Desc %v UPos %v UThick %v Italic %v Fixed %v\n",
		m.FontName, m.FullName, m.Version, head([]byte(m.Notice), 300), m.CapHeight, m.XHeight, m.Ascent, m.Descent, m.UnderlinePosition, m.UnderlineThickness, m.ItalicAngle, m.IsFixedPitch)
	for _, n := range sortedMetricNames(m) {
		g := m.Glyphs[n]
		code := -1
		for i, e := range m.Encoding {
			if e == n {
				code = i
				break
			}
		}
		s += fmt.Sprintf("glyph %q code %d w=%v bbox=%v lig=%v\n", n, code, g.WidthX, g.BBox, g.Ligatures)
		if len(s) > 8000 {
			s += "…\n"
			break
		}
	}
	for i, k := range m.Kern {
		if i > 20 {
			s += "…\n"
			break
		}
		s += fmt.Sprintf("KPX %q %q %d\n", k.Left, k.Right, k.Adjust)
	}
	return s
}
