package props

// C13 — I/O faults surface as errors and truncation never yields a partial result.
//
// Fault enumeration at the I/O boundary: for each input file a read fault is
// injected at every byte offset (error alone / error together with the last
// bytes / failing Seek), and every prefix is read; for each value and output
// format a write fault is injected at every write-call index and at byte
// offsets (short writes). A fault that was delivered to the library must come
// back as an error; a prefix must give an error or the complete result.

import (
	"bufio"
	"bytes"
	"fmt"
	"io"
	"os"
	"syscall"

	"seehuhn.de/go/postscript/afm"
	"seehuhn.de/go/postscript/type1"

	"verif/harness/mon"
	"verif/harness/rt"
)

func init() { register("C13", runC13) }

func runC13(r *rt.Runner) {
	env := newPSEnv()
	// ---- reading
	nFiles := r.N(80, 1500)
	for k := 0; k < nFiles; k++ {
		r.Case("read-faults", func(c *rt.C) {
			rng := c.Rand()
			kind := allKinds[k%len(allKinds)]
			it := genCorpusItem(c, env, kind, false)
			if len(it.data) > r.N(6000, 40000) {
				it.data = it.data[:r.N(6000, 40000)] // still a file: faults matter, content need not be valid
			}
			c.SetDetail(func() string {
				return fmt.Sprintf("%s (%s), %d bytes: %q", kind, it.desc, len(it.data), head(it.data, 2500))
			})
			full, fullErr := runEntry(env, kind, bytes.NewReader(it.data))
			delivered, undelivered, wrapped, uncomparable := 0, 0, 0, 0
			for off := 0; off <= len(it.data); off++ {
				for _, withData := range []bool{false, true} {
					if withData && off == 0 {
						continue
					}
					fr := &mon.FaultReader{Data: it.data, K: off, WithData: withData}
					if rng.IntN(4) == 0 {
						fr.Chunks = randChunks(rng)
					}
					// the error value: a plain sentinel, or one that wraps io.EOF /
					// io.ErrUnexpectedEOF without being it
					switch rng.IntN(7) {
					case 0:
						fr.Err = mon.ErrInjectedWrapsEOF
						wrapped++
					case 1:
						fr.Err = mon.ErrInjectedWrapsUnexpectedEOF
						wrapped++
					case 2:
						// an error value of a type that cannot be compared with ==
						fr.Err = mon.ErrInjectedList
						uncomparable++
					}
					_, err := runEntry(env, kind, fr)
					c.Eval()
					if fr.Delivered && withData && err == nil {
						// the error came together with data: the library only meets
						// it when it runs out of that data. The companion run
						// (same bytes, same chunking, clean end) tells whether it does.
						pr := &mon.PlanReader{Data: it.data[:off], Chunks: fr.Chunks}
						runEntry(env, kind, pr)
						if !pr.EOFReturned {
							undelivered++
							continue
						}
					}
					if fr.Delivered {
						delivered++
						if err == nil {
							c.Violation(fmt.Sprintf("read-fault-swallowed|%s", kind),
								fmt.Sprintf("%s: the reader failed after %d of %d bytes (error returned %s), but the call returned a nil error", kind, off, len(it.data), map[bool]string{true: "together with the last bytes", false: "alone"}[withData]), "")
						}
					} else {
						undelivered++
					}
				}
			}
			// one-shot faults: the reader reports an error once, with no bytes,
			// and would deliver the rest of the file if asked again
			oneShot := 0
			for off := 0; off <= len(it.data); off++ {
				fr := &mon.FaultReader{Data: it.data, K: off, OneShot: true}
				if rng.IntN(4) == 0 {
					fr.Chunks = randChunks(rng)
				}
				switch rng.IntN(5) {
				case 0:
					fr.Err = mon.ErrInjectedTemporary
				case 1:
					fr.Err = &os.PathError{Op: "read", Path: "font", Err: syscall.EINTR}
				case 2:
					fr.Err = syscall.EAGAIN
				}
				var src io.Reader = fr
				if kind == kType1 && rng.IntN(3) == 0 {
					// a seekable source (type1.Read looks at its first byte and seeks back)
					sfr := &mon.SeekFaultReader{FaultReader: *fr}
					_, err := runEntry(env, kind, sfr)
					c.Eval()
					if sfr.Delivered {
						oneShot++
						if err == nil {
							c.Violation(fmt.Sprintf("one-shot-read-fault-swallowed|%s", kind),
								fmt.Sprintf("%s: the seekable reader reported an error (%v) once after %d of %d bytes, but the call returned a nil error", kind, sfr.Err, off, len(it.data)), "")
						}
					}
					continue
				}
				if rng.IntN(3) == 0 {
					// behind a bufio.Reader (an io.ByteReader, too), which hands an
					// error of its source on once and then reads on
					src = bufio.NewReaderSize(fr, 16+rng.IntN(600))
				}
				_, err := runEntry(env, kind, src)
				c.Eval()
				if fr.Delivered {
					oneShot++
					if err == nil {
						c.Violation(fmt.Sprintf("one-shot-read-fault-swallowed|%s", kind),
							fmt.Sprintf("%s: the reader reported an error once after %d of %d bytes (no bytes with it; later calls would have continued), but the call returned a nil error", kind, off, len(it.data)), "")
					}
				}
			}
			c.Runner().Count("one-shot read faults delivered to the library", int64(oneShot))
			if kind == kType1 {
				for _, fs := range []int{1, 2} {
					sr := &mon.SeekPlanReader{PlanReader: mon.PlanReader{Data: it.data}, FailSeek: fs}
					got, err := runEntry(env, kind, sr)
					c.Eval()
					// a failing Seek is not a read fault: the call may report it, or
					// work around it (the bytes are all still obtainable by reading
					// on) - but then the result has to be the complete one
					if sr.Seeks >= fs && err == nil && (fullErr != nil || got != full) {
						c.Violation("seek-fault-partial", fmt.Sprintf("type1.Read: Seek call %d failed and Read returned a nil error, but not the result of the undisturbed read", fs), "")
					}
					c.Count("seek faults injected")
				}
			}
			c.Runner().Count("read faults delivered to the library", int64(delivered))
			c.Runner().Count("read faults whose error wraps io.EOF or io.ErrUnexpectedEOF", int64(wrapped))
			c.Runner().Count("read faults whose error value is of an uncomparable type", int64(uncomparable))
			c.Runner().Count("read faults not reached (library had stopped reading)", int64(undelivered))
			c.Count("files swept over every read offset: " + kind)
			// truncation: every prefix (fonts and single-CMap files)
			if (kind == kType1 || kind == kCMap) && fullErr == nil {
				for n := 0; n < len(it.data); n++ {
					got, err := runEntry(env, kind, bytes.NewReader(it.data[:n]))
					c.Eval()
					if err == nil {
						c.Count("prefixes accepted as complete")
						if got != full {
							c.Violation("truncation-partial|"+kind, fmt.Sprintf("%s: the first %d of %d bytes are accepted without error, but the result differs from the result for the whole file", kind, n, len(it.data)), "")
						}
					} else {
						c.Count("prefixes rejected")
					}
				}
				c.Count("files swept over every prefix: " + kind)
			}
			c.Nontrivial(append([]byte(kind+"|"), it.data...), func() string {
				return fmt.Sprintf("%s, %d bytes, %d faults delivered", it.desc, len(it.data), delivered)
			})
		})
	}

	// ---- writing
	nVals := r.N(64, 1500)
	for k := 0; k < nVals; k++ {
		r.Case("write-faults", func(c *rt.C) {
			rng := c.Rand()
			type target struct {
				name  string
				write func(w *mon.FaultWriter) error
			}
			var targets []target
			var desc string
			if k%3 == 2 {
				o := &afmOpts{}
				m := genMetrics(rng, o, 12)
				desc = describeMetrics(m)
				targets = append(targets, target{"Metrics.Write", func(w *mon.FaultWriter) error { return (*afm.Metrics)(m).Write(w) }})
			} else {
				o := &fontOpts{maxGlyphs: 8, fractional: true, hostileStr: true}
				f := genFont(rng, o)
				if rng.IntN(4) == 0 {
					// a glyph whose charstring is several output buffers long (the
					// encrypting and the hex writers work in 512-byte blocks, so one
					// Write call from above then flushes more than once)
					g := &type1.Glyph{WidthX: 700}
					x, y := 0.0, 0.0
					g.MoveTo(x, y)
					for i, n := 0, 300+rng.IntN(900); i < n; i++ {
						x += float64(rng.IntN(2001) - 1000)
						y += float64(rng.IntN(2001) - 1000)
						g.LineTo(x, y)
					}
					g.ClosePath()
					f.Glyphs["long"] = g
				}
				desc = describeFont(f)
				for _, fm := range allFormats {
					fm := fm
					targets = append(targets, target{"Font.Write/" + fm.name, func(w *mon.FaultWriter) error { return f.Write(w, &type1.WriterOptions{Format: fm.f}) }})
				}
				targets = append(targets, target{"Font.WritePDF", func(w *mon.FaultWriter) error { _, _, err := f.WritePDF(w); return err }})
			}
			c.SetDetail(func() string { return desc })
			for _, t := range targets {
				count := &mon.FaultWriter{FailCall: -1, FailByte: -1}
				if err := t.write(count); err != nil {
					c.Violation("write-error|"+t.name, fmt.Sprintf("%s failed without any fault: %v", t.name, err), "")
					continue
				}
				W, B := count.Calls, count.Bytes
				c.Runner().Count("write calls per output (sum)", int64(W))
				for i := 0; i < W; i++ {
					for _, sticky := range []bool{false, true} {
						fw := &mon.FaultWriter{FailCall: i, FailByte: -1, Sticky: sticky}
						err := t.write(fw)
						c.Eval()
						c.Count("write faults by call index")
						if fw.Failed && err == nil {
							c.Violation("write-fault-swallowed|"+t.name, fmt.Sprintf("%s: write call %d of %d failed (sticky=%v), but the call returned a nil error", t.name, i, W, sticky), "")
						}
					}
				}
				step := 1
				if r.Quick() && B > 2048 {
					step = 37
				} else if B > 8192 {
					// large outputs (fonts with a glyph of a thousand segments): every
					// offset of the first 2 KiB and the last 64 bytes, about 4000 in between
					step = B/4096 + 1
				}
				for kb := 0; kb < B; kb++ {
					if kb >= 2048 && kb%step != 0 && kb < B-64 {
						continue
					}
					fw := &mon.FaultWriter{FailCall: -1, FailByte: kb}
					err := t.write(fw)
					c.Eval()
					c.Count("write faults by byte offset (short writes)")
					if fw.Failed && err == nil {
						c.Violation("short-write-swallowed|"+t.name, fmt.Sprintf("%s: a short write after %d of %d bytes returned an error, but the call returned a nil error", t.name, kb, B), "")
					}
				}
				c.Count("outputs swept: " + t.name)
			}
			c.Nontrivial([]byte(desc), func() string { return head([]byte(desc), 300) })
		})
	}
}
