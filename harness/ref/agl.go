package ref

// R9: the Adobe Glyph List algorithm, written from the AGL specification
// (https://github.com/adobe-type-tools/agl-specification, section 2 "The
// mapping") over the pinned tables in /verif/refdata. This file does not
// import the library under test.

import (
	"bufio"
	"fmt"
	"os"
	"path/filepath"
	"strconv"
	"strings"
)

// AGL holds the pinned tables.
type AGL struct {
	GlyphList map[string][]rune // glyphlist.txt: name -> one or more scalars
	Dingbats  map[string][]rune // zapfdingbats.txt
	AGLFN     map[rune]string   // aglfn.txt: scalar -> name
	AGLFNames []string
	Compat    map[rune][]rune // documented compatibility expansions (snapshot)
	GLNames   []string        // glyph list names in file order
	DBNames   []string
}

// LoadAGL reads the pinned tables from dir.
func LoadAGL(dir string) (*AGL, error) {
	a := &AGL{GlyphList: map[string][]rune{}, Dingbats: map[string][]rune{}, AGLFN: map[rune]string{}, Compat: map[rune][]rune{}}
	readList := func(file string, dst map[string][]rune, names *[]string) error {
		f, err := os.Open(filepath.Join(dir, file))
		if err != nil {
			return err
		}
		defer f.Close()
		sc := bufio.NewScanner(f)
		for sc.Scan() {
			line := strings.TrimRight(sc.Text(), "\r")
			if line == "" || strings.HasPrefix(line, "#") {
				continue
			}
			semi := strings.IndexByte(line, ';')
			if semi < 0 {
				return fmt.Errorf("%s: bad line %q", file, line)
			}
			name := line[:semi]
			var rr []rune
			for _, h := range strings.Fields(line[semi+1:]) {
				v, err := strconv.ParseUint(h, 16, 32)
				if err != nil {
					return fmt.Errorf("%s: bad line %q", file, line)
				}
				rr = append(rr, rune(v))
			}
			if len(rr) == 0 {
				return fmt.Errorf("%s: bad line %q", file, line)
			}
			dst[name] = rr
			*names = append(*names, name)
		}
		return sc.Err()
	}
	if err := readList("glyphlist.txt", a.GlyphList, &a.GLNames); err != nil {
		return nil, err
	}
	if err := readList("zapfdingbats.txt", a.Dingbats, &a.DBNames); err != nil {
		return nil, err
	}
	f, err := os.Open(filepath.Join(dir, "aglfn.txt"))
	if err != nil {
		return nil, err
	}
	defer f.Close()
	sc := bufio.NewScanner(f)
	for sc.Scan() {
		line := strings.TrimRight(sc.Text(), "\r")
		if line == "" || strings.HasPrefix(line, "#") {
			continue
		}
		parts := strings.Split(line, ";")
		if len(parts) < 2 {
			return nil, fmt.Errorf("aglfn.txt: bad line %q", line)
		}
		v, err := strconv.ParseUint(parts[0], 16, 32)
		if err != nil {
			return nil, fmt.Errorf("aglfn.txt: bad line %q", line)
		}
		a.AGLFN[rune(v)] = parts[1]
		a.AGLFNames = append(a.AGLFNames, parts[1])
	}
	if err := sc.Err(); err != nil {
		return nil, err
	}
	cf, err := os.Open(filepath.Join(dir, "compat-expansions.txt"))
	if err != nil {
		return nil, err
	}
	defer cf.Close()
	sc = bufio.NewScanner(cf)
	for sc.Scan() {
		line := sc.Text()
		if line == "" || strings.HasPrefix(line, "#") {
			continue
		}
		semi := strings.IndexByte(line, ';')
		v, err := strconv.ParseUint(line[:semi], 16, 32)
		if err != nil {
			return nil, err
		}
		var rr []rune
		for _, h := range strings.Fields(line[semi+1:]) {
			w, err := strconv.ParseUint(h, 16, 32)
			if err != nil {
				return nil, err
			}
			rr = append(rr, rune(w))
		}
		a.Compat[rune(v)] = rr
	}
	return a, sc.Err()
}

func upperHex(s string) (uint32, bool) {
	if s == "" {
		return 0, false
	}
	var v uint32
	for i := 0; i < len(s); i++ {
		c := s[i]
		switch {
		case c >= '0' && c <= '9':
			v = v<<4 | uint32(c-'0')
		case c >= 'A' && c <= 'F':
			v = v<<4 | uint32(c-'A'+10)
		default:
			return 0, false
		}
	}
	return v, true
}

// ToUnicode is the specification's name -> character string mapping.
func (a *AGL) ToUnicode(name string, dingbats bool) []rune {
	// step 1: drop everything from the first period on
	if i := strings.IndexByte(name, '.'); i >= 0 {
		name = name[:i]
	}
	var out []rune
	// step 2: split at underscores; step 3: map each component
	for _, comp := range strings.Split(name, "_") {
		out = append(out, a.component(comp, dingbats)...)
	}
	return out
}

func (a *AGL) component(comp string, dingbats bool) []rune {
	if dingbats {
		if rr, ok := a.Dingbats[comp]; ok {
			return rr
		}
	}
	if rr, ok := a.GlyphList[comp]; ok {
		return rr
	}
	if strings.HasPrefix(comp, "uni") {
		digits := comp[3:]
		if len(digits) > 0 && len(digits)%4 == 0 {
			var rr []rune
			ok := true
			for i := 0; i < len(digits); i += 4 {
				v, good := upperHex(digits[i : i+4])
				if !good || (v >= 0xD800 && v <= 0xDFFF) {
					ok = false
					break
				}
				rr = append(rr, rune(v))
			}
			if ok {
				return rr
			}
		}
	}
	if strings.HasPrefix(comp, "u") {
		digits := comp[1:]
		if len(digits) >= 4 && len(digits) <= 6 {
			v, good := upperHex(digits)
			if good && (v <= 0xD7FF || (v >= 0xE000 && v <= 0x10FFFF)) {
				return []rune{rune(v)}
			}
		}
	}
	return nil
}

// IsValid is the specification's glyph-name syntax predicate (31-character
// limit as stated in the property).
func IsValidGlyphName(s string) bool {
	if s == ".notdef" {
		return true
	}
	if len(s) < 1 || len(s) > 31 {
		return false
	}
	for i := 0; i < len(s); i++ {
		c := s[i]
		letter := (c >= 'A' && c <= 'Z') || (c >= 'a' && c <= 'z')
		digit := c >= '0' && c <= '9'
		if !(letter || digit || c == '.' || c == '_') {
			return false
		}
		if i == 0 && (digit || c == '.') {
			return false
		}
	}
	return true
}
