package ref

// R4: an independent, strict Type 1 font reader: PFB de-framing (Adobe
// Technical Note 5040), the font program executed by the R0 tokenizer and the
// R1 evaluator (eexec per the Type 1 book chapter 7), charstrings decrypted
// with key 4330 and lenIV lead bytes and decoded by R5.

import (
	"fmt"
	"sort"
)

// MGlyph is a glyph of the model font.
type MGlyph struct {
	Cmds         []MCmd
	SBX, SBY     float64
	WX, WY       float64
	HStem, VStem []float64
	Tokens       []CSToken
	Raw          []byte // plain charstring
	Seac         *SeacInfo
}

// MFont is what a font file says, as understood by R4.
type MFont struct {
	FontName    string
	HasFontName bool
	Info        map[string]Obj // FontInfo entries
	FontMatrix  []float64
	Encoding    []string // 256 names, nil if absent
	StdEncoding bool     // the file said StandardEncoding
	Private     map[string]Obj
	LenIV       int
	Glyphs      map[string]*MGlyph
	Subrs       [][]byte

	// facts about the container
	EexecBinary bool
	EexecStart  int
	EexecEnd    int
	Cipher      []byte // raw ciphertext bytes (binary form) or nil
	Clear       []byte
}

// GlyphNames returns the sorted glyph names.
func (f *MFont) GlyphNames() []string {
	out := make([]string, 0, len(f.Glyphs))
	for n := range f.Glyphs {
		out = append(out, n)
	}
	sort.Strings(out)
	return out
}

// DeframePFB checks the segment framing strictly and returns the payload with
// binary segments kept binary, plus the segment list.
func DeframePFB(data []byte) (payload []byte, segs [][2]int, err error) {
	i := 0
	for {
		if i+2 > len(data) {
			return nil, nil, fmt.Errorf("PFB: input ends without an end marker (offset %d)", i)
		}
		if data[i] != 0x80 {
			return nil, nil, fmt.Errorf("PFB: segment at offset %d does not start with 0x80", i)
		}
		typ := data[i+1]
		if typ == 3 {
			if i+2 != len(data) {
				return nil, nil, fmt.Errorf("PFB: %d bytes after the end marker", len(data)-i-2)
			}
			return payload, segs, nil
		}
		if typ != 1 && typ != 2 {
			return nil, nil, fmt.Errorf("PFB: segment type %d at offset %d", typ, i)
		}
		if i+6 > len(data) {
			return nil, nil, fmt.Errorf("PFB: truncated segment header at offset %d", i)
		}
		n := int(data[i+2]) | int(data[i+3])<<8 | int(data[i+4])<<16 | int(data[i+5])<<24
		if i+6+n > len(data) {
			return nil, nil, fmt.Errorf("PFB: segment at offset %d declares %d bytes, only %d follow", i, n, len(data)-i-6)
		}
		payload = append(payload, data[i+6:i+6+n]...)
		segs = append(segs, [2]int{int(typ), n})
		i += 6 + n
	}
}

func numOf(o Obj) (float64, bool) {
	switch o := o.(type) {
	case Int:
		return float64(o), true
	case Real:
		return float64(o), true
	}
	return 0, false
}

// ReadType1 reads a font program (PFA, binary eexec or unencrypted; PFB
// payloads must be de-framed first).
func ReadType1(data []byte, stdEnc []string) (*MFont, error) {
	return ReadType1Sized(data, stdEnc, 65535)
}

// ReadType1Sized is ReadType1 with a caller-chosen limit for string, array
// and dictionary sizes (the PLRM's 65535 is what a conforming file may rely
// on; C20 follows paths of up to 10,000 segments, whose charstrings are
// longer, and is only concerned with the numbers in them).
func ReadType1Sized(data []byte, stdEnc []string, maxSize int) (*MFont, error) {
	if len(data) < 2 || data[0] != '%' || data[1] != '!' {
		return nil, fmt.Errorf("font program does not start with %%!")
	}
	in := NewInterp(stdEnc)
	in.MaxSize = maxSize
	in.MaxSteps = 50_000_000
	in.MaxStack = 100000
	in.MaxDepth = 200
	sc := NewScanner(data)
	if err := in.RunBytes(sc); err != nil {
		return nil, fmt.Errorf("executing the font program: %v", err)
	}
	if len(in.FontDir.D.M) != 1 {
		return nil, fmt.Errorf("the file defines %d fonts", len(in.FontDir.D.M))
	}
	var fd Dict
	var key string
	for k, v := range in.FontDir.D.M {
		d, ok := v.(Dict)
		if !ok {
			return nil, fmt.Errorf("font directory entry is not a dictionary")
		}
		fd, key = d, k
	}
	f := &MFont{Glyphs: map[string]*MGlyph{}, Info: map[string]Obj{}, Private: map[string]Obj{}, LenIV: 4,
		EexecBinary: sc.EexecBinary, EexecStart: sc.EexecStart, EexecEnd: sc.EexecEnd}
	if ft, ok := fd.D.M["FontType"].(Int); !ok || ft != 1 {
		return nil, fmt.Errorf("FontType is not 1")
	}
	if n, ok := fd.D.M["FontName"].(Name); ok {
		f.FontName, f.HasFontName = n.S, true
		if n.S != key {
			return nil, fmt.Errorf("font registered as %q but FontName is %q", key, n.S)
		}
	}
	if fi, ok := fd.D.M["FontInfo"].(Dict); ok {
		for k, v := range fi.D.M {
			f.Info[k] = v
		}
	} else {
		return nil, fmt.Errorf("FontInfo missing")
	}
	if fm, ok := fd.D.M["FontMatrix"].(Arr); ok {
		for _, e := range fm.Elems() {
			v, ok := numOf(e)
			if !ok {
				return nil, fmt.Errorf("FontMatrix holds a non-number")
			}
			f.FontMatrix = append(f.FontMatrix, v)
		}
	}
	if enc, ok := fd.D.M["Encoding"].(Arr); ok {
		if enc.St == in.StdEnc.St {
			f.StdEncoding = true
		}
		if enc.N != 256 {
			return nil, fmt.Errorf("Encoding has %d entries", enc.N)
		}
		for _, e := range enc.Elems() {
			n, ok := e.(Name)
			if !ok {
				return nil, fmt.Errorf("Encoding holds a non-name")
			}
			f.Encoding = append(f.Encoding, n.S)
		}
	} else if _, has := fd.D.M["Encoding"]; has {
		return nil, fmt.Errorf("Encoding is not an array")
	}
	pd, ok := fd.D.M["Private"].(Dict)
	if !ok {
		return nil, fmt.Errorf("Private dictionary missing")
	}
	for k, v := range pd.D.M {
		f.Private[k] = v
	}
	if v, ok := pd.D.M["lenIV"].(Int); ok {
		f.LenIV = int(v)
	}
	if f.LenIV < 0 {
		return nil, fmt.Errorf("negative lenIV")
	}
	decrypt := func(s Str) ([]byte, error) {
		b := s.Bytes()
		if len(b) < f.LenIV {
			return nil, fmt.Errorf("charstring shorter than lenIV")
		}
		return Decrypt(b, CharstringKey)[f.LenIV:], nil
	}
	if subrs, ok := pd.D.M["Subrs"].(Arr); ok {
		for _, e := range subrs.Elems() {
			s, ok := e.(Str)
			if !ok {
				f.Subrs = append(f.Subrs, nil)
				continue
			}
			p, err := decrypt(s)
			if err != nil {
				return nil, err
			}
			f.Subrs = append(f.Subrs, p)
		}
	}
	cs, ok := fd.D.M["CharStrings"].(Dict)
	if !ok {
		return nil, fmt.Errorf("CharStrings missing")
	}
	for name, v := range cs.D.M {
		s, ok := v.(Str)
		if !ok {
			return nil, fmt.Errorf("charstring of %q is not a string", name)
		}
		p, err := decrypt(s)
		if err != nil {
			return nil, fmt.Errorf("glyph %q: %v", name, err)
		}
		res, err := DecodeCharstring(p, f.Subrs)
		if err != nil {
			return nil, fmt.Errorf("glyph %q: %v", name, err)
		}
		f.Glyphs[name] = &MGlyph{Cmds: res.Cmds, SBX: res.SBX, SBY: res.SBY, WX: res.WX, WY: res.WY, HStem: res.HStem, VStem: res.VStem, Tokens: res.Tokens, Raw: p, Seac: res.Seac}
	}
	return f, nil
}
