package ref

// R1: a small PostScript evaluator written from the PostScript Language
// Reference Manual (3rd ed.), covering the operators the library under test
// supports. It is the oracle for C02/C03 (token mode) and, together with the
// R0 tokenizer, the front half of the independent Type 1 reader R4 (stream
// mode). It does not import the library.
//
// Where the PLRM leaves the outcome open the evaluator returns a *set* of
// acceptable error names, or flags the program Unsupported when it leaves the
// domain the minimal interpreter documents (see props/c02.go for the list).

import (
	"errors"
	"fmt"
	"math"
	"math/big"
	"sort"
)

// Tok is a program token of the generator's AST.
type Tok interface{}

type (
	// TInt is an integer token.
	TInt int64
	// TReal is a real token.
	TReal float64
	// TStr is a string token.
	TStr []byte
	// TProc is a procedure literal { ... }.
	TProc []Tok
)

// TName is a name token (literal /x or executable x).
type TName struct {
	S    string
	Exec bool
}

// PSErr is a PostScript error with the set of error names the reference
// allows for the situation.
type PSErr struct {
	Names []string
	Where string
}

func (e *PSErr) Error() string { return fmt.Sprintf("%v in %s", e.Names, e.Where) }

// Has reports whether name is acceptable.
func (e *PSErr) Has(name string) bool {
	for _, n := range e.Names {
		if n == name {
			return true
		}
	}
	return false
}

// Unsupported marks a program as outside the asserted domain.
type Unsupported struct{ Reason string }

func (u *Unsupported) Error() string { return "unsupported: " + u.Reason }

func unsup(format string, a ...any) error { return &Unsupported{fmt.Sprintf(format, a...)} }

var (
	errExit = errors.New("exit")
	errStop = errors.New("stop")
	// ErrCloseFile is returned through the evaluator when the current file is closed.
	ErrCloseFile = errors.New("closefile")
)

// Interp is the model interpreter.
type Interp struct {
	Stack     []Obj
	DStack    []Dict
	System    Dict
	User      Dict
	ErrorD    Dict
	FontDir   Dict
	Resources map[string]Dict // category -> dictionary
	ResOrder  []string
	Internal  Dict
	StdEnc    Arr

	nextID   int
	Steps    int
	MaxSteps int
	depth    int
	MaxDepth int
	// limits of the asserted domain (beyond them a program is Unsupported; the
	// limits themselves are C11's subject)
	MaxStack, MaxDictStack, MaxSize int

	// Lenient switches the evaluator to "reader" mode (R4): access operators
	// are no-ops and file operators work on Src.
	Lenient bool
	Src     *Scanner

	ops map[string]func(*Interp) error
	// OpCounts counts executed operators (coverage).
	OpCounts map[string]int
}

func (in *Interp) newID() int { in.nextID++; return in.nextID }

// NewStr allocates a string with its own store.
func (in *Interp) NewStr(b []byte) Str {
	st := &StrStore{ID: in.newID(), B: append([]byte(nil), b...)}
	return Str{St: st, Off: 0, N: len(b)}
}

// NewArr allocates an array with its own store.
func (in *Interp) NewArr(e []Obj, exec bool) Arr {
	st := &ArrStore{ID: in.newID(), E: append([]Obj(nil), e...)}
	return Arr{St: st, Off: 0, N: len(e), Exec: exec}
}

// NewDict allocates a dictionary.
func (in *Interp) NewDict(label string) Dict {
	return Dict{D: &DictStore{ID: in.newID(), M: map[string]Obj{}, Label: label}}
}

// SystemOps lists the operator names the model knows (the library's
// system dictionary is checked against it at run time).
var SystemOps = []string{
	"[", "]", "<<", ">>", "abs", "add", "and", "array", "begin", "bind", "cleartomark", "closefile", "copy",
	"count", "currentdict", "currentfile", "cvx", "def", "definefont", "defineresource", "dict", "dup", "exec",
	"eexec", "end", "eq", "exch", "executeonly", "exit", "findfont", "findresource", "for", "forall", "get",
	"getinterval", "if", "ifelse", "index", "internaldict", "known", "length", "load", "loop", "mark", "matrix",
	"maxlength", "mul", "ne", "noaccess", "not", "or", "pop", "put", "putinterval", "readonly", "readstring",
	"repeat", "roll", "stop", "string", "sub", "type", "where",
}

// NewInterp builds a fresh model interpreter. stdEnc is the 256-entry
// StandardEncoding (from the model's own table).
func NewInterp(stdEnc []string) *Interp {
	in := &Interp{MaxSteps: 200000, MaxDepth: 40, MaxStack: 400, MaxDictStack: 18, MaxSize: 65535, OpCounts: map[string]int{}}
	in.System = in.NewDict("systemdict")
	in.User = in.NewDict("userdict")
	in.ErrorD = in.NewDict("errordict")
	in.FontDir = in.NewDict("FontDirectory")
	in.Internal = in.NewDict("internaldict")
	enc := make([]Obj, 256)
	for i := range enc {
		n := ".notdef"
		if i < len(stdEnc) && stdEnc[i] != "" {
			n = stdEnc[i]
		}
		enc[i] = Name{S: n}
	}
	in.StdEnc = in.NewArr(enc, false)
	in.Resources = map[string]Dict{
		"Font":    in.FontDir,
		"CIDFont": in.NewDict("Resources/CIDFont"),
		"CMap":    in.NewDict("Resources/CMap"),
		"ProcSet": in.NewDict("Resources/ProcSet"),
	}
	in.ResOrder = []string{"CIDFont", "CMap", "Font", "ProcSet"}
	in.ops = opTable()
	for _, n := range SystemOps {
		in.System.D.M[n] = Op{Name: n}
	}
	in.System.D.M["true"] = Bool(true)
	in.System.D.M["false"] = Bool(false)
	in.System.D.M["systemdict"] = in.System
	in.System.D.M["userdict"] = in.User
	in.System.D.M["errordict"] = in.ErrorD
	in.System.D.M["FontDirectory"] = in.FontDir
	in.System.D.M["StandardEncoding"] = in.StdEnc
	in.DStack = []Dict{in.System, in.User}
	return in
}

// Instantiate turns a token into a fresh object (what the scanner creates).
func (in *Interp) Instantiate(t Tok) Obj {
	switch t := t.(type) {
	case TInt:
		return Int(t)
	case TReal:
		return Real(t)
	case TStr:
		return in.NewStr(t)
	case TName:
		return Name{S: t.S, Exec: t.Exec}
	case TProc:
		e := make([]Obj, len(t))
		for i, x := range t {
			e[i] = in.Instantiate(x)
		}
		return in.NewArr(e, true)
	default:
		panic(fmt.Sprintf("bad token %T", t))
	}
}

// Run executes a token program as the top-level input. It returns nil, a
// *PSErr, or *Unsupported.
func (in *Interp) Run(prog []Tok) error {
	for _, t := range prog {
		if p, ok := t.(TProc); ok {
			// interpreters collect the elements of a procedure literal on the
			// operand stack, so a long body can hit the operand-stack limit
			// while it is scanned (an implementation limit, C11's domain)
			if len(in.Stack)+flatSize(p) > in.MaxStack {
				return unsup("procedure literal of %d tokens on a stack of %d: operand-stack limit while scanning", flatSize(p), len(in.Stack))
			}
		}
		err := in.ExecTop(in.Instantiate(t))
		if err != nil {
			return in.topErr(err)
		}
	}
	return nil
}

func (in *Interp) topErr(err error) error {
	switch err {
	case errStop:
		return errStopTop
	case errExit:
		return &PSErr{Names: []string{"invalidexit"}, Where: "exit outside any loop"}
	}
	return err
}

// errStopTop tells the caller that `stop` ended the program (no error).
var errStopTop = errors.New("stopped")

// Stopped reports whether err is the "program ended by stop" signal.
func Stopped(err error) bool { return err == errStopTop }

// ExecTop executes an object met by the scanner at the top level.
func (in *Interp) ExecTop(o Obj) error {
	switch o := o.(type) {
	case Name:
		if o.Exec {
			return in.execName(o)
		}
	}
	return in.push(o)
}

func (in *Interp) push(o Obj) error {
	if len(in.Stack) >= in.MaxStack {
		return unsup("operand stack deeper than %d (C11's domain)", in.MaxStack)
	}
	in.Stack = append(in.Stack, o)
	return nil
}

func (in *Interp) step() error {
	in.Steps++
	if in.Steps > in.MaxSteps {
		return unsup("more than %d steps", in.MaxSteps)
	}
	return nil
}

func (in *Interp) lookup(name string) (Obj, bool) {
	for i := len(in.DStack) - 1; i >= 0; i-- {
		if v, ok := in.DStack[i].D.M[name]; ok {
			return v, true
		}
	}
	return nil, false
}

func (in *Interp) execName(n Name) error {
	if err := in.step(); err != nil {
		return err
	}
	v, ok := in.lookup(n.S)
	if !ok {
		return &PSErr{Names: []string{"undefined"}, Where: n.S}
	}
	return in.execValue(v)
}

// execValue executes an object obtained by name look-up or handed to exec.
func (in *Interp) execValue(v Obj) error {
	switch v := v.(type) {
	case Arr:
		if v.Exec {
			return in.callProc(v)
		}
	case Op:
		return in.runOp(v)
	case Name:
		if v.AnyAttr {
			return unsup("executing the name returned by type (its executable attribute is not asserted)")
		}
		if v.Exec {
			return in.execName(v)
		}
	}
	return in.push(v)
}

func (in *Interp) runOp(op Op) error {
	if err := in.step(); err != nil {
		return err
	}
	f, ok := in.ops[op.Name]
	if !ok {
		return unsup("operator %s not modelled", op.Name)
	}
	in.OpCounts[op.Name]++
	return f(in)
}

// callProc runs a procedure body: executable names are executed, everything
// else - including nested procedures, wherever they stand - is pushed.
func (in *Interp) callProc(p Arr) error {
	if err := in.step(); err != nil {
		return err
	}
	in.depth++
	defer func() { in.depth-- }()
	if in.depth > in.MaxDepth {
		return unsup("execution nesting deeper than %d (C11's domain)", in.MaxDepth)
	}
	// iterate over a snapshot of the window: the body may be modified while
	// it runs, elements are fetched one at a time (PLRM 3.5.3)
	for i := 0; i < p.N; i++ {
		e := p.St.E[p.Off+i]
		var err error
		switch e := e.(type) {
		case Name:
			if e.Exec {
				err = in.execName(e)
			} else {
				err = in.push(e)
			}
		case Op:
			err = in.runOp(e)
		default:
			err = in.push(e)
		}
		if err != nil {
			return err
		}
	}
	return nil
}

// ---------------------------------------------------------------- helpers

func psErr(where string, names ...string) error {
	sort.Strings(names)
	var out []string
	for i, n := range names {
		if i == 0 || n != names[i-1] {
			out = append(out, n)
		}
	}
	return &PSErr{Names: out, Where: where}
}

func (in *Interp) need(n int, where string) error {
	if len(in.Stack) < n {
		return psErr(where, "stackunderflow")
	}
	return nil
}

func (in *Interp) top(i int) Obj { return in.Stack[len(in.Stack)-1-i] }

func (in *Interp) popN(n int) { in.Stack = in.Stack[:len(in.Stack)-n] }

func isNum(o Obj) bool {
	switch o.(type) {
	case Int, Real:
		return true
	}
	return false
}

func isOpaqueInt(o Obj) bool { _, ok := o.(AnyIntGE); return ok }

func toF(o Obj) float64 {
	switch o := o.(type) {
	case Int:
		return float64(o)
	case Real:
		return float64(o)
	}
	return math.NaN()
}

func isProc(o Obj) bool { a, ok := o.(Arr); return ok && a.Exec }

// anyOpaque flags programs that compute with a value the model only knows
// approximately.
func anyOpaque(objs ...Obj) error {
	for _, o := range objs {
		if isOpaqueInt(o) {
			return unsup("arithmetic on the implementation-defined result of maxlength")
		}
	}
	return nil
}

// arith implements add, sub, mul with integer overflow promoted to real.
func arith(in *Interp, where string, fi func(a, b *big.Int) *big.Int, ff func(a, b float64) float64) error {
	if err := in.need(2, where); err != nil {
		return err
	}
	a, b := in.top(1), in.top(0)
	if err := anyOpaque(a, b); err != nil {
		return err
	}
	if !isNum(a) || !isNum(b) {
		return psErr(where, "typecheck")
	}
	in.popN(2)
	ai, aInt := a.(Int)
	bi, bInt := b.(Int)
	if aInt && bInt {
		r := fi(big.NewInt(int64(ai)), big.NewInt(int64(bi)))
		if r.IsInt64() {
			return in.push(Int(r.Int64()))
		}
		f, _ := new(big.Float).SetInt(r).Float64()
		return in.push(Real(f))
	}
	return in.push(Real(ff(toF(a), toF(b))))
}

// psEqual is the PLRM eq relation restricted to the operand types the minimal
// interpreter implements; other combinations are Unsupported.
func psEqual(a, b Obj) (bool, error) {
	da, aIsD := a.(Dict)
	db, bIsD := b.(Dict)
	if aIsD && bIsD {
		return da.D == db.D, nil
	}
	simple := func(o Obj) bool {
		switch o := o.(type) {
		case Int, Real, Str:
			return true
		case Name:
			return !o.Exec
		}
		return false
	}
	if isOpaqueInt(a) || isOpaqueInt(b) {
		return false, unsup("comparison with the result of maxlength")
	}
	if !simple(a) || !simple(b) {
		return false, unsup("eq/ne on %s and %s is documented as not implemented", TypeName(a), TypeName(b))
	}
	if isNum(a) && isNum(b) {
		ai, aInt := a.(Int)
		bi, bInt := b.(Int)
		if aInt && bInt {
			return ai == bi, nil
		}
		// integer against real: compare mathematical values
		var i Int
		var r float64
		if aInt {
			i, r = ai, float64(b.(Real))
		} else if bInt {
			i, r = bi, float64(a.(Real))
		} else {
			return float64(a.(Real)) == float64(b.(Real)), nil
		}
		if r != math.Trunc(r) || math.IsInf(r, 0) || math.IsNaN(r) {
			return false, nil
		}
		bf := new(big.Float).SetFloat64(r)
		bi2, _ := bf.Int(nil)
		return bi2.Cmp(big.NewInt(int64(i))) == 0, nil
	}
	text := func(o Obj) (string, bool) {
		switch o := o.(type) {
		case Str:
			return string(o.Bytes()), true
		case Name:
			return o.S, true
		}
		return "", false
	}
	ta, oka := text(a)
	tb, okb := text(b)
	if oka && okb {
		return ta == tb, nil
	}
	return false, nil // number against string/name
}

func (in *Interp) sizeArg(where string) (int, error) {
	if err := in.need(1, where); err != nil {
		return 0, err
	}
	if err := anyOpaque(in.top(0)); err != nil {
		return 0, err
	}
	n, ok := in.top(0).(Int)
	if !ok {
		return 0, psErr(where, "typecheck")
	}
	if n < 0 {
		return 0, psErr(where, "rangecheck")
	}
	if int64(n) > int64(in.MaxSize) {
		return 0, unsup("%s of %d elements: beyond the sizes every implementation must accept (C11's domain)", where, n)
	}
	return int(n), nil
}

// indexArg checks an index operand against [0,n).
func indexArg(o Obj, n int) (int, []string, error) {
	if err := anyOpaque(o); err != nil {
		return 0, nil, err
	}
	i, ok := o.(Int)
	if !ok {
		return 0, []string{"typecheck"}, nil
	}
	if i < 0 || int64(i) >= int64(n) {
		return 0, []string{"rangecheck"}, nil
	}
	return int(i), nil, nil
}

func nameKey(o Obj, where string) (string, error) {
	n, ok := o.(Name)
	if !ok || n.Exec {
		return "", unsup("%s: non-name dictionary keys are documented as not implemented", where)
	}
	return n.S, nil
}

func loopBody(in *Interp, proc Obj, pre func() (bool, error)) error {
	for {
		more, err := pre()
		if err != nil {
			return err
		}
		if !more {
			return nil
		}
		if err := in.step(); err != nil {
			return err
		}
		err = in.callProc(proc.(Arr))
		if err == errExit {
			return nil
		}
		if err != nil {
			return err
		}
	}
}

// ---------------------------------------------------------------- operators

func opTable() map[string]func(*Interp) error {
	t := map[string]func(*Interp) error{}

	t["["] = func(in *Interp) error { return in.push(Mark{}) }
	t["mark"] = t["["]
	t["<<"] = t["["]
	findMark := func(in *Interp) int {
		for i := len(in.Stack) - 1; i >= 0; i-- {
			if _, ok := in.Stack[i].(Mark); ok {
				return i
			}
		}
		return -1
	}
	t["]"] = func(in *Interp) error {
		m := findMark(in)
		if m < 0 {
			return psErr("]", "unmatchedmark")
		}
		a := in.NewArr(in.Stack[m+1:], false)
		in.Stack = in.Stack[:m]
		return in.push(a)
	}
	t[">>"] = func(in *Interp) error {
		m := findMark(in)
		if m < 0 {
			return psErr(">>", "unmatchedmark")
		}
		items := in.Stack[m+1:]
		if len(items)%2 != 0 {
			return psErr(">>", "rangecheck")
		}
		d := in.NewDict("")
		for i := 0; i < len(items); i += 2 {
			k, err := nameKey(items[i], ">>")
			if err != nil {
				return err
			}
			d.D.M[k] = items[i+1]
		}
		in.Stack = in.Stack[:m]
		return in.push(d)
	}
	t["cleartomark"] = func(in *Interp) error {
		m := findMark(in)
		if m < 0 {
			return psErr("cleartomark", "unmatchedmark")
		}
		in.Stack = in.Stack[:m]
		return nil
	}

	t["abs"] = func(in *Interp) error {
		if err := in.need(1, "abs"); err != nil {
			return err
		}
		x := in.top(0)
		if err := anyOpaque(x); err != nil {
			return err
		}
		switch x := x.(type) {
		case Int:
			in.popN(1)
			if x == math.MinInt64 {
				return in.push(Real(-float64(x)))
			}
			if x < 0 {
				x = -x
			}
			return in.push(x)
		case Real:
			in.popN(1)
			return in.push(Real(math.Abs(float64(x))))
		}
		return psErr("abs", "typecheck")
	}
	t["add"] = func(in *Interp) error {
		return arith(in, "add", func(a, b *big.Int) *big.Int { return a.Add(a, b) }, func(a, b float64) float64 { return a + b })
	}
	t["sub"] = func(in *Interp) error {
		return arith(in, "sub", func(a, b *big.Int) *big.Int { return a.Sub(a, b) }, func(a, b float64) float64 { return a - b })
	}
	t["mul"] = func(in *Interp) error {
		return arith(in, "mul", func(a, b *big.Int) *big.Int { return a.Mul(a, b) }, func(a, b float64) float64 { return a * b })
	}

	logic := func(name string, fb func(a, b bool) bool, fi func(a, b int64) int64) func(*Interp) error {
		return func(in *Interp) error {
			if err := in.need(2, name); err != nil {
				return err
			}
			a, b := in.top(1), in.top(0)
			if err := anyOpaque(a, b); err != nil {
				return err
			}
			switch a := a.(type) {
			case Bool:
				if b, ok := b.(Bool); ok {
					in.popN(2)
					return in.push(Bool(fb(bool(a), bool(b))))
				}
			case Int:
				if b, ok := b.(Int); ok {
					in.popN(2)
					return in.push(Int(fi(int64(a), int64(b))))
				}
			}
			return psErr(name, "typecheck")
		}
	}
	t["and"] = logic("and", func(a, b bool) bool { return a && b }, func(a, b int64) int64 { return a & b })
	t["or"] = logic("or", func(a, b bool) bool { return a || b }, func(a, b int64) int64 { return a | b })
	t["not"] = func(in *Interp) error {
		if err := in.need(1, "not"); err != nil {
			return err
		}
		if err := anyOpaque(in.top(0)); err != nil {
			return err
		}
		switch x := in.top(0).(type) {
		case Bool:
			in.popN(1)
			return in.push(!x)
		case Int:
			in.popN(1)
			return in.push(^x)
		}
		return psErr("not", "typecheck")
	}

	t["array"] = func(in *Interp) error {
		n, err := in.sizeArg("array")
		if err != nil {
			return err
		}
		in.popN(1)
		e := make([]Obj, n)
		for i := range e {
			e[i] = Null{}
		}
		return in.push(in.NewArr(e, false))
	}
	t["string"] = func(in *Interp) error {
		n, err := in.sizeArg("string")
		if err != nil {
			return err
		}
		in.popN(1)
		return in.push(in.NewStr(make([]byte, n)))
	}
	t["dict"] = func(in *Interp) error {
		_, err := in.sizeArg("dict")
		if err != nil {
			return err
		}
		in.popN(1)
		return in.push(in.NewDict(""))
	}

	t["begin"] = func(in *Interp) error {
		if err := in.need(1, "begin"); err != nil {
			return err
		}
		d, ok := in.top(0).(Dict)
		if !ok {
			return psErr("begin", "typecheck")
		}
		if len(in.DStack) >= in.MaxDictStack {
			return unsup("dictionary stack deeper than %d (C11's domain)", in.MaxDictStack)
		}
		in.popN(1)
		in.DStack = append(in.DStack, d)
		return nil
	}
	t["end"] = func(in *Interp) error {
		if len(in.DStack) <= 2 {
			return psErr("end", "dictstackunderflow")
		}
		in.DStack = in.DStack[:len(in.DStack)-1]
		return nil
	}
	t["currentdict"] = func(in *Interp) error { return in.push(in.DStack[len(in.DStack)-1]) }
	t["def"] = func(in *Interp) error {
		if err := in.need(2, "def"); err != nil {
			return err
		}
		k, err := nameKey(in.top(1), "def")
		if err != nil {
			return err
		}
		in.DStack[len(in.DStack)-1].D.M[k] = in.top(0)
		in.popN(2)
		return nil
	}
	t["load"] = func(in *Interp) error {
		if err := in.need(1, "load"); err != nil {
			return err
		}
		k, err := nameKey(in.top(0), "load")
		if err != nil {
			return err
		}
		v, ok := in.lookup(k)
		if !ok {
			return psErr("load", "undefined")
		}
		in.popN(1)
		return in.push(v)
	}
	t["where"] = func(in *Interp) error {
		if err := in.need(1, "where"); err != nil {
			return err
		}
		k, err := nameKey(in.top(0), "where")
		if err != nil {
			return err
		}
		in.popN(1)
		for i := len(in.DStack) - 1; i >= 0; i-- {
			if _, ok := in.DStack[i].D.M[k]; ok {
				if err := in.push(in.DStack[i]); err != nil {
					return err
				}
				return in.push(Bool(true))
			}
		}
		return in.push(Bool(false))
	}
	t["known"] = func(in *Interp) error {
		if err := in.need(2, "known"); err != nil {
			return err
		}
		d, ok := in.top(1).(Dict)
		if !ok {
			return psErr("known", "typecheck")
		}
		k, err := nameKey(in.top(0), "known")
		if err != nil {
			return err
		}
		_, has := d.D.M[k]
		in.popN(2)
		return in.push(Bool(has))
	}

	t["count"] = func(in *Interp) error { return in.push(Int(len(in.Stack))) }
	t["dup"] = func(in *Interp) error {
		if err := in.need(1, "dup"); err != nil {
			return err
		}
		return in.push(in.top(0))
	}
	t["pop"] = func(in *Interp) error {
		if err := in.need(1, "pop"); err != nil {
			return err
		}
		in.popN(1)
		return nil
	}
	t["exch"] = func(in *Interp) error {
		if err := in.need(2, "exch"); err != nil {
			return err
		}
		n := len(in.Stack)
		in.Stack[n-1], in.Stack[n-2] = in.Stack[n-2], in.Stack[n-1]
		return nil
	}
	t["index"] = func(in *Interp) error {
		if err := in.need(1, "index"); err != nil {
			return err
		}
		if err := anyOpaque(in.top(0)); err != nil {
			return err
		}
		n, ok := in.top(0).(Int)
		var errs []string
		if len(in.Stack) < 2 {
			// nothing below the count: also an underflow for every n >= 0
			errs = append(errs, "stackunderflow")
		}
		if !ok {
			return psErr("index", append(errs, "typecheck")...)
		}
		if n < 0 {
			return psErr("index", append(errs, "rangecheck")...)
		}
		if int64(n) >= int64(len(in.Stack)-1) {
			return psErr("index", "rangecheck", "stackunderflow")
		}
		in.popN(1)
		return in.push(in.Stack[len(in.Stack)-1-int(n)])
	}
	t["roll"] = func(in *Interp) error {
		if err := in.need(2, "roll"); err != nil {
			return err
		}
		if err := anyOpaque(in.top(0), in.top(1)); err != nil {
			return err
		}
		n, ok1 := in.top(1).(Int)
		j, ok2 := in.top(0).(Int)
		var errs []string
		if !ok1 || !ok2 {
			errs = append(errs, "typecheck")
		}
		if ok1 && n < 0 {
			errs = append(errs, "rangecheck")
		}
		if ok1 && int64(n) > int64(len(in.Stack)-2) {
			errs = append(errs, "rangecheck", "stackunderflow")
		}
		if len(errs) > 0 {
			return psErr("roll", errs...)
		}
		in.popN(2)
		if n == 0 {
			return nil
		}
		k := int(((int64(j) % int64(n)) + int64(n)) % int64(n))
		seg := in.Stack[len(in.Stack)-int(n):]
		tmp := append([]Obj(nil), seg...)
		for i := range seg {
			seg[(i+k)%int(n)] = tmp[i]
		}
		return nil
	}
	t["copy"] = func(in *Interp) error {
		if err := in.need(1, "copy"); err != nil {
			return err
		}
		if err := anyOpaque(in.top(0)); err != nil {
			return err
		}
		if n, ok := in.top(0).(Int); ok {
			if n < 0 {
				return psErr("copy", "rangecheck")
			}
			if int64(n) > int64(len(in.Stack)-1) {
				return psErr("copy", "rangecheck", "stackunderflow")
			}
			in.popN(1)
			if len(in.Stack)+int(n) > in.MaxStack {
				return unsup("operand stack deeper than %d (C11's domain)", in.MaxStack)
			}
			in.Stack = append(in.Stack, in.Stack[len(in.Stack)-int(n):]...)
			return nil
		}
		if err := in.need(2, "copy"); err != nil {
			// a single non-integer operand: both readings are defensible
			return psErr("copy", "stackunderflow", "typecheck")
		}
		a, b := in.top(1), in.top(0)
		switch a := a.(type) {
		case Arr:
			b, ok := b.(Arr)
			if !ok {
				return psErr("copy", "typecheck")
			}
			if a.Exec || b.Exec {
				return unsup("copy on procedures is not implemented")
			}
			if b.N < a.N {
				return psErr("copy", "rangecheck")
			}
			copy(b.St.E[b.Off:b.Off+a.N], append([]Obj(nil), a.Elems()...))
			in.popN(2)
			return in.push(Arr{St: b.St, Off: b.Off, N: a.N})
		case Str:
			b, ok := b.(Str)
			if !ok {
				return psErr("copy", "typecheck")
			}
			if b.N < a.N {
				return psErr("copy", "rangecheck")
			}
			copy(b.St.B[b.Off:b.Off+a.N], append([]byte(nil), a.Bytes()...))
			in.popN(2)
			return in.push(Str{St: b.St, Off: b.Off, N: a.N})
		case Dict:
			b, ok := b.(Dict)
			if !ok {
				return psErr("copy", "typecheck")
			}
			for k, v := range a.D.M {
				b.D.M[k] = v
			}
			in.popN(2)
			return in.push(b)
		}
		return psErr("copy", "typecheck")
	}

	t["length"] = func(in *Interp) error {
		if err := in.need(1, "length"); err != nil {
			return err
		}
		var n int
		switch o := in.top(0).(type) {
		case Arr:
			n = o.N
		case Str:
			n = o.N
		case Dict:
			n = len(o.D.M)
		case Name:
			n = len(o.S)
		default:
			return psErr("length", "typecheck")
		}
		in.popN(1)
		return in.push(Int(n))
	}
	t["maxlength"] = func(in *Interp) error {
		if err := in.need(1, "maxlength"); err != nil {
			return err
		}
		d, ok := in.top(0).(Dict)
		if !ok {
			return psErr("maxlength", "typecheck")
		}
		in.popN(1)
		return in.push(AnyIntGE{Min: int64(len(d.D.M))})
	}
	t["get"] = func(in *Interp) error {
		if err := in.need(2, "get"); err != nil {
			return err
		}
		switch o := in.top(1).(type) {
		case Arr:
			i, errs, err := indexArg(in.top(0), o.N)
			if err != nil {
				return err
			}
			if errs != nil {
				return psErr("get", errs...)
			}
			in.popN(2)
			return in.push(o.St.E[o.Off+i])
		case Str:
			i, errs, err := indexArg(in.top(0), o.N)
			if err != nil {
				return err
			}
			if errs != nil {
				return psErr("get", errs...)
			}
			in.popN(2)
			return in.push(Int(o.St.B[o.Off+i]))
		case Dict:
			k, err := nameKey(in.top(0), "get")
			if err != nil {
				return err
			}
			v, ok := o.D.M[k]
			if !ok {
				return psErr("get", "undefined")
			}
			in.popN(2)
			return in.push(v)
		}
		return psErr("get", "typecheck")
	}
	t["put"] = func(in *Interp) error {
		if err := in.need(3, "put"); err != nil {
			return err
		}
		switch o := in.top(2).(type) {
		case Arr:
			i, errs, err := indexArg(in.top(1), o.N)
			if err != nil {
				return err
			}
			if errs != nil {
				return psErr("put", errs...)
			}
			o.St.E[o.Off+i] = in.top(0)
			in.popN(3)
			return nil
		case Str:
			i, errs, err := indexArg(in.top(1), o.N)
			if err != nil {
				return err
			}
			if err := anyOpaque(in.top(0)); err != nil {
				return err
			}
			v, ok := in.top(0).(Int)
			if !ok {
				errs = append(errs, "typecheck")
			} else if v < 0 || v > 255 {
				errs = append(errs, "rangecheck")
			}
			if errs != nil {
				return psErr("put", errs...)
			}
			o.St.B[o.Off+i] = byte(v)
			in.popN(3)
			return nil
		case Dict:
			k, err := nameKey(in.top(1), "put")
			if err != nil {
				return err
			}
			o.D.M[k] = in.top(0)
			in.popN(3)
			return nil
		}
		return psErr("put", "typecheck")
	}
	t["getinterval"] = func(in *Interp) error {
		if err := in.need(3, "getinterval"); err != nil {
			return err
		}
		if err := anyOpaque(in.top(0), in.top(1)); err != nil {
			return err
		}
		var n int
		switch o := in.top(2).(type) {
		case Arr:
			if o.Exec {
				return unsup("getinterval on procedures is not implemented")
			}
			n = o.N
		case Str:
			n = o.N
		default:
			return psErr("getinterval", "typecheck")
		}
		idx, ok1 := in.top(1).(Int)
		cnt, ok2 := in.top(0).(Int)
		var errs []string
		if !ok1 || !ok2 {
			errs = append(errs, "typecheck")
		}
		if ok1 && (idx < 0 || int64(idx) > int64(n)) {
			errs = append(errs, "rangecheck")
		}
		if ok1 && int64(idx) == int64(n) && !ok2 {
			// an index equal to the length is rejected by some interpreters
			errs = append(errs, "rangecheck")
		}
		if ok2 && cnt < 0 {
			errs = append(errs, "rangecheck")
		}
		if ok1 && ok2 && idx >= 0 && cnt >= 0 && (int64(idx) > int64(n) || int64(cnt) > int64(n)-int64(idx)) {
			errs = append(errs, "rangecheck")
		}
		if len(errs) > 0 {
			return psErr("getinterval", errs...)
		}
		if int(idx) == n {
			return unsup("getinterval starting at the end of the container (interpreters differ, see DESIGN.md section 6)")
		}
		var res Obj
		switch o := in.top(2).(type) {
		case Arr:
			res = Arr{St: o.St, Off: o.Off + int(idx), N: int(cnt)}
		case Str:
			res = Str{St: o.St, Off: o.Off + int(idx), N: int(cnt)}
		}
		in.popN(3)
		return in.push(res)
	}
	t["putinterval"] = func(in *Interp) error {
		if err := in.need(3, "putinterval"); err != nil {
			return err
		}
		if err := anyOpaque(in.top(1)); err != nil {
			return err
		}
		dst, src := in.top(2), in.top(0)
		idx, okI := in.top(1).(Int)
		var errs []string
		if !okI {
			errs = append(errs, "typecheck")
		}
		var dn, sn int
		switch d := dst.(type) {
		case Arr:
			s, ok := src.(Arr)
			if d.Exec || (ok && s.Exec) {
				return unsup("putinterval on procedures is not implemented")
			}
			if !ok {
				errs = append(errs, "typecheck")
			} else {
				sn = s.N
			}
			dn = d.N
		case Str:
			s, ok := src.(Str)
			if !ok {
				errs = append(errs, "typecheck")
			} else {
				sn = s.N
			}
			dn = d.N
		default:
			errs = append(errs, "typecheck")
			if okI && idx < 0 {
				errs = append(errs, "rangecheck")
			}
			return psErr("putinterval", errs...)
		}
		if okI && (idx < 0 || int64(idx) > int64(dn) || int64(idx)+int64(sn) > int64(dn)) {
			errs = append(errs, "rangecheck")
		}
		if len(errs) > 0 {
			return psErr("putinterval", errs...)
		}
		switch d := dst.(type) {
		case Arr:
			s := src.(Arr)
			copy(d.St.E[d.Off+int(idx):], append([]Obj(nil), s.Elems()...))
		case Str:
			s := src.(Str)
			copy(d.St.B[d.Off+int(idx):], append([]byte(nil), s.Bytes()...))
		}
		in.popN(3)
		return nil
	}

	cmp := func(name string, neg bool) func(*Interp) error {
		return func(in *Interp) error {
			if err := in.need(2, name); err != nil {
				return err
			}
			eq, err := psEqual(in.top(1), in.top(0))
			if err != nil {
				return err
			}
			in.popN(2)
			return in.push(Bool(eq != neg))
		}
	}
	t["eq"] = cmp("eq", false)
	t["ne"] = cmp("ne", true)

	t["type"] = func(in *Interp) error {
		if err := in.need(1, "type"); err != nil {
			return err
		}
		tn := TypeName(in.top(0))
		switch in.top(0).(type) {
		case Opaque:
			return unsup("type of an opaque value")
		case Null, File:
			return unsup("type of null/file: the interpreter represents both by the same value (TODO in bType)")
		}
		// the library leaves the operand on the stack (documented quirk is not
		// assumed): PLRM pops it
		in.popN(1)
		return in.push(Name{S: tn, Exec: true, AnyAttr: true})
	}
	t["cvx"] = func(in *Interp) error { return unsup("cvx is documented as (nearly) not implemented") }
	t["matrix"] = func(in *Interp) error { return unsup("matrix is outside the asserted operator classes") }
	access := func(name string) func(*Interp) error {
		return func(in *Interp) error {
			if !in.Lenient {
				return unsup("%s: access attributes are documented as not implemented", name)
			}
			return in.need(1, name)
		}
	}
	t["readonly"] = access("readonly")
	t["executeonly"] = access("executeonly")
	t["noaccess"] = access("noaccess")

	t["exec"] = func(in *Interp) error {
		if err := in.need(1, "exec"); err != nil {
			return err
		}
		o := in.top(0)
		switch o := o.(type) {
		case Arr:
			if o.Exec {
				in.popN(1)
				return in.callProc(o)
			}
		case Op:
			in.popN(1)
			return in.runOp(o)
		}
		return unsup("exec of %s is documented as not implemented", TypeName(o))
	}
	t["if"] = func(in *Interp) error {
		if err := in.need(2, "if"); err != nil {
			return err
		}
		c, ok := in.top(1).(Bool)
		if !ok || !isProc(in.top(0)) {
			return psErr("if", "typecheck")
		}
		p := in.top(0).(Arr)
		in.popN(2)
		if c {
			return in.callProc(p)
		}
		return nil
	}
	t["ifelse"] = func(in *Interp) error {
		if err := in.need(3, "ifelse"); err != nil {
			return err
		}
		c, ok := in.top(2).(Bool)
		if !ok || !isProc(in.top(1)) || !isProc(in.top(0)) {
			return psErr("ifelse", "typecheck")
		}
		p1, p2 := in.top(1).(Arr), in.top(0).(Arr)
		in.popN(3)
		if c {
			return in.callProc(p1)
		}
		return in.callProc(p2)
	}
	t["for"] = func(in *Interp) error {
		if err := in.need(4, "for"); err != nil {
			return err
		}
		if err := anyOpaque(in.top(1), in.top(2), in.top(3)); err != nil {
			return err
		}
		if !isNum(in.top(3)) || !isNum(in.top(2)) || !isNum(in.top(1)) || !isProc(in.top(0)) {
			return psErr("for", "typecheck")
		}
		ini, ok1 := in.top(3).(Int)
		inc, ok2 := in.top(2).(Int)
		lim, ok3 := in.top(1).(Int)
		if !ok1 || !ok2 || !ok3 {
			return unsup("for with real control values is documented as not implemented")
		}
		if inc == 0 {
			return unsup("for with zero increment does not terminate")
		}
		proc := in.top(0)
		in.popN(4)
		v := big.NewInt(int64(ini))
		return loopBody(in, proc, func() (bool, error) {
			if inc > 0 && v.Cmp(big.NewInt(int64(lim))) > 0 || inc < 0 && v.Cmp(big.NewInt(int64(lim))) < 0 {
				return false, nil
			}
			if !v.IsInt64() {
				return false, unsup("for control variable leaves the integer range")
			}
			if err := in.push(Int(v.Int64())); err != nil {
				return false, err
			}
			v.Add(v, big.NewInt(int64(inc)))
			return true, nil
		})
	}
	t["repeat"] = func(in *Interp) error {
		if err := in.need(2, "repeat"); err != nil {
			return err
		}
		if err := anyOpaque(in.top(1)); err != nil {
			return err
		}
		n, ok := in.top(1).(Int)
		if !ok || !isProc(in.top(0)) {
			if ok && n < 0 {
				return psErr("repeat", "typecheck", "rangecheck")
			}
			return psErr("repeat", "typecheck")
		}
		if n < 0 {
			return psErr("repeat", "rangecheck")
		}
		proc := in.top(0)
		in.popN(2)
		i := Int(0)
		return loopBody(in, proc, func() (bool, error) {
			if i >= n {
				return false, nil
			}
			i++
			return true, nil
		})
	}
	t["loop"] = func(in *Interp) error {
		if err := in.need(1, "loop"); err != nil {
			return err
		}
		if !isProc(in.top(0)) {
			return psErr("loop", "typecheck")
		}
		proc := in.top(0)
		in.popN(1)
		return loopBody(in, proc, func() (bool, error) { return true, nil })
	}
	t["forall"] = func(in *Interp) error {
		if err := in.need(2, "forall"); err != nil {
			return err
		}
		if !isProc(in.top(0)) {
			return psErr("forall", "typecheck")
		}
		proc := in.top(0)
		switch o := in.top(1).(type) {
		case Arr:
			if o.Exec {
				return unsup("forall over a procedure is not implemented")
			}
			in.popN(2)
			i := 0
			return loopBody(in, proc, func() (bool, error) {
				if i >= o.N {
					return false, nil
				}
				err := in.push(o.St.E[o.Off+i])
				i++
				return true, err
			})
		case Str:
			in.popN(2)
			i := 0
			return loopBody(in, proc, func() (bool, error) {
				if i >= o.N {
					return false, nil
				}
				err := in.push(Int(o.St.B[o.Off+i]))
				i++
				return true, err
			})
		case Dict:
			if len(o.D.M) > 1 && !discardsPair(proc.(Arr)) {
				return unsup("forall over a dictionary with several entries: enumeration order is unspecified")
			}
			in.popN(2)
			keys := o.Keys()
			i := 0
			return loopBody(in, proc, func() (bool, error) {
				if i >= len(keys) {
					return false, nil
				}
				if err := in.push(Name{S: keys[i]}); err != nil {
					return false, err
				}
				err := in.push(o.D.M[keys[i]])
				i++
				return true, err
			})
		}
		return psErr("forall", "typecheck")
	}
	t["exit"] = func(in *Interp) error { return errExit }
	t["stop"] = func(in *Interp) error { return errStop }

	t["bind"] = func(in *Interp) error {
		if err := in.need(1, "bind"); err != nil {
			return err
		}
		p, ok := in.top(0).(Arr)
		if !ok {
			return psErr("bind", "typecheck")
		}
		if !p.Exec {
			return unsup("bind on a literal array")
		}
		seen := map[*ArrStore]bool{}
		var rec func(a Arr)
		rec = func(a Arr) {
			if seen[a.St] {
				return
			}
			seen[a.St] = true
			for i := 0; i < a.N; i++ {
				switch e := a.St.E[a.Off+i].(type) {
				case Name:
					if e.Exec {
						if v, ok := in.lookup(e.S); ok {
							if op, isOp := v.(Op); isOp {
								a.St.E[a.Off+i] = op
							}
						}
					}
				case Arr:
					if e.Exec {
						rec(e)
					}
				}
			}
		}
		rec(p)
		return nil
	}

	t["definefont"] = func(in *Interp) error {
		if err := in.need(2, "definefont"); err != nil {
			return err
		}
		f, ok := in.top(0).(Dict)
		if !ok {
			return psErr("definefont", "typecheck", "invalidfont")
		}
		k, err := nameKey(in.top(1), "definefont")
		if err != nil {
			return err
		}
		in.FontDir.D.M[k] = f
		in.popN(2)
		return in.push(f)
	}
	t["findfont"] = func(in *Interp) error {
		if err := in.need(1, "findfont"); err != nil {
			return err
		}
		k, err := nameKey(in.top(0), "findfont")
		if err != nil {
			return err
		}
		f, ok := in.FontDir.D.M[k]
		if !ok {
			return psErr("findfont", "invalidfont")
		}
		in.popN(1)
		return in.push(f)
	}
	t["defineresource"] = func(in *Interp) error {
		if err := in.need(3, "defineresource"); err != nil {
			return err
		}
		cat, ok := in.top(0).(Name)
		if !ok || cat.Exec {
			return psErr("defineresource", "typecheck", "undefined")
		}
		k, err := nameKey(in.top(2), "defineresource")
		if err != nil {
			return err
		}
		cd, ok := in.Resources[cat.S]
		if !ok {
			return psErr("defineresource", "undefined")
		}
		inst := in.top(1)
		switch cat.S {
		case "CMap":
			return unsup("defineresource in category CMap needs a CodeMap built by the CMap operators (C07)")
		case "Font", "CIDFont", "ProcSet":
			// PLRM 3.9.2, table 3.8: the instances of all three categories are
			// dictionaries; "typecheck: the instance is not of the proper type
			// for the category"
			if _, isD := inst.(Dict); !isD {
				return psErr("defineresource", "typecheck")
			}
		}
		cd.D.M[k] = inst
		in.popN(3)
		return in.push(inst)
	}
	t["findresource"] = func(in *Interp) error {
		if err := in.need(2, "findresource"); err != nil {
			return err
		}
		cat, ok := in.top(0).(Name)
		if !ok || cat.Exec {
			return psErr("findresource", "typecheck", "undefined")
		}
		cd, ok := in.Resources[cat.S]
		if !ok {
			return psErr("findresource", "undefined")
		}
		var key string
		switch k := in.top(1).(type) {
		case Name:
			if k.Exec {
				return unsup("findresource with an executable name key")
			}
			key = k.S
		case Str:
			key = string(k.Bytes())
		default:
			return unsup("findresource with a key that is neither name nor string")
		}
		v, ok := cd.D.M[key]
		if !ok {
			return psErr("findresource", "undefinedresource")
		}
		in.popN(2)
		return in.push(v)
	}
	t["internaldict"] = func(in *Interp) error {
		if err := in.need(1, "internaldict"); err != nil {
			return err
		}
		if err := anyOpaque(in.top(0)); err != nil {
			return err
		}
		n, ok := in.top(0).(Int)
		if !ok {
			return psErr("internaldict", "typecheck")
		}
		if n != 1183615869 {
			return psErr("internaldict", "invalidaccess")
		}
		in.popN(1)
		return in.push(in.Internal)
	}

	// file operators: only in reader mode
	t["currentfile"] = func(in *Interp) error {
		if !in.Lenient {
			return unsup("file operators are exercised by C05/C08, not here")
		}
		return in.push(File{})
	}
	t["closefile"] = func(in *Interp) error {
		if !in.Lenient {
			return unsup("file operators are exercised by C05/C08, not here")
		}
		if err := in.need(1, "closefile"); err != nil {
			return err
		}
		if _, ok := in.top(0).(File); !ok {
			return psErr("closefile", "typecheck")
		}
		in.popN(1)
		return ErrCloseFile
	}
	t["readstring"] = func(in *Interp) error {
		if !in.Lenient || in.Src == nil {
			return unsup("file operators are exercised by C05/C08, not here")
		}
		if err := in.need(2, "readstring"); err != nil {
			return err
		}
		s, ok := in.top(0).(Str)
		if _, isF := in.top(1).(File); !ok || !isF {
			return psErr("readstring", "typecheck")
		}
		in.popN(2)
		// PLRM: the scanner has consumed exactly one white-space character
		// after the token that invoked readstring (done by the tokenizer)
		n := 0
		for n < s.N {
			b, err := in.Src.ReadByte()
			if err != nil {
				break
			}
			s.St.B[s.Off+n] = b
			n++
		}
		if err := in.push(Str{St: s.St, Off: s.Off, N: n}); err != nil {
			return err
		}
		return in.push(Bool(n == s.N))
	}
	t["eexec"] = func(in *Interp) error {
		if !in.Lenient || in.Src == nil {
			return unsup("eexec is exercised by C05/C08, not here")
		}
		if err := in.need(1, "eexec"); err != nil {
			return err
		}
		if _, isF := in.top(0).(File); !isF {
			return psErr("eexec", "typecheck")
		}
		in.popN(1)
		if err := in.Src.BeginEexec(); err != nil {
			return err
		}
		k := len(in.DStack)
		in.DStack = append(in.DStack, in.System)
		err := in.RunStream()
		in.Src.EndEexec()
		if err != nil && err != ErrCloseFile {
			return err
		}
		in.DStack = in.DStack[:k]
		return nil
	}
	return t
}

// RunStream executes tokens from in.Src until end of input or closefile.
func (in *Interp) RunStream() error {
	for {
		o, err := in.Src.NextObject(in)
		if err == errEOF {
			return nil
		}
		if err != nil {
			return err
		}
		if err := in.ExecTop(o); err != nil {
			return err
		}
	}
}

// RunBytes runs a whole byte stream in reader mode.
func (in *Interp) RunBytes(src *Scanner) error {
	in.Lenient = true
	in.Src = src
	err := in.RunStream()
	if err == ErrCloseFile {
		return nil
	}
	return in.topErr(err)
}

// flatSize counts the tokens of a procedure literal including nested ones
// (the number of operand-stack slots its collection may need).
func flatSize(p TProc) int {
	n := 1
	for _, t := range p {
		if q, ok := t.(TProc); ok {
			n += flatSize(q)
		} else {
			n++
		}
	}
	return n
}

// discardsPair reports whether a forall body starts with `pop pop`, i.e.
// throws the key/value pair away: such a body sees the same thing in every
// enumeration order (as long as it does not look at the dictionary itself).
func discardsPair(p Arr) bool {
	if p.N < 2 {
		return false
	}
	for i := 0; i < 2; i++ {
		n, ok := p.St.E[p.Off+i].(Name)
		if !ok || !n.Exec || n.S != "pop" {
			return false
		}
	}
	return true
}
