package ref

// R6: a model of CMap resource files (PLRM 5.11.4, Adobe Technical Note 5014)
// and a writer of the standard file form.

import (
	"bytes"
	"fmt"
	"math/rand/v2"
	"sort"
)

// MDst is a mapping destination.
type MDst struct {
	Kind string // "int", "str", "name", "arr"
	I    int64
	S    []byte
	Arr  [][]byte
}

// MEntry is one mapping entry (Hi is nil for single-code entries).
type MEntry struct {
	Lo, Hi []byte
	Dst    MDst
}

// MBlock is one begin.../end... block.
type MBlock struct {
	Kind    string // codespacerange cidchar cidrange bfchar bfrange notdefchar notdefrange
	Entries []MEntry
	// Declared is the count written before begin...; normally len(Entries)
	Declared int
}

// MCMap is a model CMap.
type MCMap struct {
	Name       string
	Registry   string
	Ordering   string
	Supplement int64
	CMapType   int64
	HasWMode   bool
	WMode      int64
	UseCMap    string
	Blocks     []MBlock
	NoBegin    bool // fault: begincmap missing
	// ResKey, if set, is the key used with defineresource (otherwise CMapName)
	ResKey string
	// OmitName leaves out the /CMapName entry (ResKey must be set)
	OmitName bool
	// NoDict leaves out `12 dict begin` ... `end`: the definitions land in the
	// dictionary that is current (the CIDInit procedure set in RenderFile)
	NoDict bool
}

var blockKinds = []string{"codespacerange", "cidchar", "cidrange", "bfchar", "bfrange", "notdefchar", "notdefrange"}

// IsRange reports whether a block kind has low/high bounds.
func IsRange(kind string) bool {
	return kind == "codespacerange" || kind == "cidrange" || kind == "bfrange" || kind == "notdefrange"
}

func randCode(rng *rand.Rand, n int) []byte {
	b := make([]byte, n)
	for i := range b {
		b[i] = byte(rng.IntN(256))
	}
	return b
}

func randCMapNameTok(rng *rand.Rand) string {
	// `#` is an ordinary name character in PostScript (PDF gives `#2d` a
	// meaning, PostScript does not), and so are the other regular characters here
	const al = "ABCDEFGHIJKLMNOPQRSTUVWXYZabcdefghijklmnopqrstuvwxyz0123456789-#2d0A_.+*!$&"
	n := 1 + rng.IntN(12)
	b := make([]byte, n)
	for i := range b {
		b[i] = al[rng.IntN(len(al))]
	}
	if rng.IntN(6) == 0 {
		b = append(b, []string{"#2d", "#20H", "#41#42", "#", "#2", "#zz", "#00"}[rng.IntN(7)]...)
	}
	if b[0] >= '0' && b[0] <= '9' || b[0] == '-' {
		b[0] = 'N'
	}
	return string(b)
}

// GenEntry draws one valid entry for a block kind.
func GenEntry(rng *rand.Rand, kind string) MEntry {
	n := 1 + rng.IntN(4)
	lo := randCode(rng, n)
	var e MEntry
	e.Lo = lo
	if IsRange(kind) {
		hi := append([]byte(nil), lo...)
		if kind == "codespacerange" {
			// byte-wise ranges: every byte of hi >= the corresponding byte of lo
			for i := range hi {
				hi[i] = lo[i] + byte(rng.IntN(256-int(lo[i])))
			}
		} else {
			// lexicographically lo <= hi
			switch rng.IntN(3) {
			case 0: // equal
			case 1:
				last := len(hi) - 1
				hi[last] = lo[last] + byte(rng.IntN(256-int(lo[last])))
			default:
				for {
					hi = randCode(rng, n)
					if bytes.Compare(lo, hi) <= 0 {
						break
					}
				}
			}
		}
		e.Hi = hi
	}
	switch kind {
	case "codespacerange":
	case "cidchar", "cidrange", "notdefchar", "notdefrange":
		e.Dst = MDst{Kind: "int", I: int64(rng.IntN(70000))}
		if rng.IntN(24) == 0 {
			// integers at the edges of the narrower number formats (a destination is returned as written)
			e.Dst.I = []int64{65535, 65536, 1<<31 - 1, 1 << 31, 1<<31 + 1, 1<<32 - 1, 1 << 32, 1 << 40, 1 << 53, 1<<62 + 12345, 1<<63 - 1}[rng.IntN(11)]
		}
	case "bfchar":
		if rng.IntN(4) == 0 {
			e.Dst = MDst{Kind: "name", S: []byte(randCMapNameTok(rng))}
		} else {
			e.Dst = MDst{Kind: "str", S: randCode(rng, 1+rng.IntN(8))}
		}
	case "bfrange":
		if rng.IntN(4) == 0 {
			k := 1 + rng.IntN(4)
			var arr [][]byte
			for i := 0; i < k; i++ {
				arr = append(arr, randCode(rng, 1+rng.IntN(6)))
			}
			e.Dst = MDst{Kind: "arr", Arr: arr}
		} else {
			e.Dst = MDst{Kind: "str", S: randCode(rng, 1+rng.IntN(8))}
		}
	}
	return e
}

// GenCMap draws a model CMap.
func GenCMap(rng *rand.Rand, name string) *MCMap {
	m := &MCMap{Name: name, Registry: []string{"Adobe", "Test", "A(b)c", ""}[rng.IntN(4)], Ordering: []string{"Japan1", "Identity", "UCS", "X\\Y"}[rng.IntN(4)],
		Supplement: int64(rng.IntN(8)), CMapType: int64(rng.IntN(3))}
	if rng.IntN(2) == 0 {
		m.HasWMode = true
		m.WMode = int64(rng.IntN(2))
	}
	if rng.IntN(4) == 0 {
		m.UseCMap = randCMapNameTok(rng)
	}
	nb := rng.IntN(13)
	if rng.IntN(10) == 0 {
		nb = 20 + rng.IntN(30)
	}
	for i := 0; i < nb; i++ {
		kind := blockKinds[rng.IntN(len(blockKinds))]
		if i > 0 && rng.IntN(3) == 0 {
			kind = m.Blocks[i-1].Kind // repeated kinds adjacent (buffer reuse)
		}
		ne := rng.IntN(8)
		switch rng.IntN(10) {
		case 0:
			ne = 100
		case 1:
			ne = 50 + rng.IntN(50)
		case 2:
			ne = 0
		}
		b := MBlock{Kind: kind}
		for j := 0; j < ne; j++ {
			b.Entries = append(b.Entries, GenEntry(rng, kind))
		}
		if kind != "codespacerange" && ne >= 2 && ne < 100 && rng.IntN(4) == 0 {
			// codes that differ only by trailing zero bytes (<41>, <4100>, <410000>),
			// the longer one first: byte-wise order puts the shorter one first
			k := 1 + rng.IntN(len(b.Entries)-1)
			short := b.Entries[k]
			if len(short.Lo) < 4 && (short.Hi == nil || len(short.Hi) == len(short.Lo)) {
				long := GenEntry(rng, kind)
				long.Lo = append(append([]byte(nil), short.Lo...), make([]byte, 1+rng.IntN(4-len(short.Lo)))...)
				if long.Hi != nil {
					long.Hi = append([]byte(nil), long.Lo...) // a range of one code
					if long.Dst.Kind == "arr" {
						long.Dst.Arr = long.Dst.Arr[:1]
					}
				}
				b.Entries = append(b.Entries[:k], append([]MEntry{long}, b.Entries[k:]...)...)
			}
		}
		b.Declared = len(b.Entries)
		m.Blocks = append(m.Blocks, b)
	}
	return m
}

func hexStr(b []byte, rng *rand.Rand) string {
	if rng != nil && rng.IntN(2) == 0 {
		return fmt.Sprintf("<%X>", b)
	}
	return fmt.Sprintf("<%x>", b)
}

func psString(b []byte) string {
	var sb bytes.Buffer
	sb.WriteByte('(')
	for _, c := range b {
		switch {
		case c == '(' || c == ')' || c == '\\':
			sb.WriteByte('\\')
			sb.WriteByte(c)
		case c < 32 || c > 126:
			fmt.Fprintf(&sb, "\\%03o", c)
		default:
			sb.WriteByte(c)
		}
	}
	sb.WriteByte(')')
	return sb.String()
}

func renderDst(d MDst, rng *rand.Rand) string {
	switch d.Kind {
	case "int":
		return fmt.Sprint(d.I)
	case "str":
		return hexStr(d.S, rng)
	case "name":
		return "/" + string(d.S)
	case "arr":
		s := "["
		for i, a := range d.Arr {
			if i > 0 {
				s += " "
			}
			s += hexStr(a, rng)
		}
		return s + "]"
	case "real":
		return "1.5"
	case "bool":
		return "true"
	case "dict":
		return "<< >>"
	case "proc":
		return "{ <0041> <0042> }"
	case "emptyproc":
		return "{ }"
	case "mark":
		return "mark"
	}
	return ""
}

// RenderBody writes one CMap definition (from `12 dict begin` to the
// defineresource line). ws chooses layout noise.
func (m *MCMap) RenderBody(rng *rand.Rand) string {
	var sb bytes.Buffer
	sep := func() string {
		switch rng.IntN(12) {
		case 8:
			return "\x00" // all six PostScript white-space characters separate tokens
		case 9:
			return "\f"
		case 10:
			return "\r"
		case 11:
			return " \x00\t\f "
		case 0:
			return "\n"
		case 1:
			return "  "
		case 2:
			// a comment ends at LF, CR or FF (PLRM 3.2.2): what follows a form feed is program text again
			return []string{" % comment\n", " % comment\f", "%\f", " % (unbalanced [ <\r", "%% not a structured comment: mid-line\f "}[rng.IntN(5)]
		case 3:
			return "\r\n"
		case 4:
			return "\t"
		}
		return " "
	}
	if !m.NoDict {
		sb.WriteString("12 dict begin\n")
	}
	if !m.NoBegin {
		sb.WriteString("begincmap\n")
	}
	fmt.Fprintf(&sb, "/CIDSystemInfo 3 dict dup begin%s/Registry %s def%s/Ordering %s def%s/Supplement %d def end def\n",
		sep(), psString([]byte(m.Registry)), sep(), psString([]byte(m.Ordering)), sep(), m.Supplement)
	if !m.OmitName {
		fmt.Fprintf(&sb, "/CMapName /%s def%s", m.Name, sep())
	}
	fmt.Fprintf(&sb, "/CMapType %d def\n", m.CMapType)
	if m.HasWMode {
		fmt.Fprintf(&sb, "/WMode %d def\n", m.WMode)
	}
	if m.UseCMap != "" {
		fmt.Fprintf(&sb, "/%s usecmap\n", m.UseCMap)
	}
	for _, b := range m.Blocks {
		fmt.Fprintf(&sb, "%d begin%s%s", b.Declared, b.Kind, sep())
		for _, e := range b.Entries {
			sb.WriteString(hexStr(e.Lo, rng))
			sb.WriteString(sep())
			if IsRange(b.Kind) {
				sb.WriteString(hexStr(e.Hi, rng))
				sb.WriteString(sep())
			}
			if b.Kind != "codespacerange" {
				sb.WriteString(renderDst(e.Dst, rng))
				sb.WriteString(sep())
			}
		}
		fmt.Fprintf(&sb, "end%s\n", b.Kind)
	}
	sb.WriteString("endcmap\n")
	end := "end\n"
	if m.NoDict {
		end = ""
	}
	if m.ResKey != "" {
		fmt.Fprintf(&sb, "/%s currentdict /CMap defineresource pop\n%s", m.ResKey, end)
	} else {
		sb.WriteString("CMapName currentdict /CMap defineresource pop\n" + end)
	}
	return sb.String()
}

// RenderFile writes a complete CMap resource file with one or more CMaps.
func RenderFile(rng *rand.Rand, maps []*MCMap) []byte {
	var sb bytes.Buffer
	sb.WriteString("%!PS-Adobe-3.0 Resource-CMap\n%%DocumentNeededResources: ProcSet (CIDInit)\n%%IncludeResource: ProcSet (CIDInit)\n")
	fmt.Fprintf(&sb, "%%%%BeginResource: CMap (%s)\n%%%%Version: 1.000\n%%%%EndComments\n", maps[0].Name)
	sb.WriteString("/CIDInit /ProcSet findresource begin\n")
	for _, m := range maps {
		sb.WriteString(m.RenderBody(rng))
	}
	sb.WriteString("end\n%%EndResource\n%%EOF\n")
	return sb.Bytes()
}

// Expected tables ------------------------------------------------------

// Collect returns all entries of the given kind in file order.
func (m *MCMap) Collect(kind string) []MEntry {
	var out []MEntry
	for _, b := range m.Blocks {
		if b.Kind == kind {
			out = append(out, b.Entries...)
		}
	}
	return out
}

// SortedByLo orders entries by source code (lexicographic).
func SortedByLo(e []MEntry) []MEntry {
	out := append([]MEntry(nil), e...)
	sort.SliceStable(out, func(i, j int) bool { return bytes.Compare(out[i].Lo, out[j].Lo) < 0 })
	return out
}
