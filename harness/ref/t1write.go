package ref

// R3: a model font and an independent Type 1 writer with the layout choices
// of property C06's quantifier: container (PFA with any hex layout, binary
// eexec, PFB with any segment split, unencrypted), lenIV, RD/ND/NP or
// -| |- |, StandardEncoding or explicit array, general or h/v-specialised
// path commands, shortest or 5-byte numbers, rationals as `p q div`,
// subroutine factoring, flex, hint replacement, dotsection, seac,
// access decorations, Adobe-style OtherSubrs code, creation-date layouts.
//
// Written from the Adobe Type 1 Font Format; does not import the library.

import (
	"bytes"
	"fmt"
	"math/rand/v2"
	"sort"
	"strings"
)

// WGlyph is a glyph of the model font. Coordinates are K/Den.
type WGlyph struct {
	Name       string
	Den        int64 // all coordinates, side bearings are multiples of 1/Den
	SBX, SBY   int64 // numerators
	WX, WY     int64 // numerators
	UseSBW     bool
	Cmds       []WCmd     // absolute coordinates (numerators)
	HStem      [][2]int64 // (low edge, high edge), integers, absolute
	VStem      [][2]int64
	Stem3H     bool // write the three HStem entries with hstem3
	Stem3V     bool
	HintRepl   bool // replace hints half-way (stems then not compared)
	DotSection bool
	Seac       *WSeac
	// Raw, if non-nil, is used as the plain charstring as it is (hostile inputs)
	Raw []byte
	// SameAs names an earlier glyph whose charstring bytes are used for this
	// glyph as they are (a second name for the same outline: `A` and `A.alt`)
	SameAs string
}

// WCmd is a path command: 'M', 'L', 'C', 'Z' with numerators.
type WCmd struct {
	Op   byte
	Args []int64
	Flex bool // on a 'C': this curve and the next one are written as a flex
}

// WSeac describes an accented composite.
type WSeac struct {
	Base, Accent string
	BChar, AChar int
	ADX, ADY     int64 // integers
}

// WFont is the model font.
type WFont struct {
	FontName     string
	OmitFontName bool
	Info         map[string]string // version Notice Copyright FullName FamilyName Weight
	ItalicAngle  string            // spelled number ("" = absent)
	IsFixedPitch *bool
	UnderlinePos string
	UnderlineThk string
	FontMatrix   []string // six spelled numbers, nil = absent
	Encoding     []string // 256 names; nil with StdEncoding=true means StandardEncoding
	StdEncoding  bool
	Private      map[string]string // key -> PostScript text of the value (BlueValues, BlueScale, ...)
	Glyphs       []*WGlyph
	DateLine     string // text after "%%CreationDate: " ("" = none)
	Version001   string
}

// WLayout holds the rendering choices.
type WLayout struct {
	Container string // "pfa", "bin", "pfb", "plain"
	LenIV     int
	Dash      bool // -| |- | instead of RD ND NP
	Decorate  bool // readonly / noaccess / executeonly decorations
	OtherSubr bool // Adobe-style OtherSubrs code in Private
	Flex      bool // the font uses flex (reserves Subrs 0-3)
	HintRepl  bool
	Factor    int      // amount of subroutine factoring 0..3
	FiveByte  int      // percent of integers written in the 5-byte form
	General   int      // percent of segments written with the general command although a special one fits
	Subrs     [][]byte // plain subroutines (filled while encoding)
	Desc      string
	// hostile-input switches (C01): literal text of the lenIV entry, raw
	// subroutines used as they are, charstrings cut shorter than lenIV
	LenIVText string
	RawSubrs  [][]byte
	// SparseSubrs: the Subrs array starts with unused (null) slots
	SparseSubrs bool
	CutShort    bool
	// LineEnd is the line end of the clear-text part ("" = LF; CR and CR LF are as good)
	LineEnd string
	// DeepChains counts the charstrings wrapped into a call chain 10 deep (filled while encoding)
	DeepChains int
}

// ---------------------------------------------------------------- charstring encoding

type csGroup struct {
	bytes []byte
	op    string
}

type csEnc struct {
	rng     *rand.Rand
	lay     *WLayout
	groups  []csGroup
	cur     []byte
	depthOf map[int]int // subr index -> call depth it needs
}

func (e *csEnc) int(v int64) {
	five := e.rng.IntN(100) < e.lay.FiveByte
	switch {
	case v >= -107 && v <= 107 && !five:
		e.cur = append(e.cur, byte(v+139))
	case v >= 108 && v <= 1131 && !five:
		w := v - 108
		e.cur = append(e.cur, byte(w/256+247), byte(w%256))
	case v >= -1131 && v <= -108 && !five:
		w := -v - 108
		e.cur = append(e.cur, byte(w/256+251), byte(w%256))
	default:
		u := uint32(int32(v))
		e.cur = append(e.cur, 255, byte(u>>24), byte(u>>16), byte(u>>8), byte(u))
	}
}

// num writes the rational n/den.
func (e *csEnc) num(n, den int64) {
	if den < 0 {
		n, den = -n, -den
	}
	if n%den == 0 {
		e.int(n / den)
		return
	}
	g := gcd(abs64(n), den)
	if e.rng.IntN(2) == 0 {
		n, den = n/g, den/g
	}
	e.int(n)
	e.int(den)
	e.cur = append(e.cur, 12, 12) // div
}

func abs64(a int64) int64 {
	if a < 0 {
		return -a
	}
	return a
}

func gcd(a, b int64) int64 {
	for b != 0 {
		a, b = b, a%b
	}
	if a == 0 {
		return 1
	}
	return a
}

var csOpCodes = map[string][]byte{
	"hstem": {1}, "vstem": {3}, "vmoveto": {4}, "rlineto": {5}, "hlineto": {6}, "vlineto": {7}, "rrcurveto": {8}, "closepath": {9}, "callsubr": {10},
	"return": {11}, "hsbw": {13}, "endchar": {14}, "rmoveto": {21}, "hmoveto": {22}, "vhcurveto": {30}, "hvcurveto": {31},
	"dotsection": {12, 0}, "vstem3": {12, 1}, "hstem3": {12, 2}, "seac": {12, 6}, "sbw": {12, 7}, "div": {12, 12}, "callothersubr": {12, 16}, "pop": {12, 17},
	"setcurrentpoint": {12, 33},
}

func (e *csEnc) op(name string) {
	e.cur = append(e.cur, csOpCodes[name]...)
	e.groups = append(e.groups, csGroup{bytes: e.cur, op: name})
	e.cur = nil
}

func (e *csEnc) addSubr(body []byte, depth int) int {
	if body == nil {
		body = []byte{} // nil marks an unused slot
	}
	e.lay.Subrs = append(e.lay.Subrs, body)
	idx := len(e.lay.Subrs) - 1
	e.depthOf[idx] = depth
	return idx
}

// EncodeGlyph produces the plain charstring of g. Subroutines are appended
// to lay.Subrs.
func EncodeGlyph(rng *rand.Rand, g *WGlyph, lay *WLayout) []byte {
	if g.Raw != nil {
		return g.Raw
	}
	e := &csEnc{rng: rng, lay: lay, depthOf: map[int]int{}}
	den := g.Den
	if den == 0 {
		den = 1
	}
	if g.UseSBW || g.SBY != 0 || g.WY != 0 {
		e.num(g.SBX, den)
		e.num(g.SBY, den)
		e.num(g.WX, den)
		e.num(g.WY, den)
		e.op("sbw")
	} else {
		e.num(g.SBX, den)
		e.num(g.WX, den)
		e.op("hsbw")
	}
	if g.Seac != nil {
		e.num(g.SBX, den) // asb = the composite's own side bearing (DESIGN.md 10.1)
		e.int(g.Seac.ADX)
		e.int(g.Seac.ADY)
		e.int(int64(g.Seac.BChar))
		e.int(int64(g.Seac.AChar))
		e.op("seac")
		return e.assemble(0)
	}
	stems := func(list [][2]int64, sb int64, three bool, op, op3 string) {
		if three && len(list) == 3 {
			for _, s := range list {
				e.num(s[0]*den-sb, den)
				e.int(s[1] - s[0])
			}
			e.op(op3)
			return
		}
		for _, s := range list {
			e.num(s[0]*den-sb, den)
			e.int(s[1] - s[0])
			e.op(op)
		}
	}
	stems(g.HStem, g.SBY, g.Stem3H, "hstem", "hstem3")
	stems(g.VStem, g.SBX, g.Stem3V, "vstem", "vstem3")
	x, y := g.SBX, g.SBY
	replAt := -1
	if g.HintRepl && len(g.Cmds) > 1 {
		replAt = 1 + rng.IntN(len(g.Cmds)-1)
	}
	general := func() bool { return rng.IntN(100) < lay.General }
	for i := 0; i < len(g.Cmds); i++ {
		c := g.Cmds[i]
		if i == replAt {
			// hint replacement: a subroutine with the new hints, called through Subr 4
			sub := &csEnc{rng: rng, lay: lay, depthOf: e.depthOf}
			sub.num(10*den-g.SBY, den)
			sub.int(20)
			sub.op("hstem")
			sub.num(30*den-g.SBX, den)
			sub.int(40)
			sub.op("vstem")
			body := sub.flat()
			body = append(body, 11)
			k := e.addSubr(body, 1)
			e.int(int64(k))
			e.int(4)
			e.op("callsubr")
		}
		switch c.Op {
		case 'M':
			dx, dy := c.Args[0]-x, c.Args[1]-y
			switch {
			case dy == 0 && !general():
				e.num(dx, den)
				e.op("hmoveto")
			case dx == 0 && !general():
				e.num(dy, den)
				e.op("vmoveto")
			default:
				e.num(dx, den)
				e.num(dy, den)
				e.op("rmoveto")
			}
			x, y = c.Args[0], c.Args[1]
		case 'L':
			dx, dy := c.Args[0]-x, c.Args[1]-y
			switch {
			case dy == 0 && !general():
				e.num(dx, den)
				e.op("hlineto")
			case dx == 0 && !general():
				e.num(dy, den)
				e.op("vlineto")
			default:
				e.num(dx, den)
				e.num(dy, den)
				e.op("rlineto")
			}
			x, y = c.Args[0], c.Args[1]
		case 'C':
			if c.Flex && i+1 < len(g.Cmds) && g.Cmds[i+1].Op == 'C' {
				c2 := g.Cmds[i+1]
				e.int(1)
				e.op("callsubr")
				pts := [][2]int64{
					{c.Args[4], y}, // reference point
					{c.Args[0], c.Args[1]}, {c.Args[2], c.Args[3]}, {c.Args[4], c.Args[5]},
					{c2.Args[0], c2.Args[1]}, {c2.Args[2], c2.Args[3]}, {c2.Args[4], c2.Args[5]},
				}
				if rng.IntN(2) == 0 {
					pts[0] = [2]int64{x, c.Args[5]}
				}
				px, py := x, y
				for _, p := range pts {
					e.num(p[0]-px, den)
					e.num(p[1]-py, den)
					e.op("rmoveto")
					e.int(2)
					e.op("callsubr")
					px, py = p[0], p[1]
				}
				e.int(50)
				e.num(c2.Args[4], den)
				e.num(c2.Args[5], den)
				e.int(0)
				e.op("callsubr")
				x, y = c2.Args[4], c2.Args[5]
				i++
				continue
			}
			d := []int64{c.Args[0] - x, c.Args[1] - y, c.Args[2] - c.Args[0], c.Args[3] - c.Args[1], c.Args[4] - c.Args[2], c.Args[5] - c.Args[3]}
			switch {
			case d[1] == 0 && d[4] == 0 && !general():
				e.num(d[0], den)
				e.num(d[2], den)
				e.num(d[3], den)
				e.num(d[5], den)
				e.op("hvcurveto")
			case d[0] == 0 && d[5] == 0 && !general():
				e.num(d[1], den)
				e.num(d[2], den)
				e.num(d[3], den)
				e.num(d[4], den)
				e.op("vhcurveto")
			default:
				for _, v := range d {
					e.num(v, den)
				}
				e.op("rrcurveto")
			}
			x, y = c.Args[4], c.Args[5]
		case 'Z':
			e.op("closepath")
			if g.DotSection && rng.IntN(3) == 0 {
				e.op("dotsection")
			}
		}
	}
	e.op("endchar")
	return e.assemble(lay.Factor)
}

func (e *csEnc) flat() []byte {
	var out []byte
	for _, g := range e.groups {
		out = append(out, g.bytes...)
	}
	return out
}

// assemble joins the groups, moving random runs into subroutines.
func (e *csEnc) assemble(factor int) []byte {
	type piece struct {
		bytes []byte
		depth int // call depth this piece needs below it
	}
	pieces := make([]piece, len(e.groups))
	for i, g := range e.groups {
		d := 0
		if g.op == "callsubr" {
			d = 2 // flex and hint-replacement subrs call at most one further level
		}
		pieces[i] = piece{g.bytes, d}
	}
	if factor > 0 && len(pieces) > 0 {
		rounds := e.rng.IntN(factor*2 + 1)
		for r := 0; r < rounds && len(pieces) > 0; r++ {
			i := e.rng.IntN(len(pieces))
			j := i + 1 + e.rng.IntN(len(pieces)-i)
			if e.rng.IntN(6) == 0 {
				i, j = 0, len(pieces) // the whole charstring
			}
			var body []byte
			depth := 0
			for _, p := range pieces[i:j] {
				body = append(body, p.bytes...)
				if p.depth > depth {
					depth = p.depth
				}
			}
			if depth+1 > 10 {
				continue
			}
			endsChar := len(body) > 0 && body[len(body)-1] == 14 && j == len(pieces)
			if !endsChar || e.rng.IntN(2) == 0 {
				body = append(body, 11) // return
			}
			k := e.addSubr(body, depth+1)
			var call []byte
			enc := &csEnc{rng: e.rng, lay: e.lay}
			enc.int(int64(k))
			call = append(enc.cur, 10)
			np := append([]piece(nil), pieces[:i]...)
			np = append(np, piece{call, depth + 1})
			np = append(np, pieces[j:]...)
			pieces = np
		}
	}
	if factor > 0 && len(pieces) > 0 && e.rng.IntN(10) == 0 {
		// a chain of calls down to the documented nesting limit: "Subrs calls
		// may be nested 10 deep" (Type 1 book, section 6.4)
		depth := 0
		var body []byte
		for _, p := range pieces {
			body = append(body, p.bytes...)
			if p.depth > depth {
				depth = p.depth
			}
		}
		for depth < 10 {
			if !(len(body) > 0 && body[len(body)-1] == 14) || e.rng.IntN(2) == 0 {
				body = append(body, 11) // return
			}
			k := e.addSubr(body, depth+1)
			enc := &csEnc{rng: e.rng, lay: e.lay}
			enc.int(int64(k))
			body = append(enc.cur, 10)
			depth++
		}
		e.lay.DeepChains++
		pieces = []piece{{body, depth}}
	}
	var out []byte
	for _, p := range pieces {
		out = append(out, p.bytes...)
	}
	return out
}

// ---------------------------------------------------------------- font file

func psStr(s string) string { return psString([]byte(s)) }

// StandardFlexSubrs returns Subrs 0-3 (flex and the hint-replacement no-op)
// and Subr 4 (hint replacement) as plain charstrings.
func StandardFlexSubrs() [][]byte {
	enc := func(tokens ...interface{}) []byte {
		var out []byte
		for _, t := range tokens {
			switch t := t.(type) {
			case int:
				out = append(out, byte(t+139))
			case string:
				out = append(out, csOpCodes[t]...)
			}
		}
		return out
	}
	return [][]byte{
		enc(3, 0, "callothersubr", "pop", "pop", "setcurrentpoint", "return"),
		enc(0, 1, "callothersubr", "return"),
		enc(0, 2, "callothersubr", "return"),
		enc("return"),
		enc(1, 3, "callothersubr", "pop", "callsubr", "return"),
	}
}

const adobeOtherSubrs = `/OtherSubrs
[ {systemdict /internaldict known not {pop 3} {1183615869 systemdict /internaldict get exec
dup /startlock known {/startlock get exec} {dup /strtlck known {/strtlck get exec} {pop 3} ifelse} ifelse} ifelse} executeonly
{} {} {3 -1 roll pop} % comment inside the never-executed code ( ) < >
{systemdict /internaldict known {1183615869 systemdict /internaldict get exec /hires known dup {pop} if} {false} ifelse} executeonly
] ND
`

// RenderType1 writes the font. It returns the file bytes.
func RenderType1(rng *rand.Rand, f *WFont, lay *WLayout) []byte {
	rd, nd, np := "RD", "ND", "NP"
	if lay.Dash {
		rd, nd, np = "-|", "|-", "|"
	}
	ro, na, xo := "", "", ""
	if lay.Decorate {
		ro, na, xo = " readonly", " noaccess", " executeonly"
	}
	lay.Subrs = nil
	if lay.RawSubrs != nil {
		lay.Subrs = append(lay.Subrs, lay.RawSubrs...)
	} else if lay.Flex || lay.HintRepl {
		lay.Subrs = StandardFlexSubrs()
	} else if rng.IntN(3) == 0 {
		// no flex, no hint replacement: the first Subrs entries are free for
		// general use, but keep the customary no-op at index 3 half of the time
		if rng.IntN(2) == 0 {
			lay.Subrs = StandardFlexSubrs()[:4]
		}
	} else if rng.IntN(3) == 0 {
		// the customary slots are reserved but left empty (null entries in
		// the array): general subroutines start behind the gap
		lay.Subrs = make([][]byte, 1+rng.IntN(4))
		lay.SparseSubrs = true
	}
	// encode glyphs first (fills lay.Subrs)
	names := make([]string, 0, len(f.Glyphs))
	cs := map[string][]byte{}
	for _, g := range f.Glyphs {
		names = append(names, g.Name)
		if b, ok := cs[g.SameAs]; ok && g.SameAs != "" {
			cs[g.Name] = b
			continue
		}
		cs[g.Name] = EncodeGlyph(rng, g, lay)
	}
	if rng.IntN(2) == 0 {
		sort.Strings(names)
	} else {
		rng.Shuffle(len(names), func(i, j int) { names[i], names[j] = names[j], names[i] })
	}
	obf := func(plain []byte) []byte {
		lead := make([]byte, lay.LenIV)
		for i := range lead {
			lead[i] = byte(rng.IntN(256))
		}
		c := Encrypt(append(lead, plain...), CharstringKey, nil)
		if lay.CutShort && len(c) > 0 && rng.IntN(3) == 0 {
			c = c[:rng.IntN(len(c))]
		}
		return c
	}

	var clear bytes.Buffer
	ver := f.Version001
	if ver == "" {
		ver = "001.001"
	}
	fmt.Fprintf(&clear, "%%!PS-AdobeFont-1.0: %s %s\n", f.FontName, ver)
	if f.DateLine != "" {
		fmt.Fprintf(&clear, "%%%%CreationDate: %s\n", f.DateLine)
	}
	clear.WriteString("%%VMusage: 30000 40000\n% ordinary comment\n")
	clear.WriteString("11 dict begin\n/FontInfo 10 dict dup begin\n")
	for _, k := range []string{"version", "Notice", "Copyright", "FullName", "FamilyName", "Weight"} {
		if v, ok := f.Info[k]; ok {
			fmt.Fprintf(&clear, "/%s %s%s def\n", k, psStr(v), ro)
		}
	}
	if f.ItalicAngle != "" {
		fmt.Fprintf(&clear, "/ItalicAngle %s def\n", f.ItalicAngle)
	}
	if f.IsFixedPitch != nil {
		fmt.Fprintf(&clear, "/isFixedPitch %v def\n", *f.IsFixedPitch)
	}
	if f.UnderlinePos != "" {
		fmt.Fprintf(&clear, "/UnderlinePosition %s def\n", f.UnderlinePos)
	}
	if f.UnderlineThk != "" {
		fmt.Fprintf(&clear, "/UnderlineThickness %s def\n", f.UnderlineThk)
	}
	fmt.Fprintf(&clear, "end%s def\n", ro)
	if !f.OmitFontName {
		fmt.Fprintf(&clear, "/FontName /%s def\n", f.FontName)
	}
	if f.StdEncoding {
		clear.WriteString("/Encoding StandardEncoding def\n")
	} else if f.Encoding != nil {
		clear.WriteString("/Encoding 256 array\n0 1 255 {1 index exch /.notdef put} for\n")
		for i, n := range f.Encoding {
			if n != ".notdef" {
				fmt.Fprintf(&clear, "dup %d /%s put\n", i, n)
			}
		}
		fmt.Fprintf(&clear, "%s def\n", strings.TrimSpace(ro))
		if ro == "" {
			// "def" needs the key/value pair only
		}
	}
	clear.WriteString("/PaintType 0 def\n/FontType 1 def\n")
	if f.FontMatrix != nil {
		fmt.Fprintf(&clear, "/FontMatrix [%s]%s def\n", strings.Join(f.FontMatrix, " "), ro)
	}
	clear.WriteString("/FontBBox {-100 -250 1100 900}" + ro + " def\n/UniqueID 5000000 def\ncurrentdict end\n")

	var priv bytes.Buffer
	fmt.Fprintf(&priv, "dup /Private 17 dict dup begin\n")
	fmt.Fprintf(&priv, "/%s {string currentfile exch readstring pop}%s def\n", rd, xo)
	fmt.Fprintf(&priv, "/%s {%s def}%s def\n", nd, strings.TrimSpace(na), xo)
	fmt.Fprintf(&priv, "/%s {%s put}%s def\n", np, strings.TrimSpace(na), xo)
	pk := make([]string, 0, len(f.Private))
	for k := range f.Private {
		pk = append(pk, k)
	}
	sort.Strings(pk)
	if rng.IntN(2) == 0 {
		rng.Shuffle(len(pk), func(i, j int) { pk[i], pk[j] = pk[j], pk[i] })
	}
	for _, k := range pk {
		fmt.Fprintf(&priv, "/%s %s def\n", k, f.Private[k])
	}
	priv.WriteString("/MinFeature {16 16} " + nd + "\n/password 5839 def\n")
	if lay.LenIVText != "" {
		fmt.Fprintf(&priv, "/lenIV %s def\n", lay.LenIVText)
	} else if lay.LenIV != 4 || rng.IntN(4) == 0 {
		fmt.Fprintf(&priv, "/lenIV %d def\n", lay.LenIV)
	}
	if lay.OtherSubr || lay.Flex || lay.HintRepl {
		priv.WriteString(strings.Replace(adobeOtherSubrs, "ND", nd, 1))
	}
	if len(lay.Subrs) > 0 || rng.IntN(2) == 0 {
		fmt.Fprintf(&priv, "/Subrs %d array\n", len(lay.Subrs))
		for i, s := range lay.Subrs {
			if s == nil {
				continue // an unused slot: stays null
			}
			o := obf(s)
			fmt.Fprintf(&priv, "dup %d %d %s ", i, len(o), rd)
			priv.Write(o)
			fmt.Fprintf(&priv, " %s\n", np)
		}
		priv.WriteString(nd + "\n")
	}
	fmt.Fprintf(&priv, "2 index /CharStrings %d dict dup begin\n", len(names))
	for _, n := range names {
		o := obf(cs[n])
		fmt.Fprintf(&priv, "/%s %d %s ", n, len(o), rd)
		priv.Write(o)
		fmt.Fprintf(&priv, " %s\n", nd)
	}
	priv.WriteString("end\nend\n")
	if lay.Decorate {
		priv.WriteString("readonly put\nnoaccess put\n")
	} else {
		priv.WriteString("put\nput\n")
	}
	priv.WriteString("dup /FontName get exch definefont pop\n")
	if f.OmitFontName {
		// without /FontName the font must be registered under an explicit key
		b := priv.Bytes()
		b = bytes.Replace(b, []byte("dup /FontName get exch definefont pop\n"), []byte("/"+f.FontName+" exch definefont pop\n"), 1)
		priv.Reset()
		priv.Write(b)
	}

	trailer := strings.Repeat(strings.Repeat("0", 64)+"\n", 8) + "cleartomark\n"
	if lay.LineEnd != "" && lay.LineEnd != "\n" {
		cb := bytes.ReplaceAll(clear.Bytes(), []byte("\n"), []byte(lay.LineEnd))
		clear.Reset()
		clear.Write(cb)
	}
	var out bytes.Buffer
	switch lay.Container {
	case "plain":
		out.Write(clear.Bytes())
		out.Write(priv.Bytes())
		return out.Bytes()
	}
	clear.WriteString("currentfile eexec" + []string{"\n", "\r", "\r\n", " "}[rng.IntN(4)])
	priv.WriteString("mark currentfile closefile\n")
	var cipher []byte
	edgeStart := lay.Container != "pfa" && rng.IntN(4) == 0
	for {
		lead := []byte{byte(rng.IntN(256)), byte(rng.IntN(256)), byte(rng.IntN(256)), byte(rng.IntN(256))}
		if edgeStart {
			// random bytes whose ciphertext looks as much like hexadecimal text as
			// the book allows: digits and white space, with one byte deciding
			const al = "0123456789abcdefABCDEF0123456789abcdef \t\r\n \n"
			target := make([]byte, 4)
			for i := range target {
				target[i] = al[rng.IntN(len(al))]
			}
			if rng.IntN(3) == 0 {
				target[rng.IntN(4)] = []byte{'g', 'G', '/', ':', '@', '`', 0, 0x80, 0xff, 'x'}[rng.IntN(10)]
			}
			lead = Decrypt(target, EexecKey)
		}
		cipher = Encrypt(append(lead, priv.Bytes()...), EexecKey, nil)
		if lay.Container == "pfa" || LegalBinaryStart(cipher) {
			break
		}
	}
	switch lay.Container {
	case "pfa":
		out.Write(clear.Bytes())
		out.Write(hexLayout(rng, cipher))
		out.WriteString("\n" + trailer)
	case "bin":
		out.Write(clear.Bytes())
		out.Write(cipher)
		out.WriteString("\n" + trailer)
	case "pfb":
		seg := func(typ byte, data []byte) {
			// split into any number of consecutive segments of the same type
			for len(data) > 0 || typ == 0 {
				n := len(data)
				if n > 1 && rng.IntN(3) == 0 {
					n = 1 + rng.IntN(n)
				}
				out.Write([]byte{0x80, typ, byte(n), byte(n >> 8), byte(n >> 16), byte(n >> 24)})
				out.Write(data[:n])
				data = data[n:]
				if len(data) == 0 {
					break
				}
			}
		}
		seg(1, clear.Bytes())
		seg(2, cipher)
		seg(1, []byte(trailer))
		out.Write([]byte{0x80, 3})
	}
	return out.Bytes()
}

func hexLayout(rng *rand.Rand, cipher []byte) []byte {
	var out bytes.Buffer
	mode := rng.IntN(3)
	width := 1 + rng.IntN(120)
	col, n := 0, 0
	for _, c := range cipher {
		for _, d := range []byte{c >> 4, c & 15} {
			ch := "0123456789abcdef"[d]
			if mode == 1 || (mode == 2 && rng.IntN(2) == 0) {
				ch = "0123456789ABCDEF"[d]
			}
			out.WriteByte(ch)
			n++
			col++
			if n >= 4 {
				if col >= width {
					out.WriteString([]string{"\n", "\r", "\r\n"}[rng.IntN(3)])
					col = 0
				} else if rng.IntN(40) == 0 {
					out.WriteByte(" \t"[rng.IntN(2)])
				}
			}
		}
	}
	return out.Bytes()
}
