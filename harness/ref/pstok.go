package ref

// R0: a PostScript tokenizer written from PLRM section 3.2, over a byte
// source that can switch to eexec decryption (Adobe Type 1 Font Format,
// chapter 7). Used by the independent Type 1 reader R4.

import (
	"errors"
	"math"
	"strconv"
)

var errEOF = errors.New("end of input")

// Scanner reads objects from a byte string.
type Scanner struct {
	data []byte
	pos  int
	// one byte of pushback at the decoded level
	hasBack bool
	back    byte

	eexec int // 0 off, 1 hex, 2 binary
	r     uint16
	// EexecStart/EexecEnd record the raw offsets of the ciphertext
	EexecStart, EexecEnd int
	EexecBinary          bool
	Lead                 [4]byte // the four discarded plaintext bytes
}

// NewScanner returns a scanner over data.
func NewScanner(data []byte) *Scanner { return &Scanner{data: data, EexecStart: -1, EexecEnd: -1} }

// Pos returns the raw read position.
func (s *Scanner) Pos() int { return s.pos }

func isWS(b byte) bool {
	return b == 0 || b == 9 || b == 10 || b == 12 || b == 13 || b == 32
}

func isDelim(b byte) bool {
	switch b {
	case '(', ')', '<', '>', '[', ']', '{', '}', '/', '%':
		return true
	}
	return false
}

func hexVal(b byte) int {
	switch {
	case b >= '0' && b <= '9':
		return int(b - '0')
	case b >= 'a' && b <= 'f':
		return int(b-'a') + 10
	case b >= 'A' && b <= 'F':
		return int(b-'A') + 10
	}
	return -1
}

func (s *Scanner) rawByte() (byte, error) {
	if s.pos >= len(s.data) {
		return 0, errEOF
	}
	b := s.data[s.pos]
	s.pos++
	return b, nil
}

func (s *Scanner) cipherByte() (byte, error) {
	if s.eexec == 2 {
		return s.rawByte()
	}
	var v, n int
	for n < 2 {
		b, err := s.rawByte()
		if err != nil {
			return 0, err
		}
		if b == ' ' || b == '\t' || b == '\r' || b == '\n' {
			continue
		}
		h := hexVal(b)
		if h < 0 {
			return 0, &PSErr{Names: []string{"ioerror", "syntaxerror"}, Where: "non-hex byte in eexec section"}
		}
		v = v<<4 | h
		n++
	}
	return byte(v), nil
}

// ReadByte returns the next decoded byte.
func (s *Scanner) ReadByte() (byte, error) {
	if s.hasBack {
		s.hasBack = false
		return s.back, nil
	}
	if s.eexec == 0 {
		return s.rawByte()
	}
	c, err := s.cipherByte()
	if err != nil {
		return 0, err
	}
	p := c ^ byte(s.r>>8)
	s.r = (uint16(c)+s.r)*52845 + 22719
	return p, nil
}

func (s *Scanner) unread(b byte) { s.hasBack = true; s.back = b }

// BeginEexec switches to decryption (Type 1 Font Format 7.2).
func (s *Scanner) BeginEexec() error {
	if s.eexec != 0 {
		return &PSErr{Names: []string{"invalidaccess", "ioerror"}, Where: "nested eexec"}
	}
	// the token scanner may hold back one byte (the delimiter after `eexec`)
	if s.hasBack {
		s.hasBack = false
		s.pos--
	}
	for s.pos < len(s.data) && (s.data[s.pos] == ' ' || s.data[s.pos] == '\t' || s.data[s.pos] == '\r' || s.data[s.pos] == '\n') {
		s.pos++
	}
	if s.pos+4 > len(s.data) {
		return &PSErr{Names: []string{"ioerror", "syntaxerror"}, Where: "eexec section shorter than four bytes"}
	}
	hex := true
	for _, b := range s.data[s.pos : s.pos+4] {
		if hexVal(b) < 0 {
			hex = false
		}
	}
	s.EexecStart = s.pos
	if hex {
		s.eexec = 1
	} else {
		s.eexec = 2
		s.EexecBinary = true
	}
	s.r = 55665
	for i := 0; i < 4; i++ {
		b, err := s.ReadByte()
		if err != nil {
			return &PSErr{Names: []string{"ioerror", "syntaxerror"}, Where: "eexec section too short"}
		}
		s.Lead[i] = b
	}
	return nil
}

// EndEexec switches back to clear text.
func (s *Scanner) EndEexec() {
	if s.eexec != 0 {
		s.EexecEnd = s.pos
	}
	s.eexec = 0
	s.hasBack = false
}

func (s *Scanner) skipWS() error {
	for {
		b, err := s.ReadByte()
		if err != nil {
			return err
		}
		if isWS(b) {
			continue
		}
		if b == '%' {
			for {
				c, err := s.ReadByte()
				if err != nil {
					return err
				}
				if c == '\n' || c == '\r' || c == '\f' {
					break
				}
			}
			continue
		}
		s.unread(b)
		return nil
	}
}

func syntaxErr(where string) error { return &PSErr{Names: []string{"syntaxerror"}, Where: where} }

// NextObject scans the next token and instantiates it.
func (s *Scanner) NextObject(in *Interp) (Obj, error) {
	if err := s.skipWS(); err != nil {
		return nil, err
	}
	b, _ := s.ReadByte()
	switch b {
	case '(':
		return s.parenString(in)
	case '<':
		c, err := s.ReadByte()
		if err != nil {
			return nil, syntaxErr("unterminated <")
		}
		if c == '<' {
			return Name{S: "<<", Exec: true}, nil
		}
		if c == '~' {
			return s.a85String(in)
		}
		s.unread(c)
		return s.hexString(in)
	case '>':
		c, err := s.ReadByte()
		if err != nil || c != '>' {
			return nil, syntaxErr("unexpected >")
		}
		return Name{S: ">>", Exec: true}, nil
	case '[', ']':
		return Name{S: string([]byte{b}), Exec: true}, nil
	case '{':
		var elems []Obj
		for {
			if err := s.skipWS(); err != nil {
				return nil, syntaxErr("unterminated {")
			}
			c, _ := s.ReadByte()
			if c == '}' {
				return in.NewArr(elems, true), nil
			}
			s.unread(c)
			o, err := s.NextObject(in)
			if err != nil {
				if err == errEOF {
					return nil, syntaxErr("unterminated {")
				}
				return nil, err
			}
			elems = append(elems, o)
		}
	case '}':
		return nil, syntaxErr("unmatched }")
	case ')':
		return nil, syntaxErr("unmatched )")
	case '/':
		name := s.regularRun(nil)
		return Name{S: string(name)}, nil
	}
	tok := s.regularRun([]byte{b})
	if o, ok := ParseNumber(tok); ok {
		return o, nil
	}
	return Name{S: string(tok), Exec: true}, nil
}

// regularRun reads regular characters; a terminating white-space character
// is consumed (CR LF counts as one), any other delimiter is left.
func (s *Scanner) regularRun(pre []byte) []byte {
	out := pre
	for {
		b, err := s.ReadByte()
		if err != nil {
			return out
		}
		if isWS(b) {
			if b == '\r' {
				c, err := s.ReadByte()
				if err == nil && c != '\n' {
					s.unread(c)
				}
			}
			return out
		}
		if isDelim(b) {
			s.unread(b)
			return out
		}
		out = append(out, b)
	}
}

func (s *Scanner) parenString(in *Interp) (Obj, error) {
	var out []byte
	depth := 1
	for {
		b, err := s.ReadByte()
		if err != nil {
			return nil, syntaxErr("unterminated string")
		}
		switch b {
		case '(':
			depth++
			out = append(out, b)
		case ')':
			depth--
			if depth == 0 {
				return in.NewStr(out), nil
			}
			out = append(out, b)
		case '\r':
			out = append(out, '\n')
			c, err := s.ReadByte()
			if err == nil && c != '\n' {
				s.unread(c)
			}
		case '\\':
			c, err := s.ReadByte()
			if err != nil {
				return nil, syntaxErr("unterminated string")
			}
			switch c {
			case 'n':
				out = append(out, '\n')
			case 'r':
				out = append(out, '\r')
			case 't':
				out = append(out, '\t')
			case 'b':
				out = append(out, '\b')
			case 'f':
				out = append(out, '\f')
			case '\\', '(', ')':
				out = append(out, c)
			case '\n':
			case '\r':
				d, err := s.ReadByte()
				if err == nil && d != '\n' {
					s.unread(d)
				}
			default:
				if c >= '0' && c <= '7' {
					v := int(c - '0')
					for i := 0; i < 2; i++ {
						d, err := s.ReadByte()
						if err != nil {
							break
						}
						if d < '0' || d > '7' {
							s.unread(d)
							break
						}
						v = v*8 + int(d-'0')
					}
					out = append(out, byte(v))
				} else {
					out = append(out, c)
				}
			}
		default:
			out = append(out, b)
		}
	}
}

func (s *Scanner) hexString(in *Interp) (Obj, error) {
	var out []byte
	have := false
	var hi int
	for {
		b, err := s.ReadByte()
		if err != nil {
			return nil, syntaxErr("unterminated hex string")
		}
		if b == '>' {
			if have {
				out = append(out, byte(hi<<4))
			}
			return in.NewStr(out), nil
		}
		if isWS(b) {
			continue
		}
		h := hexVal(b)
		if h < 0 {
			return nil, syntaxErr("bad hex digit")
		}
		if have {
			out = append(out, byte(hi<<4|h))
			have = false
		} else {
			hi = h
			have = true
		}
	}
}

func (s *Scanner) a85String(in *Interp) (Obj, error) {
	var out []byte
	var grp []byte
	for {
		b, err := s.ReadByte()
		if err != nil {
			return nil, syntaxErr("unterminated ascii85 string")
		}
		if isWS(b) {
			continue
		}
		if b == '~' {
			c, err := s.ReadByte()
			if err != nil || c != '>' {
				return nil, syntaxErr("bad ascii85 terminator")
			}
			break
		}
		if b == 'z' && len(grp) == 0 {
			out = append(out, 0, 0, 0, 0)
			continue
		}
		if b < '!' || b > 'u' {
			return nil, syntaxErr("bad ascii85 digit")
		}
		grp = append(grp, b-'!')
		if len(grp) == 5 {
			var v uint64
			for _, d := range grp {
				v = v*85 + uint64(d)
			}
			out = append(out, byte(v>>24), byte(v>>16), byte(v>>8), byte(v))
			grp = grp[:0]
		}
	}
	if n := len(grp); n > 0 {
		if n == 1 {
			return nil, syntaxErr("ascii85 tail of one digit")
		}
		for len(grp) < 5 {
			grp = append(grp, 84)
		}
		var v uint64
		for _, d := range grp {
			v = v*85 + uint64(d)
		}
		t := []byte{byte(v >> 24), byte(v >> 16), byte(v >> 8), byte(v)}
		out = append(out, t[:n-1]...)
	}
	return in.NewStr(out), nil
}

// ParseNumber implements PLRM 3.2.2 "Numbers": signed decimal integers,
// reals with optional exponent, and radix numbers base#digits. Integers
// outside the 64-bit range become reals.
func ParseNumber(tok []byte) (Obj, bool) {
	if len(tok) == 0 {
		return nil, false
	}
	i := 0
	if tok[0] == '+' || tok[0] == '-' {
		i = 1
	}
	digits := func(j int) int {
		for j < len(tok) && tok[j] >= '0' && tok[j] <= '9' {
			j++
		}
		return j
	}
	j := digits(i)
	if j == len(tok) && j > i {
		v, err := strconv.ParseInt(string(tok), 10, 64)
		if err == nil {
			return Int(v), true
		}
		f, err := strconv.ParseFloat(string(tok), 64)
		if err == nil && !math.IsInf(f, 0) {
			return Real(f), true
		}
		return nil, false
	}
	// radix
	if i == 0 && j > 0 && j < len(tok) && tok[j] == '#' && j <= 2 {
		base, _ := strconv.Atoi(string(tok[:j]))
		if base >= 2 && base <= 36 && j+1 < len(tok) {
			v, err := strconv.ParseUint(string(tok[j+1:]), base, 64)
			if err == nil && v <= math.MaxInt64 {
				return Int(int64(v)), true
			}
		}
		return nil, false
	}
	// real: digits [. digits] [e|E [sign] digits], at least one mantissa digit
	k := j
	mant := j - i
	if k < len(tok) && tok[k] == '.' {
		k2 := digits(k + 1)
		mant += k2 - (k + 1)
		k = k2
	}
	if mant == 0 {
		return nil, false
	}
	if k < len(tok) && (tok[k] == 'e' || tok[k] == 'E') {
		k++
		if k < len(tok) && (tok[k] == '+' || tok[k] == '-') {
			k++
		}
		k2 := digits(k)
		if k2 == k {
			return nil, false
		}
		k = k2
	}
	if k != len(tok) {
		return nil, false
	}
	f, err := strconv.ParseFloat(string(tok), 64)
	if err != nil || math.IsInf(f, 0) || math.IsNaN(f) {
		return nil, false
	}
	return Real(f), true
}
