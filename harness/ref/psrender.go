package ref

import (
	"fmt"
	"math"
	"strconv"
	"strings"
)

// RenderTokens writes a token program in a plain, canonical spelling
// (spelling variety is C04's subject, not C02/C03's).
func RenderTokens(prog []Tok) string {
	var sb strings.Builder
	renderInto(&sb, prog)
	return sb.String()
}

func renderInto(sb *strings.Builder, prog []Tok) {
	for i, t := range prog {
		if i > 0 {
			sb.WriteByte(' ')
		}
		switch t := t.(type) {
		case TInt:
			sb.WriteString(strconv.FormatInt(int64(t), 10))
		case TReal:
			sb.WriteString(RenderReal(float64(t)))
		case TStr:
			sb.WriteByte('(')
			for _, b := range t {
				switch {
				case b == '(' || b == ')' || b == '\\':
					sb.WriteByte('\\')
					sb.WriteByte(b)
				case b < 32 || b > 126:
					fmt.Fprintf(sb, "\\%03o", b)
				default:
					sb.WriteByte(b)
				}
			}
			sb.WriteByte(')')
		case TName:
			if !t.Exec {
				sb.WriteByte('/')
			}
			sb.WriteString(t.S)
		case TProc:
			sb.WriteString("{ ")
			renderInto(sb, t)
			sb.WriteString(" }")
		default:
			panic(fmt.Sprintf("bad token %T", t))
		}
	}
}

// RenderReal spells a finite float64 as a PostScript real that reads back to
// the same value.
func RenderReal(f float64) string {
	if math.IsInf(f, 0) || math.IsNaN(f) {
		panic("non-finite real")
	}
	s := strconv.FormatFloat(f, 'g', -1, 64)
	if !strings.ContainsAny(s, ".e") {
		s += ".0"
	}
	return s
}

// ParseTokens reads a program text into the token AST (used for pinned
// regression programs written as text).
func ParseTokens(text string) ([]Tok, error) {
	in := NewInterp(nil)
	s := NewScanner([]byte(text))
	var out []Tok
	for {
		o, err := s.NextObject(in)
		if err == errEOF {
			return out, nil
		}
		if err != nil {
			return nil, err
		}
		out = append(out, objToTok(o))
	}
}

// MustParse is ParseTokens for known-good texts.
func MustParse(text string) []Tok {
	t, err := ParseTokens(text)
	if err != nil {
		panic(fmt.Sprintf("%q: %v", text, err))
	}
	return t
}

func objToTok(o Obj) Tok {
	switch o := o.(type) {
	case Int:
		return TInt(o)
	case Real:
		return TReal(o)
	case Name:
		return TName{S: o.S, Exec: o.Exec}
	case Str:
		return TStr(append([]byte(nil), o.Bytes()...))
	case Arr:
		p := make(TProc, o.N)
		for i, e := range o.Elems() {
			p[i] = objToTok(e)
		}
		return p
	}
	panic(fmt.Sprintf("objToTok: %T", o))
}
