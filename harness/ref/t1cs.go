package ref

// R5: a Type 1 charstring decoder written from the Adobe Type 1 Font Format
// ("black book"), chapter 6 (charstring encoding and commands), chapter 8
// (flex, hint replacement via OtherSubrs).

import (
	"fmt"
)

// MCmd is a path command with absolute coordinates: 'M', 'L', 'C', 'Z'.
type MCmd struct {
	Op   byte
	Args []float64
}

// CSToken is one token of a charstring, for form checks.
type CSToken struct {
	IsNum bool
	Val   int64  // number value
	Form  int    // encoded length in bytes: 1, 2 or 5
	Op    string // command name
}

// CSResult is what a charstring describes.
type CSResult struct {
	Cmds           []MCmd
	SBX, SBY       float64
	WX, WY         float64
	HStem, VStem   []float64 // edges (absolute: offset by the side bearing), in pairs, as declared before any hint replacement
	Tokens         []CSToken
	Seac           *SeacInfo
	HintReplaced   bool
	DotSections    int
	EndedByEndchar bool
}

// SeacInfo holds the operands of a seac command.
type SeacInfo struct {
	ASB, ADX, ADY float64
	BChar, AChar  int
}

// DecodeCharstring interprets a plain (decrypted, lead bytes removed)
// charstring.
func DecodeCharstring(code []byte, subrs [][]byte) (*CSResult, error) {
	d := &csDecoder{res: &CSResult{}, subrs: subrs}
	if err := d.run(code, 0); err != nil {
		return nil, err
	}
	if !d.ended {
		return nil, fmt.Errorf("charstring does not end with endchar (or seac)")
	}
	return d.res, nil
}

type csDecoder struct {
	res      *CSResult
	subrs    [][]byte
	stack    []float64
	psStack  []float64
	x, y     float64
	open     bool // a subpath has been started and not closed
	ended    bool
	inFlex   bool
	flexPts  [][2]float64
	replaced bool
	started  bool // hsbw/sbw seen
}

func (d *csDecoder) pushNum(v int64, form int) {
	d.stack = append(d.stack, float64(v))
	d.res.Tokens = append(d.res.Tokens, CSToken{IsNum: true, Val: v, Form: form})
}

func (d *csDecoder) need(n int, op string) error {
	if len(d.stack) < n {
		return fmt.Errorf("%s: %d operands, need %d", op, len(d.stack), n)
	}
	return nil
}

func (d *csDecoder) clear() { d.stack = d.stack[:0] }

func (d *csDecoder) moveTo(dx, dy float64) {
	d.x += dx
	d.y += dy
	if d.inFlex {
		d.flexPts = append(d.flexPts, [2]float64{d.x, d.y})
		return
	}
	d.res.Cmds = append(d.res.Cmds, MCmd{'M', []float64{d.x, d.y}})
	d.open = true
}

func (d *csDecoder) lineTo(dx, dy float64) {
	d.x += dx
	d.y += dy
	d.res.Cmds = append(d.res.Cmds, MCmd{'L', []float64{d.x, d.y}})
}

func (d *csDecoder) curveTo(dx1, dy1, dx2, dy2, dx3, dy3 float64) {
	x1, y1 := d.x+dx1, d.y+dy1
	x2, y2 := x1+dx2, y1+dy2
	d.x, d.y = x2+dx3, y2+dy3
	d.res.Cmds = append(d.res.Cmds, MCmd{'C', []float64{x1, y1, x2, y2, d.x, d.y}})
}

func (d *csDecoder) run(code []byte, depth int) error {
	if depth > 10 {
		return fmt.Errorf("subroutine nesting deeper than 10")
	}
	i := 0
	for i < len(code) {
		if d.ended {
			return nil
		}
		b := code[i]
		switch {
		case b >= 32 && b <= 246:
			d.pushNum(int64(b)-139, 1)
			i++
			continue
		case b >= 247 && b <= 250:
			if i+1 >= len(code) {
				return fmt.Errorf("truncated number")
			}
			d.pushNum((int64(b)-247)*256+int64(code[i+1])+108, 2)
			i += 2
			continue
		case b >= 251 && b <= 254:
			if i+1 >= len(code) {
				return fmt.Errorf("truncated number")
			}
			d.pushNum(-(int64(b)-251)*256-int64(code[i+1])-108, 2)
			i += 2
			continue
		case b == 255:
			if i+4 >= len(code) {
				return fmt.Errorf("truncated number")
			}
			v := int32(uint32(code[i+1])<<24 | uint32(code[i+2])<<16 | uint32(code[i+3])<<8 | uint32(code[i+4]))
			d.pushNum(int64(v), 5)
			i += 5
			continue
		}
		op := int(b)
		i++
		if b == 12 {
			if i >= len(code) {
				return fmt.Errorf("truncated escape command")
			}
			op = 1200 + int(code[i])
			i++
		}
		name, ok := csOpNames[op]
		if !ok {
			return fmt.Errorf("undefined command %d", op)
		}
		d.res.Tokens = append(d.res.Tokens, CSToken{Op: name})
		s := d.stack
		switch name {
		case "hsbw":
			if err := d.need(2, name); err != nil {
				return err
			}
			d.res.SBX, d.res.SBY, d.res.WX, d.res.WY = s[0], 0, s[1], 0
			d.x, d.y = s[0], 0
			d.started = true
			d.clear()
		case "sbw":
			if err := d.need(4, name); err != nil {
				return err
			}
			d.res.SBX, d.res.SBY, d.res.WX, d.res.WY = s[0], s[1], s[2], s[3]
			d.x, d.y = s[0], s[1]
			d.started = true
			d.clear()
		case "endchar":
			d.ended = true
			d.res.EndedByEndchar = true
			d.clear()
			return nil
		case "seac":
			if err := d.need(5, name); err != nil {
				return err
			}
			d.res.Seac = &SeacInfo{s[0], s[1], s[2], int(s[3]), int(s[4])}
			d.ended = true
			d.clear()
			return nil
		case "closepath":
			d.res.Cmds = append(d.res.Cmds, MCmd{Op: 'Z'})
			d.open = false
			d.clear()
		case "hlineto":
			if err := d.need(1, name); err != nil {
				return err
			}
			d.lineTo(s[0], 0)
			d.clear()
		case "vlineto":
			if err := d.need(1, name); err != nil {
				return err
			}
			d.lineTo(0, s[0])
			d.clear()
		case "rlineto":
			if err := d.need(2, name); err != nil {
				return err
			}
			d.lineTo(s[0], s[1])
			d.clear()
		case "hmoveto":
			if err := d.need(1, name); err != nil {
				return err
			}
			d.moveTo(s[0], 0)
			d.clear()
		case "vmoveto":
			if err := d.need(1, name); err != nil {
				return err
			}
			d.moveTo(0, s[0])
			d.clear()
		case "rmoveto":
			if err := d.need(2, name); err != nil {
				return err
			}
			d.moveTo(s[0], s[1])
			d.clear()
		case "rrcurveto":
			if err := d.need(6, name); err != nil {
				return err
			}
			d.curveTo(s[0], s[1], s[2], s[3], s[4], s[5])
			d.clear()
		case "hvcurveto":
			if err := d.need(4, name); err != nil {
				return err
			}
			d.curveTo(s[0], 0, s[1], s[2], 0, s[3])
			d.clear()
		case "vhcurveto":
			if err := d.need(4, name); err != nil {
				return err
			}
			d.curveTo(0, s[0], s[1], s[2], s[3], 0)
			d.clear()
		case "hstem":
			if err := d.need(2, name); err != nil {
				return err
			}
			if !d.replaced {
				d.res.HStem = append(d.res.HStem, d.res.SBY+s[0], d.res.SBY+s[0]+s[1])
			}
			d.clear()
		case "vstem":
			if err := d.need(2, name); err != nil {
				return err
			}
			if !d.replaced {
				d.res.VStem = append(d.res.VStem, d.res.SBX+s[0], d.res.SBX+s[0]+s[1])
			}
			d.clear()
		case "hstem3":
			if err := d.need(6, name); err != nil {
				return err
			}
			if !d.replaced {
				for k := 0; k < 6; k += 2 {
					d.res.HStem = append(d.res.HStem, d.res.SBY+s[k], d.res.SBY+s[k]+s[k+1])
				}
			}
			d.clear()
		case "vstem3":
			if err := d.need(6, name); err != nil {
				return err
			}
			if !d.replaced {
				for k := 0; k < 6; k += 2 {
					d.res.VStem = append(d.res.VStem, d.res.SBX+s[k], d.res.SBX+s[k]+s[k+1])
				}
			}
			d.clear()
		case "dotsection":
			d.res.DotSections++
			d.clear()
		case "div":
			if err := d.need(2, name); err != nil {
				return err
			}
			n := len(s)
			d.stack = append(s[:n-2], s[n-2]/s[n-1])
		case "callsubr":
			if err := d.need(1, name); err != nil {
				return err
			}
			idx := int(s[len(s)-1])
			d.stack = s[:len(s)-1]
			if float64(idx) != s[len(s)-1] || idx < 0 || idx >= len(d.subrs) || d.subrs[idx] == nil {
				return fmt.Errorf("callsubr %v: no such subroutine", s[len(s)-1])
			}
			if err := d.run(d.subrs[idx], depth+1); err != nil {
				return err
			}
		case "return":
			return nil
		case "callothersubr":
			if err := d.need(2, name); err != nil {
				return err
			}
			n := len(s)
			idx, argc := int(s[n-1]), int(s[n-2])
			if argc < 0 || n-2 < argc {
				return fmt.Errorf("callothersubr: %d arguments announced, %d present", argc, n-2)
			}
			args := append([]float64(nil), s[n-2-argc:n-2]...)
			d.stack = s[:n-2-argc]
			// arguments are transferred to the PostScript stack, last argument on top... the
			// book: "args are pushed onto the PostScript interpreter operand stack" in order
			d.psStack = d.psStack[:0]
			for k := len(args) - 1; k >= 0; k-- {
				d.psStack = append(d.psStack, args[k])
			}
			switch idx {
			case 1:
				d.inFlex = true
				d.flexPts = d.flexPts[:0]
			case 2:
				// the preceding rmoveto was recorded as a flex point
			case 0:
				if len(d.flexPts) != 7 || len(args) != 3 {
					return fmt.Errorf("flex end with %d points and %d arguments", len(d.flexPts), len(args))
				}
				d.inFlex = false
				p := d.flexPts
				d.res.Cmds = append(d.res.Cmds,
					MCmd{'C', []float64{p[1][0], p[1][1], p[2][0], p[2][1], p[3][0], p[3][1]}},
					MCmd{'C', []float64{p[4][0], p[4][1], p[5][0], p[5][1], p[6][0], p[6][1]}})
				// OtherSubr 0 returns the end point: y on top after two pops: the
				// standard code is `3 0 callothersubr pop pop setcurrentpoint`
				d.psStack = []float64{args[2], args[1]}
			case 3:
				// hint replacement: returns the subroutine number to call
				d.res.HintReplaced = true
				d.replaced = true
				if len(args) != 1 {
					return fmt.Errorf("othersubr 3 with %d arguments", len(args))
				}
				d.psStack = []float64{args[0]}
			}
		case "pop":
			if len(d.psStack) == 0 {
				return fmt.Errorf("pop on an empty PostScript stack")
			}
			v := d.psStack[len(d.psStack)-1]
			d.psStack = d.psStack[:len(d.psStack)-1]
			d.stack = append(d.stack, v)
		case "setcurrentpoint":
			if err := d.need(2, name); err != nil {
				return err
			}
			d.x, d.y = s[0], s[1]
			d.clear()
		}
	}
	return nil
}

var csOpNames = map[int]string{
	1: "hstem", 3: "vstem", 4: "vmoveto", 5: "rlineto", 6: "hlineto", 7: "vlineto", 8: "rrcurveto", 9: "closepath", 10: "callsubr", 11: "return",
	13: "hsbw", 14: "endchar", 21: "rmoveto", 22: "hmoveto", 30: "vhcurveto", 31: "hvcurveto",
	1200: "dotsection", 1201: "vstem3", 1202: "hstem3", 1206: "seac", 1207: "sbw", 1212: "div", 1216: "callothersubr", 1217: "pop", 1233: "setcurrentpoint",
}

// ProperForm reports whether an integer token uses the number format the
// Type 1 book prescribes for its range.
func ProperForm(v int64, form int) bool {
	switch {
	case v >= -107 && v <= 107:
		return form == 1
	case (v >= 108 && v <= 1131) || (v >= -1131 && v <= -108):
		return form == 2
	default:
		return form == 5
	}
}
