package ref

// R2: the Adobe Type 1 stream ciphers (Type 1 Font Format, chapter 7),
// written from the specification: r = 55665 (eexec) or 4330 (charstrings),
// c1 = 52845, c2 = 22719.

// Encrypt enciphers plain (which must already include the leading random
// bytes) starting from key r. If visit is non-nil it is called with every
// (cipher state, cipher byte) pair produced.
func Encrypt(plain []byte, r uint16, visit func(state uint16, c byte)) []byte {
	out := make([]byte, len(plain))
	for i, p := range plain {
		c := p ^ byte(r>>8)
		if visit != nil {
			visit(r, c)
		}
		r = (uint16(c)+r)*52845 + 22719
		out[i] = c
	}
	return out
}

// Decrypt deciphers cipher starting from key r (all bytes, including the
// leading random ones).
func Decrypt(cipher []byte, r uint16) []byte {
	out := make([]byte, len(cipher))
	for i, c := range cipher {
		out[i] = c ^ byte(r>>8)
		r = (uint16(c)+r)*52845 + 22719
	}
	return out
}

const (
	// EexecKey is the initial key of the eexec cipher.
	EexecKey uint16 = 55665
	// CharstringKey is the initial key of the charstring cipher.
	CharstringKey uint16 = 4330
)

// IsHexDigit reports whether b is an ASCII hexadecimal digit.
func IsHexDigit(b byte) bool { return hexVal(b) >= 0 }

// LegalBinaryStart reports whether ciphertext may start a binary eexec
// section: the first byte is not blank/tab/CR/LF and one of the first four
// bytes is not a hexadecimal digit (Type 1 Font Format 7.2).
func LegalBinaryStart(c []byte) bool {
	if len(c) < 4 {
		return false
	}
	if c[0] == ' ' || c[0] == '\t' || c[0] == '\r' || c[0] == '\n' {
		return false
	}
	for _, b := range c[:4] {
		if !IsHexDigit(b) {
			return true
		}
	}
	return false
}
