package ref

import (
	"bufio"
	"fmt"
	"os"
	"strings"
)

// LoadStdEnc reads the pinned StandardEncoding table (256 names).
func LoadStdEnc(path string) ([]string, error) {
	f, err := os.Open(path)
	if err != nil {
		return nil, err
	}
	defer f.Close()
	out := make([]string, 256)
	n := 0
	sc := bufio.NewScanner(f)
	for sc.Scan() {
		line := sc.Text()
		if line == "" || strings.HasPrefix(line, "#") {
			continue
		}
		var code int
		var name string
		if _, err := fmt.Sscanf(line, "%d %s", &code, &name); err != nil || code < 0 || code > 255 {
			return nil, fmt.Errorf("bad line %q", line)
		}
		out[code] = name
		n++
	}
	if n != 256 {
		return nil, fmt.Errorf("expected 256 entries, got %d", n)
	}
	return out, sc.Err()
}

// MustStdEnc loads the table from the standard location.
func MustStdEnc() []string {
	e, err := LoadStdEnc("/verif/refdata/standard-encoding.txt")
	if err != nil {
		panic(err)
	}
	return e
}
