package ref

// R1 object model: PostScript objects with explicit backing stores so that
// sharing (PLRM 3.3.1 "composite objects ... share their values") is part of
// the model state. This package never imports the library under test.

import (
	"fmt"
	"sort"
	"strings"
)

// Obj is a PostScript object of the model.
type Obj interface{}

type (
	// Int is an integer object.
	Int int64
	// Real is a real object.
	Real float64
	// Bool is a boolean object.
	Bool bool
	// Null is the null object.
	Null struct{}
	// Mark is the mark object.
	Mark struct{}
	// File is the (only) file object: the current input.
	File struct{}
)

// Name is a literal or executable name. AnyAttr means the specification
// leaves the attribute to the comparison (used for the result of `type`).
type Name struct {
	S       string
	Exec    bool
	AnyAttr bool
}

// AnyIntGE stands for "some integer >= Min" (result of maxlength).
type AnyIntGE struct{ Min int64 }

// StrStore is the value of a string, shared between string objects.
type StrStore struct {
	ID int
	B  []byte
}

// Str is a string object: a window on a store.
type Str struct {
	St     *StrStore
	Off, N int
}

// Bytes returns the bytes the string object denotes.
func (s Str) Bytes() []byte { return s.St.B[s.Off : s.Off+s.N] }

// ArrStore is the value of an array.
type ArrStore struct {
	ID int
	E  []Obj
}

// Arr is an array object (executable: a procedure).
type Arr struct {
	St     *ArrStore
	Off, N int
	Exec   bool
}

// Elems returns the elements the array object denotes.
func (a Arr) Elems() []Obj { return a.St.E[a.Off : a.Off+a.N] }

// DictStore is the value of a dictionary (keys are names).
type DictStore struct {
	ID    int
	M     map[string]Obj
	Label string // "systemdict", "userdict", ... for well-known dictionaries
}

// Dict is a dictionary object.
type Dict struct{ D *DictStore }

// Keys returns the sorted keys.
func (d Dict) Keys() []string {
	keys := make([]string, 0, len(d.D.M))
	for k := range d.D.M {
		keys = append(keys, k)
	}
	sort.Strings(keys)
	return keys
}

// Op is a built-in operator.
type Op struct{ Name string }

// Opaque is a value the model cannot describe further (e.g. the CodeMap).
type Opaque struct{ What string }

// TypeName gives the PLRM type name of an object.
func TypeName(o Obj) string {
	switch o := o.(type) {
	case Int, AnyIntGE:
		return "integertype"
	case Real:
		return "realtype"
	case Bool:
		return "booleantype"
	case Null:
		return "nulltype"
	case Mark:
		return "marktype"
	case File:
		return "filetype"
	case Name:
		return "nametype"
	case Str:
		return "stringtype"
	case Arr:
		return "arraytype"
	case Dict:
		return "dicttype"
	case Op:
		return "operatortype"
	default:
		_ = o
		return "?"
	}
}

// Show renders an object for witnesses (depth-limited).
func Show(o Obj) string { return show(o, 3) }

func show(o Obj, depth int) string {
	switch o := o.(type) {
	case Int:
		return fmt.Sprint(int64(o))
	case Real:
		return fmt.Sprintf("%gr", float64(o))
	case Bool:
		return fmt.Sprint(bool(o))
	case Null:
		return "null"
	case Mark:
		return "-mark-"
	case File:
		return "-file-"
	case AnyIntGE:
		return fmt.Sprintf("int>=%d", o.Min)
	case Name:
		if o.Exec {
			return o.S
		}
		return "/" + o.S
	case Str:
		b := o.Bytes()
		if len(b) > 24 {
			return fmt.Sprintf("(%q… len %d)#%d", string(b[:24]), len(b), o.St.ID)
		}
		return fmt.Sprintf("(%q)#%d", string(b), o.St.ID)
	case Arr:
		open, cl := "[", "]"
		if o.Exec {
			open, cl = "{", "}"
		}
		if depth == 0 {
			return open + "…" + cl
		}
		var parts []string
		for i, e := range o.Elems() {
			if i >= 8 {
				parts = append(parts, "…")
				break
			}
			parts = append(parts, show(e, depth-1))
		}
		return fmt.Sprintf("%s%s%s#%d+%d", open, strings.Join(parts, " "), cl, o.St.ID, o.Off)
	case Dict:
		if o.D.Label != "" {
			return "-" + o.D.Label + "-"
		}
		if depth == 0 {
			return fmt.Sprintf("<<…%d>>#%d", len(o.D.M), o.D.ID)
		}
		var parts []string
		for i, k := range o.Keys() {
			if i >= 6 {
				parts = append(parts, "…")
				break
			}
			parts = append(parts, "/"+k+" "+show(o.D.M[k], depth-1))
		}
		return fmt.Sprintf("<<%s>>#%d", strings.Join(parts, " "), o.D.ID)
	case Op:
		return "--" + o.Name + "--"
	case Opaque:
		return "-" + o.What + "-"
	default:
		return fmt.Sprintf("?%T", o)
	}
}
