// Package mon holds the I/O-boundary monitors: readers that deliver a byte
// string according to an explicit plan or fail at a chosen offset, writers that
// fail at a chosen call or byte, all of them logging what the library did.
package mon

import (
	"errors"
	"fmt"
	"io"
	"strings"

	"verif/harness/rt"
)

// ErrInjected is the sentinel error of injected faults.
var ErrInjected = errors.New("injected I/O fault")

// Faults whose error values wrap the standard end-of-input errors without
// being them: a reader that fails with such an error has failed, it has not
// reached the end of its input (io.EOF is compared by identity).
var (
	ErrInjectedWrapsEOF           = fmt.Errorf("injected I/O fault (short block: %w)", io.EOF)
	ErrInjectedWrapsUnexpectedEOF = fmt.Errorf("injected I/O fault (connection lost: %w)", io.ErrUnexpectedEOF)
)

// ReadEvent is one Read call as seen at the boundary.
type ReadEvent struct {
	Want, Got, Off int
	Err            error
}

// PlanReader delivers Data in chunks. Chunks[i] is the maximum number of
// bytes returned by the i-th non-empty read (cycled when exhausted; 0 or an
// empty plan mean "as many as asked"). With EOFWithData the final bytes are
// returned together with io.EOF. Zero-length reads return (0, nil).
type PlanReader struct {
	Data        []byte
	Chunks      []int
	EOFWithData bool
	// Boundaries are absolute offsets that no single read crosses
	Boundaries []int
	// Stalls is the number of reads answered with (0, nil) in front of every
	// delivery of data (a source that is polled before its data have arrived;
	// io.Reader allows this and asks callers to treat it as "nothing happened")
	Stalls     int
	stallCount int
	Events     []ReadEvent
	KeepEvents bool

	off   int
	calls int
	Reads int
	// EOFReturned: the consumer asked for more after all data had been delivered
	EOFReturned bool
}

func (r *PlanReader) Read(p []byte) (int, error) {
	r.Reads++
	if len(p) == 0 {
		// a zero-length read is not progress: a consumer that only issues
		// such reads is spinning
		return 0, nil
	}
	if r.off >= len(r.Data) {
		r.log(len(p), 0, io.EOF)
		if !r.EOFReturned {
			rt.Progress.Add(1) // the first end-of-file indication only
		}
		r.EOFReturned = true
		return 0, io.EOF
	}
	if r.stallCount < r.Stalls {
		r.stallCount++
		return 0, nil
	}
	r.stallCount = 0
	rt.Progress.Add(1)
	n := len(p)
	if len(r.Chunks) > 0 {
		if c := r.Chunks[r.calls%len(r.Chunks)]; c > 0 && c < n {
			n = c
		}
	}
	r.calls++
	if n > len(r.Data)-r.off {
		n = len(r.Data) - r.off
	}
	for _, b := range r.Boundaries {
		if b > r.off && b < r.off+n {
			n = b - r.off
		}
	}
	copy(p, r.Data[r.off:r.off+n])
	r.off += n
	var err error
	if r.EOFWithData && r.off == len(r.Data) {
		err = io.EOF
	}
	r.log(len(p), n, err)
	return n, err
}

func (r *PlanReader) log(want, got int, err error) {
	if r.KeepEvents && len(r.Events) < 4096 {
		r.Events = append(r.Events, ReadEvent{want, got, r.off, err})
	}
}

// SeekPlanReader is a PlanReader that also implements io.Seeker.
type SeekPlanReader struct {
	PlanReader
	Seeks    int
	FailSeek int // fail the n-th Seek call (1-based), 0 = never
}

// StartAt positions the reader at an absolute offset before it is handed over.
func (r *SeekPlanReader) StartAt(off int) { r.off = off }

// Seek implements io.Seeker.
func (r *SeekPlanReader) Seek(offset int64, whence int) (int64, error) {
	r.Seeks++
	if r.FailSeek > 0 && r.Seeks == r.FailSeek {
		return 0, ErrInjected
	}
	var abs int64
	switch whence {
	case io.SeekStart:
		abs = offset
	case io.SeekCurrent:
		abs = int64(r.off) + offset
	case io.SeekEnd:
		abs = int64(len(r.Data)) + offset
	}
	if abs < 0 {
		return 0, errors.New("negative position")
	}
	r.off = int(abs)
	if r.off > len(r.Data) {
		r.off = len(r.Data)
	}
	return abs, nil
}

// PipeReader is a PlanReader that has a Seek method which always fails, like
// an *os.File that is a pipe or a terminal: such a source does not support
// seeking although it satisfies io.ReadSeeker.
type PipeReader struct {
	PlanReader
	Seeks int
}

// Seek implements io.Seeker and never succeeds.
func (r *PipeReader) Seek(offset int64, whence int) (int64, error) {
	r.Seeks++
	return 0, errors.New("seek: illegal seek")
}

// FaultReader delivers Data[:K] and then fails with ErrInjected. With
// WithData the error accompanies the last good bytes. Chunks as in PlanReader.
// With OneShot the fault is reported exactly once (alone, with no bytes);
// afterwards the reader carries on with Data[K:] and ends with io.EOF.
type FaultReader struct {
	Data      []byte
	K         int
	WithData  bool
	OneShot   bool
	Err       error // the error to fail with (ErrInjected when nil)
	Chunks    []int
	Delivered bool // the fault was actually returned to the caller
	off       int
	calls     int
}

func (r *FaultReader) Read(p []byte) (int, error) {
	if len(p) == 0 {
		return 0, nil
	}
	limit := r.K
	if r.OneShot && r.Delivered {
		limit = len(r.Data)
		if r.off >= limit {
			rt.Progress.Add(1)
			return 0, io.EOF
		}
	} else if r.off >= r.K {
		if !r.Delivered {
			rt.Progress.Add(1)
		}
		r.Delivered = true
		return 0, r.fault()
	}
	rt.Progress.Add(1)
	n := len(p)
	if len(r.Chunks) > 0 {
		if c := r.Chunks[r.calls%len(r.Chunks)]; c > 0 && c < n {
			n = c
		}
	}
	r.calls++
	if n > limit-r.off {
		n = limit - r.off
	}
	copy(p, r.Data[r.off:r.off+n])
	r.off += n
	if r.WithData && !r.OneShot && r.off == r.K {
		r.Delivered = true
		return n, r.fault()
	}
	return n, nil
}

func (r *FaultReader) fault() error {
	if r.Err != nil {
		return r.Err
	}
	return ErrInjected
}

// SeekFaultReader is a FaultReader with a working Seek method (the fault is
// tied to the read position reached by reading, as for a file on a flaky disk).
type SeekFaultReader struct {
	FaultReader
	Seeks int
}

// Seek implements io.Seeker.
func (r *SeekFaultReader) Seek(offset int64, whence int) (int64, error) {
	r.Seeks++
	var abs int64
	switch whence {
	case io.SeekStart:
		abs = offset
	case io.SeekCurrent:
		abs = int64(r.off) + offset
	case io.SeekEnd:
		abs = int64(len(r.Data)) + offset
	}
	if abs < 0 {
		return 0, errors.New("negative position")
	}
	if abs > int64(len(r.Data)) {
		abs = int64(len(r.Data))
	}
	r.off = int(abs)
	return abs, nil
}

// temporaryError is a fault of the kind the net and os packages describe as
// temporary (EAGAIN, EINTR, timeouts): it has a Temporary method. Whether a
// caller may retry is the caller's business; a reader that has returned it has
// failed.
type temporaryError struct{}

func (temporaryError) Error() string   { return "injected I/O fault (resource temporarily unavailable)" }
func (temporaryError) Temporary() bool { return true }
func (temporaryError) Timeout() bool   { return true }

// ErrList is an error whose dynamic type is not comparable (a slice, like
// go/scanner.ErrorList or the aggregate errors of many packages): comparing
// two such values with == panics at run time.
type ErrList []string

func (e ErrList) Error() string { return "injected I/O fault (list): " + strings.Join(e, "; ") }

// ErrInjectedList is an injected fault of type ErrList.
var ErrInjectedList error = ErrList{"disk", "network"}

// ErrInjectedTemporary has Temporary() == true and Timeout() == true.
var ErrInjectedTemporary error = temporaryError{}

// FaultWriter fails the FailCall-th Write call (0-based; -1 = never), or
// accepts FailByte bytes in total and then returns a short count with an
// error (-1 = never). Sticky: after the first fault every call fails.
type FaultWriter struct {
	FailCall int
	FailByte int
	Calls    int
	Bytes    int
	Failed   bool
	Sticky   bool
	Buf      []byte
	Keep     bool
}

func (w *FaultWriter) Write(p []byte) (int, error) {
	rt.Progress.Add(1)
	if w.Failed && w.Sticky {
		w.Calls++
		return 0, ErrInjected
	}
	if w.FailCall >= 0 && w.Calls == w.FailCall {
		w.Calls++
		w.Failed = true
		return 0, ErrInjected
	}
	w.Calls++
	if w.FailByte >= 0 && w.Bytes+len(p) > w.FailByte {
		n := w.FailByte - w.Bytes
		if n < 0 {
			n = 0
		}
		w.Bytes += n
		if w.Keep {
			w.Buf = append(w.Buf, p[:n]...)
		}
		w.Failed = true
		return n, ErrInjected
	}
	w.Bytes += len(p)
	if w.Keep {
		w.Buf = append(w.Buf, p...)
	}
	return len(p), nil
}

// ClosableSink is a destination with a Close method that behaves like a file:
// after Close every Write fails. A writer that closes what it was given (a
// wrapper closing "the writer below it") loses whatever it writes afterwards.
type ClosableSink struct {
	Buf        []byte
	Closed     bool
	CloseCalls int
	LateWrites int
}

func (s *ClosableSink) Write(p []byte) (int, error) {
	if s.Closed {
		s.LateWrites++
		return 0, errors.New("write on a closed sink (file already closed)")
	}
	s.Buf = append(s.Buf, p...)
	return len(p), nil
}

// Close marks the sink closed.
func (s *ClosableSink) Close() error {
	s.CloseCalls++
	s.Closed = true
	return nil
}
