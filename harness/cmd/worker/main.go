// Command worker links the library under test (built from /repo's current
// tree, with -tags verif) and runs one shard of one property's cases.
package main

import (
	"flag"
	"fmt"
	"os"
	"runtime/debug"
	"time"

	"verif/harness/props"
	"verif/harness/rt"
)

func main() {
	prop := flag.String("prop", "", "property id")
	tier := flag.String("tier", "quick", "quick|thorough")
	seed := flag.Uint64("seed", 1, "seed")
	shard := flag.Int("shard", 0, "shard index")
	nshards := flag.Int("nshards", 1, "number of shards")
	from := flag.Int64("from", 0, "first case sequence number to run")
	only := flag.Int64("only", -1, "run only this case (replay)")
	logPath := flag.String("log", "", "shard log path")
	noprog := flag.Duration("noprogress", 90*time.Second, "no-progress limit (0 = off)")
	flag.Parse()

	debug.SetMaxStack(64 << 20)

	f, ok := props.Registry[*prop]
	if !ok {
		fmt.Fprintf(os.Stderr, "unknown property %q\n", *prop)
		os.Exit(2)
	}
	r := &rt.Runner{Prop: *prop, Tier: *tier, Seed: *seed, Shard: *shard, NShards: *nshards, From: *from, Only: *only, Verbose: *only >= 0}
	if err := r.Open(*logPath); err != nil {
		fmt.Fprintln(os.Stderr, err)
		os.Exit(2)
	}
	if *noprog > 0 {
		r.StartNoProgressMonitor(*noprog)
	}
	f(r)
	r.Close()
}
