// Command supervisor orchestrates worker processes for one property check:
// builds the worker from /repo's current tree, runs the shards, attributes
// worker deaths to cases via the write-ahead logs, aggregates coverage, applies
// the known-findings list, writes the evidence file and prints the verdict.
//
// It never links the library under test.
package main

import (
	"bufio"
	"bytes"
	"crypto/sha256"
	"encoding/binary"
	"encoding/json"
	"flag"
	"fmt"
	"os"
	"os/exec"
	"path/filepath"
	"regexp"
	"sort"
	"strconv"
	"strings"
	"sync"
	"time"
)

const verifDir = "/verif"

type propMeta struct {
	Level        string   `json:"level"`
	Rule         string   `json:"rule"`
	Assumptions  []string `json:"assumptions"`
	Race         bool     `json:"race"`
	Shards       int      `json:"shards"`
	UlimitKB     int64    `json:"ulimit_kb"`
	HangIsViol   bool     `json:"hang_is_violation"`
	NoProgressS  int      `json:"noprogress_s"`
	MinNontriv   int64    `json:"min_nontrivial"`
	RequiredCtrs []string `json:"required_counters"`
}

type violation struct {
	Seq         int64  `json:"seq"`
	CaseID      string `json:"case"`
	Fingerprint string `json:"fingerprint"`
	Msg         string `json:"msg"`
	Detail      string `json:"detail,omitempty"`
}

type summary struct {
	Evaluations int64            `json:"evaluations"`
	Counters    map[string]int64 `json:"counters"`
	Samples     []string         `json:"samples"`
	Violations  int64            `json:"violations"`
	Cases       int64            `json:"cases_total"`
}

type finding struct {
	Property    string `json:"property"`
	Status      string `json:"status"` // "known" or "fixed"
	Fingerprint string `json:"fingerprint"`
	What        string `json:"what"`
	Commit      string `json:"commit,omitempty"`
}

type shardResult struct {
	sum        *summary
	violations []violation
	hashes     []uint64
	incon      []string
	restarts   int
}

var (
	prop, tier string
	seed       uint64
	workDir    string
	workerBin  string
	meta       propMeta
)

func main() {
	flag.StringVar(&prop, "prop", "", "property id")
	flag.StringVar(&tier, "tier", "quick", "quick|thorough")
	replay := flag.String("replay", "", "witness file to replay")
	flag.Parse()
	if tier != "quick" && tier != "thorough" {
		fatal("bad tier %q", tier)
	}
	seed = 1
	if s := os.Getenv("VERIF_SEED"); s != "" {
		v, err := strconv.ParseUint(s, 10, 64)
		if err != nil {
			fatal("bad VERIF_SEED %q", s)
		}
		seed = v
	}
	metas := map[string]propMeta{}
	b, err := os.ReadFile(filepath.Join(verifDir, "harness", "propmeta.json"))
	if err != nil {
		fatal("%v", err)
	}
	if err := json.Unmarshal(b, &metas); err != nil {
		fatal("propmeta.json: %v", err)
	}
	var ok bool
	meta, ok = metas[prop]
	if !ok {
		fatal("unknown property %q", prop)
	}
	if meta.Shards == 0 {
		meta.Shards = 16
	}
	if meta.NoProgressS == 0 {
		meta.NoProgressS = 120
	}

	workDir = filepath.Join(verifDir, ".work", fmt.Sprintf("%s-%d", prop, os.Getpid()))
	os.MkdirAll(workDir, 0o755)
	defer os.RemoveAll(workDir)

	start := time.Now()
	if err := buildWorker(); err != nil {
		fmt.Printf("BUILD-FAILED property=%s\n%v\n", prop, err)
		os.RemoveAll(workDir)
		os.Exit(2)
	}

	if *replay != "" {
		os.Exit(doReplay(*replay))
	}

	results := make([]*shardResult, meta.Shards)
	var wg sync.WaitGroup
	for i := 0; i < meta.Shards; i++ {
		wg.Add(1)
		go func(i int) {
			defer wg.Done()
			results[i] = runShard(i)
		}(i)
	}
	wg.Wait()

	code := aggregate(results, time.Since(start))
	os.RemoveAll(workDir)
	os.Exit(code)
}

func fatal(f string, a ...any) {
	fmt.Fprintf(os.Stderr, "supervisor: "+f+"\n", a...)
	os.Exit(2)
}

func goEnv() []string {
	env := os.Environ()
	env = append(env, "GOFLAGS=-mod=mod", "GOPROXY=off", "GOSUMDB=off", "GOTOOLCHAIN=local")
	return env
}

func buildWorker() error {
	workerBin = filepath.Join(workDir, "worker")
	args := []string{"build", "-tags", "verif"}
	if meta.Race {
		args = append(args, "-race")
	}
	args = append(args, "-o", workerBin, "./cmd/worker")
	cmd := exec.Command("go", args...)
	cmd.Dir = filepath.Join(verifDir, "harness")
	cmd.Env = goEnv()
	out, err := cmd.CombinedOutput()
	if err != nil {
		return fmt.Errorf("%v\n%s", err, out)
	}
	return nil
}

func workerCmd(shard int, from, only int64, logPath, stderrPath string, noprog int) *exec.Cmd {
	args := []string{
		"-prop", prop, "-tier", tier, "-seed", strconv.FormatUint(seed, 10),
		"-shard", strconv.Itoa(shard), "-nshards", strconv.Itoa(meta.Shards),
		"-from", strconv.FormatInt(from, 10), "-only", strconv.FormatInt(only, 10),
		"-log", logPath, "-noprogress", fmt.Sprintf("%ds", noprog),
	}
	var cmd *exec.Cmd
	if meta.UlimitKB > 0 && !meta.Race {
		sh := fmt.Sprintf("ulimit -v %d; exec %s %s", meta.UlimitKB, workerBin, strings.Join(args, " "))
		cmd = exec.Command("bash", "-c", sh)
	} else {
		cmd = exec.Command(workerBin, args...)
	}
	cmd.Env = append(os.Environ(), "GOMAXPROCS=2", "GOTRACEBACK=all")
	if meta.Race {
		cmd.Env = append(cmd.Env, "GOMAXPROCS=8",
			"GORACE=halt_on_error=0 log_path="+filepath.Join(workDir, fmt.Sprintf("race-%d", shard)))
	}
	if stderrPath != "" {
		f, err := os.Create(stderrPath)
		if err == nil {
			cmd.Stderr = f
			cmd.Stdout = f
		}
	}
	return cmd
}

var fatalRe = regexp.MustCompile(`(?m)^(fatal error: .*|runtime: out of memory.*|panic: .*|runtime: goroutine stack exceeds.*|SIGSEGV.*|unexpected fault address.*)$`)

func classifyDeath(stderr string) (class, top string) {
	class = "unknown-death"
	if m := fatalRe.FindString(stderr); m != "" {
		class = m
		if len(class) > 120 {
			class = class[:120]
		}
	}
	top = "?"
	sc := bufio.NewScanner(strings.NewReader(stderr))
	sc.Buffer(make([]byte, 1<<20), 1<<20)
	for sc.Scan() {
		l := strings.TrimSpace(sc.Text())
		if strings.HasPrefix(l, "seehuhn.de/go/postscript") {
			if i := strings.LastIndex(l, "("); i > 0 {
				l = l[:i]
			}
			top = l
			break
		}
	}
	// normalise sizes in out-of-memory messages
	class = regexp.MustCompile(`[0-9]{4,}`).ReplaceAllString(class, "N")
	return
}

func runShard(shard int) *shardResult {
	res := &shardResult{}
	logPath := filepath.Join(workDir, fmt.Sprintf("shard-%d.log", shard))
	from := int64(0)
	var carry *summary
	for {
		stderrPath := filepath.Join(workDir, fmt.Sprintf("shard-%d.stderr.%d", shard, res.restarts))
		cmd := workerCmd(shard, from, -1, logPath, stderrPath, meta.NoProgressS)
		err := runWithTimeout(cmd, shardTimeout())
		sum, vios, lastB, lastID, hung, partial := parseLog(logPath)
		if err == errShardTimeout {
			res.incon = append(res.incon, fmt.Sprintf("shard %d exceeded the wall-clock watchdog (%v) in case %d (%s); not a verdict", shard, shardTimeout(), lastB, lastID))
			res.violations = vios
			break
		}
		if err == nil && sum != nil {
			res.sum = mergeSummaries(carry, sum)
			res.violations = vios
			break
		}
		// coverage of the run that died: its last periodic record
		if partial != nil {
			carry = mergeSummaries(carry, partial)
		}
		// the worker died: attribute to the last announced case
		stderrB, _ := os.ReadFile(stderrPath)
		stderr := string(stderrB)
		if len(stderr) > 200000 {
			stderr = stderr[:100000] + "\n…\n" + stderr[len(stderr)-100000:]
		}
		if lastB < 0 {
			res.incon = append(res.incon, fmt.Sprintf("shard %d died before its first case: %v: %s", shard, err, tail(stderr, 2000)))
			res.violations = vios
			break
		}
		if hung {
			// nomination: re-run the case alone with a longer window
			confirmed, dump := confirmHang(shard, lastB)
			if confirmed {
				if meta.HangIsViol {
					vios = append(vios, violation{Seq: lastB, CaseID: lastID, Fingerprint: "hang:" + lastID,
						Msg: "no progress event (interpreter step, reader call) for the whole window, twice; case re-run alone", Detail: tail(dump, 20000)})
				} else {
					res.incon = append(res.incon, fmt.Sprintf("case %d (%s) made no progress twice", lastB, lastID))
				}
			} else {
				res.incon = append(res.incon, fmt.Sprintf("case %d (%s) nominated as hang but finished when re-run alone", lastB, lastID))
			}
			if confirmed {
				// one confirmed hang decides the shard; the rest of its cases is not run
				res.violations = vios
				res.incon = append(res.incon, fmt.Sprintf("shard %d stopped after a confirmed hang in case %d", shard, lastB))
				if partial != nil {
					carry = mergeSummaries(carry, partial)
				}
				res.sum = carry
				break
			}
		} else {
			class, top := classifyDeath(stderr)
			vios = append(vios, violation{Seq: lastB, CaseID: lastID, Fingerprint: "crash:" + class + "@" + top,
				Msg: fmt.Sprintf("worker process died (%v) while running this case: %s", err, class), Detail: tail(stderr, 20000)})
		}
		// rewrite log without the partial state: keep V records by re-appending
		res.violations = vios
		res.restarts++
		if res.restarts > 25 {
			res.incon = append(res.incon, fmt.Sprintf("shard %d: more than 25 worker deaths, giving up after case %d", shard, lastB))
			res.sum = carry
			break
		}
		// persist violations collected so far, then restart after the fatal case
		persist(logPath, vios)
		os.Remove(logPath + ".hashes.keep")
		from = lastB + 1
	}
	res.hashes = readHashes(logPath + ".hashes")
	return res
}

// persist rewrites the shard log so that it only holds the violation records
// collected so far (the next worker run appends to it).
func persist(logPath string, vios []violation) {
	var buf bytes.Buffer
	for _, v := range vios {
		b, _ := json.Marshal(v)
		buf.WriteString("V ")
		buf.Write(b)
		buf.WriteByte('\n')
	}
	os.WriteFile(logPath, buf.Bytes(), 0o644)
}

var errShardTimeout = fmt.Errorf("shard watchdog")

func shardTimeout() time.Duration {
	if s := os.Getenv("VERIF_SHARD_TIMEOUT_S"); s != "" {
		if v, err := strconv.Atoi(s); err == nil && v > 0 {
			return time.Duration(v) * time.Second
		}
	}
	if tier == "thorough" {
		return 6 * time.Hour
	}
	return 20 * time.Minute
}

// runWithTimeout runs cmd under a generous wall-clock watchdog; its firing is
// reported as inconclusive, never as a violation.
func runWithTimeout(cmd *exec.Cmd, d time.Duration) error {
	if err := cmd.Start(); err != nil {
		return err
	}
	done := make(chan error, 1)
	go func() { done <- cmd.Wait() }()
	select {
	case err := <-done:
		return err
	case <-time.After(d):
		cmd.Process.Kill()
		<-done
		return errShardTimeout
	}
}

func confirmHang(shard int, seq int64) (bool, string) {
	logPath := filepath.Join(workDir, fmt.Sprintf("hang-%d-%d.log", shard, seq))
	stderrPath := logPath + ".stderr"
	cmd := workerCmd(shard, 0, seq, logPath, stderrPath, 2*meta.NoProgressS)
	err := cmd.Run()
	b, _ := os.ReadFile(stderrPath)
	if err == nil {
		return false, string(b)
	}
	if ee, ok := err.(*exec.ExitError); ok && ee.ExitCode() == 3 {
		return true, string(b)
	}
	return false, string(b)
}

func tail(s string, n int) string {
	if len(s) <= n {
		return s
	}
	return "…" + s[len(s)-n:]
}

func parseLog(path string) (sum *summary, vios []violation, lastB int64, lastID string, hung bool, partial *summary) {
	lastB = -1
	f, err := os.Open(path)
	if err != nil {
		return
	}
	defer f.Close()
	sc := bufio.NewScanner(f)
	sc.Buffer(make([]byte, 1<<22), 1<<26)
	for sc.Scan() {
		line := sc.Text()
		if len(line) < 2 {
			continue
		}
		switch line[0] {
		case 'B', 'H':
			parts := strings.SplitN(line[2:], " ", 2)
			n, err := strconv.ParseInt(parts[0], 10, 64)
			if err == nil {
				lastB = n
				if len(parts) > 1 {
					lastID = parts[1]
				}
			}
			if line[0] == 'H' {
				hung = true
			}
		case 'V':
			var v violation
			if json.Unmarshal([]byte(line[2:]), &v) == nil {
				vios = append(vios, v)
			}
		case 'S':
			var s summary
			if json.Unmarshal([]byte(line[2:]), &s) == nil {
				sum = &s
			}
		case 'P':
			var s summary
			if json.Unmarshal([]byte(line[2:]), &s) == nil {
				partial = &s
			}
		}
	}
	return
}

// mergeSummaries adds the coverage of an earlier (dead) worker run.
func mergeSummaries(a, b *summary) *summary {
	if a == nil {
		return b
	}
	out := &summary{Evaluations: a.Evaluations + b.Evaluations, Counters: map[string]int64{}, Samples: append(append([]string(nil), a.Samples...), b.Samples...), Violations: a.Violations + b.Violations, Cases: b.Cases}
	if a.Cases > out.Cases {
		out.Cases = a.Cases
	}
	for k, v := range a.Counters {
		out.Counters[k] = v
	}
	for k, v := range b.Counters {
		if strings.HasPrefix(k, "max:") {
			if v > out.Counters[k] {
				out.Counters[k] = v
			}
		} else {
			out.Counters[k] += v
		}
	}
	return out
}

func readHashes(path string) []uint64 {
	b, err := os.ReadFile(path)
	if err != nil {
		return nil
	}
	out := make([]uint64, 0, len(b)/8)
	for i := 0; i+8 <= len(b); i += 8 {
		out = append(out, binary.LittleEndian.Uint64(b[i:]))
	}
	return out
}

func loadFindings() []finding {
	b, err := os.ReadFile(filepath.Join(verifDir, "known-findings.json"))
	if err != nil {
		return nil
	}
	var doc struct {
		Findings []finding `json:"findings"`
	}
	if err := json.Unmarshal(b, &doc); err != nil {
		fatal("known-findings.json: %v", err)
	}
	return doc.Findings
}

func aggregate(results []*shardResult, wall time.Duration) int {
	counters := map[string]int64{}
	var evals, cases int64
	var samples []string
	distinct := map[uint64]struct{}{}
	var vios []violation
	incon := []string{}
	restarts := 0
	complete := true
	for _, r := range results {
		if r == nil {
			complete = false
			continue
		}
		restarts += r.restarts
		incon = append(incon, r.incon...)
		vios = append(vios, r.violations...)
		for _, h := range r.hashes {
			distinct[h] = struct{}{}
		}
		if r.sum == nil {
			complete = false
			continue
		}
		evals += r.sum.Evaluations
		if r.sum.Cases > cases {
			cases = r.sum.Cases
		}
		for k, v := range r.sum.Counters {
			if strings.HasPrefix(k, "max:") {
				if v > counters[k] {
					counters[k] = v
				}
			} else {
				counters[k] += v
			}
		}
		for _, s := range r.sum.Samples {
			if len(samples) < 6 {
				samples = append(samples, s)
			}
		}
	}
	sort.SliceStable(vios, func(i, j int) bool {
		ci := strings.HasPrefix(vios[i].Fingerprint, "crash:") || strings.HasPrefix(vios[i].Fingerprint, "hang:")
		cj := strings.HasPrefix(vios[j].Fingerprint, "crash:") || strings.HasPrefix(vios[j].Fingerprint, "hang:")
		if ci != cj {
			return ci
		}
		return vios[i].Seq < vios[j].Seq
	})

	// race detector logs
	raceBlocks := 0
	if meta.Race {
		rv, n := collectRaces()
		raceBlocks = n
		vios = append(vios, rv...)
		counters["race_detector_blocks"] = int64(n)
	}

	// known findings
	findings := loadFindings()
	knownHit := map[int]bool{}
	var unlisted []violation
	for _, v := range vios {
		matched := false
		for i, f := range findings {
			if f.Property == prop && f.Status == "known" && f.Fingerprint == v.Fingerprint {
				knownHit[i] = true
				matched = true
				break
			}
		}
		if !matched {
			unlisted = append(unlisted, v)
		}
	}
	for i, f := range findings {
		if knownHit[i] {
			fmt.Printf("KNOWN-FINDING: property=%s %s\n", prop, f.What)
		}
	}

	// unlisted violations: one witness per fingerprint
	seen := map[string]bool{}
	nViol := 0
	for _, v := range unlisted {
		if seen[v.Fingerprint] {
			continue
		}
		seen[v.Fingerprint] = true
		nViol++
		if nViol > 40 {
			continue
		}
		path := saveWitness(v)
		fmt.Printf("VIOLATION property=%s replay=%s\n", prop, path)
		fmt.Printf("  fingerprint: %s\n  case: %s (seq %d)\n  %s\n", v.Fingerprint, v.CaseID, v.Seq, firstLines(v.Msg, 6))
	}

	if nViol > 40 {
		// summary of the fingerprints that were not printed individually
		classes := map[string]int{}
		for fp := range seen {
			k := fp
			if i := strings.IndexAny(k, "|@"); i > 0 {
				k = k[:i]
			}
			if len(k) > 60 {
				k = k[:60]
			}
			classes[k]++
		}
		ks := make([]string, 0, len(classes))
		for k := range classes {
			ks = append(ks, k)
		}
		sort.Strings(ks)
		for _, k := range ks {
			fmt.Printf("  fingerprint class %-62s %d\n", k, classes[k])
		}
	}

	// inconclusive: verdicts that individual cases could not reach (counted by the workers)
	{
		var ks []string
		for k := range counters {
			if strings.HasPrefix(k, "inconclusive:") {
				ks = append(ks, k)
			}
		}
		sort.Strings(ks)
		for _, k := range ks {
			incon = append(incon, fmt.Sprintf("%d case(s): %s", counters[k], strings.TrimPrefix(k, "inconclusive:")))
		}
	}
	// inconclusive: claimed classes with zero observations
	for _, k := range meta.RequiredCtrs {
		if counters[k] == 0 {
			incon = append(incon, fmt.Sprintf("required class %q produced no observation", k))
		}
	}
	if !complete {
		incon = append(incon, "at least one shard did not complete")
	}
	if int64(len(distinct)) < meta.MinNontriv {
		incon = append(incon, fmt.Sprintf("only %d distinct non-trivial cases (minimum %d)", len(distinct), meta.MinNontriv))
	}
	for _, s := range incon {
		fmt.Printf("INCONCLUSIVE property=%s %s\n", prop, s)
	}

	exhaustive := counters["flag:exhaustive"] == int64(meta.Shards) && complete
	delete(counters, "flag:exhaustive")

	if len(samples) == 0 {
		samples = []string{"(no sample recorded)"}
	}
	sampleVals := make([]any, len(samples))
	for i, s := range samples {
		sampleVals[i] = s
	}
	cov := map[string]any{
		"evaluations":         evals,
		"distinct_nontrivial": int64(len(distinct)),
		"rule":                meta.Rule,
		"samples":             sampleVals,
		"cases_enumerated":    cases,
		"counters":            counters,
		"worker_restarts":     restarts,
		"inconclusive":        incon,
		"known_findings_hit":  len(knownHit),
		"decided":             complete && len(distinct) > 0,
	}
	if exhaustive {
		cov["exhaustive"] = true
	}
	if meta.Race {
		cov["race_detector_blocks"] = raceBlocks
	}
	ev := map[string]any{
		"property_id": prop,
		"tier":        tier,
		"seed":        seed,
		"level":       meta.Level,
		"coverage":    cov,
		"assumptions": meta.Assumptions,
		"wall_s":      float64(int(wall.Seconds()*10)) / 10,
		"violations":  nViol,
	}
	b, _ := json.MarshalIndent(ev, "", " ")
	os.MkdirAll(filepath.Join(verifDir, "evidence"), 0o755)
	if err := os.WriteFile(filepath.Join(verifDir, "evidence", prop+".json"), append(b, '\n'), 0o644); err != nil {
		fatal("%v", err)
	}

	keys := make([]string, 0, len(counters))
	for k := range counters {
		keys = append(keys, k)
	}
	sort.Strings(keys)
	fmt.Printf("OBSERVED property=%s tier=%s seed=%d evaluations=%d distinct_nontrivial=%d cases=%d restarts=%d wall=%.1fs\n",
		prop, tier, seed, evals, len(distinct), cases, restarts, wall.Seconds())
	for _, k := range keys {
		fmt.Printf("  %-48s %d\n", k, counters[k])
	}
	if nViol > 0 {
		fmt.Printf("RESULT property=%s violated (%d distinct fingerprints)\n", prop, nViol)
		return 1
	}
	if len(incon) > 0 {
		fmt.Printf("RESULT property=%s held on what was observed; %d inconclusive item(s)\n", prop, len(incon))
		return 0
	}
	fmt.Printf("RESULT property=%s held on everything observed\n", prop)
	return 0
}

func firstLines(s string, n int) string {
	lines := strings.Split(s, "\n")
	if len(lines) > n {
		lines = lines[:n]
	}
	return strings.Join(lines, "\n  ")
}

func saveWitness(v violation) string {
	h := sha256.Sum256([]byte(v.Fingerprint))
	dir := filepath.Join(verifDir, "replay", prop)
	os.MkdirAll(dir, 0o755)
	path := filepath.Join(dir, fmt.Sprintf("%x.json", h[:6]))
	w := map[string]any{
		"property": prop, "tier": tier, "seed": seed, "seq": v.Seq, "case": v.CaseID,
		"fingerprint": v.Fingerprint, "msg": v.Msg, "detail": v.Detail,
		"replay": fmt.Sprintf("./check %s --replay %s", prop, path),
	}
	b, _ := json.MarshalIndent(w, "", " ")
	os.WriteFile(path, b, 0o644)
	return path
}

func doReplay(path string) int {
	b, err := os.ReadFile(path)
	if err != nil {
		fatal("%v", err)
	}
	var w struct {
		Property string `json:"property"`
		Tier     string `json:"tier"`
		Seed     uint64 `json:"seed"`
		Seq      int64  `json:"seq"`
	}
	if err := json.Unmarshal(b, &w); err != nil {
		fatal("%v", err)
	}
	tier = w.Tier
	seed = w.Seed
	logPath := filepath.Join(workDir, "replay.log")
	cmd := workerCmd(0, 0, w.Seq, logPath, "", 2*meta.NoProgressS)
	cmd.Stdout = os.Stdout
	cmd.Stderr = os.Stderr
	err = cmd.Run()
	_, vios, _, _, _, _ := parseLog(logPath)
	if err != nil {
		fmt.Printf("REPLAY worker exited: %v\n", err)
		return 1
	}
	if len(vios) > 0 {
		fmt.Printf("REPLAY reproduced %d violation(s)\n", len(vios))
		return 1
	}
	fmt.Println("REPLAY case ran without violation")
	return 0
}

// collectRaces parses the race detector's log files.
func collectRaces() ([]violation, int) {
	files, _ := filepath.Glob(filepath.Join(workDir, "race-*"))
	sort.Strings(files)
	blocks := 0
	byKey := map[string]violation{}
	for _, f := range files {
		b, err := os.ReadFile(f)
		if err != nil {
			continue
		}
		parts := strings.Split(string(b), "==================")
		for _, p := range parts {
			if !strings.Contains(p, "WARNING: DATA RACE") {
				continue
			}
			blocks++
			key := raceKey(p)
			if _, ok := byKey[key]; !ok {
				byKey[key] = violation{Seq: -1, CaseID: "race-detector", Fingerprint: "race:" + key,
					Msg: "WARNING: DATA RACE reported by the Go race detector", Detail: tail(p, 12000)}
			}
		}
	}
	keys := make([]string, 0, len(byKey))
	for k := range byKey {
		keys = append(keys, k)
	}
	sort.Strings(keys)
	var out []violation
	for _, k := range keys {
		out = append(out, byKey[k])
	}
	return out, blocks
}

var frameRe = regexp.MustCompile(`(?m)^  ([A-Za-z0-9_./*()\[\]-]+)\(`)

// raceKey reduces a race report to the sorted pair of the innermost library
// frames of the two accesses (line numbers stripped).
func raceKey(block string) string {
	var tops []string
	for _, sect := range strings.Split(block, "\n\n") {
		if !(strings.Contains(sect, "by goroutine") || strings.Contains(sect, "by main goroutine")) {
			continue
		}
		if !(strings.HasPrefix(strings.TrimSpace(sect), "Read at") || strings.HasPrefix(strings.TrimSpace(sect), "Write at") ||
			strings.HasPrefix(strings.TrimSpace(sect), "Previous") || strings.HasPrefix(strings.TrimSpace(sect), "WARNING")) {
			continue
		}
		top := "?"
		for _, m := range frameRe.FindAllStringSubmatch(sect, -1) {
			if strings.Contains(m[1], "seehuhn.de/go/postscript") {
				top = m[1]
				break
			}
		}
		tops = append(tops, top)
	}
	sort.Strings(tops)
	return strings.Join(tops, "|")
}
