module verif/harness

go 1.23.2

require seehuhn.de/go/postscript v0.0.0

replace seehuhn.de/go/postscript => /repo
