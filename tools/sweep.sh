#!/bin/bash
# tools/sweep.sh <tier> <seed>... — run every registered check at the given seeds; print one line per run.
# Not part of any registered command.
tier="$1"; shift
cd "$(dirname "$0")/.." || exit 2
for seed in "$@"; do
  for p in $(python3 -c "import json;print(' '.join(c['property_id'] for c in json.load(open('MANIFEST.json'))['checks']))"); do
    start=$(date +%s)
    out=$(VERIF_SEED=$seed ./check $p $tier 2>&1); rc=$?
    end=$(date +%s)
    echo "seed=$seed $p rc=$rc $((end-start))s viol=$(echo "$out" | grep -c '^VIOLATION') incon=$(echo "$out" | grep -c '^INCONCLUSIVE') known=$(echo "$out" | grep -c '^KNOWN-FINDING') | $(echo "$out" | grep '^RESULT')"
    if [ $rc -ne 0 ] || echo "$out" | grep -q '^INCONCLUSIVE'; then echo "$out" | grep -E -A4 '^(VIOLATION|INCONCLUSIVE)' | head -30; fi
  done
done
