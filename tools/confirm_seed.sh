#!/bin/bash
# tools/confirm_seed.sh <seeded-dir> <worktree> — confirm a seeded change in a scratch worktree of /repo's HEAD:
# the patch applies, the repository suite passes with it, the demonstration fails with it and passes without it.
d="$(realpath "$1")"; wt="$2"
export GOFLAGS=-mod=mod GOPROXY=off GOSUMDB=off GOTOOLCHAIN=local
cd "$wt" || exit 2
git checkout -q --detach "$(git -C /repo rev-parse HEAD)" && git checkout -- . && git clean -fdq
patch="$d/patch.diff"; [ -f "$patch" ] || patch="$d/patch.orig.diff"
demo="$d/demo_test.go"; [ -f "$demo" ] || demo="$d/demo_test.go.txt"
pkgdir=$(head -5 "$demo" | grep -oE '(type1/names|type1|afm|pfb|psenc)/?' | head -1); pkgdir=${pkgdir%/}; [ -z "$pkgdir" ] && pkgdir="."
if head -8 "$demo" | grep -qiE 'root|module root|package postscript'; then pkgdir="."; fi
pk=$(grep -m1 '^package ' "$demo" | awk '{print $2}')
case "$pk" in postscript) pkgdir=".";; type1) pkgdir="type1";; names) pkgdir="type1/names";; afm) pkgdir="afm";; pfb) pkgdir="pfb";; esac
race=""; if head -3 "$demo" | grep -q -- '-race' || [[ "$(basename $d)" == C18-* ]]; then race="-race"; fi
cp "$demo" "$pkgdir/zz_demo_test.go"
base=$(cd $pkgdir && timeout 900 go test $race -vet=off -count=1 -run 'Demo|ZZ|TestC18' . 2>&1 | grep -a -E '^(ok|FAIL|---)' | tail -1)
if ! git apply "$patch" 2>/dev/null; then echo "RESULT $(basename $d): patch does not apply"; git checkout -- .; git clean -fdq; exit 1; fi
rm "$pkgdir/zz_demo_test.go"
suite=$(timeout 900 go test -vet=off -count=1 ./... 2>&1 | grep -v 'no test files' | grep -c '^ok')
suitefail=$(timeout 900 go test -vet=off -count=1 ./... 2>&1 | grep -cE '^(FAIL|---)')
cp "$demo" "$pkgdir/zz_demo_test.go"
mut=$(cd $pkgdir && timeout 900 go test $race -vet=off -count=1 -run 'Demo|ZZ|TestC18' . 2>&1 | grep -a -E '^(ok|FAIL)' | tail -1)
git checkout -- . ; git clean -fdq
echo "RESULT $(basename $d): pkg=$pkgdir suite_ok_pkgs=$suite suite_fail_lines=$suitefail | demo without: $base | demo with: $mut"
