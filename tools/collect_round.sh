#!/bin/bash
# tools/collect_round.sh <round-dir> <ka> <kb> [<Cnn>...] — copy the deliverables of finished seeding agents
# (<round-dir>/<Cnn>/out/{a,b}) to seeded/<Cnn>-m<ka|kb>/. Not a registered command.
rd="$1"; ka="$2"; kb="$3"; shift 3
cd "$(dirname "$0")/.." || exit 2
props="$@"; [ -z "$props" ] && props=$(ls "$rd")
for p in $props; do
  for ab in a b; do
    k=$ka; [ $ab = b ] && k=$kb
    src="$rd/$p/out/$ab"; dst="seeded/$p-m$k"
    [ -f "$src/patch.diff" ] && [ -f "$src/demo_test.go" ] && [ -f "$src/notes.md" ] || { echo "$p/$ab: not ready"; continue; }
    [ -d "$dst" ] && continue
    mkdir -p "$dst"; cp "$src/patch.diff" "$src/demo_test.go" "$dst/"; [ -f "$src/notes.md" ] && cp "$src/notes.md" "$dst/"
    echo "$p/$ab -> $dst"
  done
done
