#!/usr/bin/env python3
"""tools/gen_seed_meta.py - write seeded/<id>/meta.json for the sub-agent seeds
from notes.md (what the change is, what it needs to manifest) and
detection.txt (what tools/seed_matrix.sh observed). Not a registered command."""
import json, os, re, sys

root = os.path.join(os.path.dirname(os.path.abspath(__file__)), "..", "seeded")


def clean(t, n):
    t = re.sub(r"\s+", " ", t).strip()
    return t if len(t) <= n else t[: n - 1].rstrip() + "…"


def first_paragraph(text):
    lines = text.strip().split("\n")
    if lines and lines[0].startswith("#"):
        title = lines[0].lstrip("# ").strip()
        return title
    para = []
    for l in lines:
        if not l.strip():
            break
        para.append(l)
    return " ".join(para)


def section(text, pattern):
    m = re.search(r"^#+ *[^\n]*(" + pattern + r")[^\n]*\n(.*?)(?=^#+ |\Z)", text, re.S | re.M | re.I)
    return m.group(2) if m else ""


for d in sorted(os.listdir(root)):
    m = re.match(r"^(C\d\d)-m(\d+)$", d)
    if not m:
        continue
    path = os.path.join(root, d)
    notes = open(os.path.join(path, "notes.md")).read() if os.path.exists(os.path.join(path, "notes.md")) else ""
    what = first_paragraph(notes)
    if len(what) < 60:
        chg = section(notes, r"change")
        what = what + ": " + chg
    needs = section(notes, r"needs|manifest|trigger|requires")
    det = {}
    confirmed = ""
    head = ""
    dt = os.path.join(path, "detection.txt")
    if os.path.exists(dt):
        cur = None
        for line in open(dt):
            line = line.rstrip("\n")
            if line.startswith("confirmed:"):
                confirmed = line[len("confirmed:"):].strip()
            elif line.startswith("== "):
                mm = re.match(r"== (C\d\d) rc=(\d+): (\d+) violation", line)
                if mm:
                    cur = mm.group(1)
                    det[cur] = {"exit": int(mm.group(2)), "violation_lines": int(mm.group(3)), "first_fingerprints": []}
            elif "fingerprint:" in line and cur:
                det[cur]["first_fingerprints"].append(line.split("fingerprint:", 1)[1].strip())
            elif line.startswith("repo HEAD:"):
                head = line.split(":", 1)[1].strip()
    rnd = (int(m.group(2)) + 1) // 2
    meta = {
        "id": d,
        "property": m.group(1),
        "origin": f"fresh sub-agent, round {rnd}: given only the text of {m.group(1)} and a scratch worktree of /repo (nothing from /verif)",
        "what": clean(what, 700),
        "needs": clean(needs, 900) if needs.strip() else "see notes.md",
        "files": sorted(f for f in os.listdir(path) if f != "meta.json"),
        "ran": [
            f"tools/confirm_seed.sh seeded/{d} <scratch worktree>  (patch applies to /repo HEAD; repository suite passes with it; demo_test.go fails with it and passes without it)",
            f"tools/mutcheck.sh seeded/{d}/patch.diff " + " ".join(sorted(det)) + "  (git -C /repo apply, ./check <id> quick at seed 1, git -C /repo checkout -- .)",
        ],
        "confirmed": confirmed,
        "repo_head": head,
        "detected_by": det,
        "detected": any(v["exit"] == 1 and v["violation_lines"] > 0 for v in det.values()),
    }
    ob = os.path.join(path, "obsolete")
    if os.path.exists(ob):
        meta["obsolete"] = clean(open(ob).read(), 900)
    json.dump(meta, open(os.path.join(path, "meta.json"), "w"), indent=1, ensure_ascii=False)
    print(d, "detected" if meta["detected"] else "NOT DETECTED", "| needs:", clean(meta["needs"], 80))
