#!/usr/bin/env python3
"""Regenerates /verif/MANIFEST.json from the table below (one entry per claimed
property) and validates it against the schema. Properties without an entry are
listed under not_applicable with the reason given in NOT_CLAIMED."""
import json, subprocess, sys

ALL = ["C%02d" % i for i in range(1, 21)]

# id -> (category, design_ref, technique, level text, level note)
CHECKS = {
 "C16": ("exploration", "DESIGN.md 11/C16",
  "reference-model monitor (independent AGL implementation over pinned tables), exhaustive enumeration of the finite spaces",
  "Runs names.FromUnicode/ToUnicode/IsValid from the current tree on every Unicode scalar value, every glyph-list, dingbats and AGLFN entry, every uniXXXX/uXXXX BMP name with malformed relatives, boundary u-forms, and seeded random composites and strings; each result is compared with an independent implementation of the AGL specification over pinned tables. The enumerated parts are complete (exhaustive=true); random parts are exploration.",
  "Trusted: the pinned tables under /verif/refdata and harness/ref/agl.go. Two deliberate upstream re-mappings (Tcommaaccent, tcommaaccent) are carried as known findings keyed by the exact call."),
 "C02": ("exploration", "DESIGN.md 11/C02",
  "reference-model monitor: independent PLRM evaluator + state-graph comparison (values and sharing), bounded-exhaustive operand tuples plus model-guided random programs",
  "Every operand tuple of length 0..max(2,arity) from a 47-object pool (integers at 0, +-1, +-2^31, 2^53, 2^53+1, min/max int; reals; strings, arrays and dictionaries including shared ones and sub-intervals) is applied to each of 44 data operators in a fresh interpreter; the final operand stack, dictionary stack, userdict, FontDirectory, resource categories and (for the empty-tuple cases) systemdict are compared as graphs with sharing against an independent evaluator written from the PLRM, or the error name against the evaluator's set of acceptable names. Seeded random programs (5-80 tokens) and pinned regression programs add multi-step aliasing situations.",
  "Trusted: harness/ref/pseval.go (independent of the library; returns sets of acceptable outcomes where the PLRM leaves a choice) and the pinned StandardEncoding table. Operand/operator combinations the minimal interpreter documents as unimplemented are counted and not asserted. State after an error is not compared."),
 "C03": ("exploration", "DESIGN.md 11/C03",
  "reference-model monitor with unique-value execution traces on the operand stack; residual-nesting invariant through the step hook",
  "Generated programs nest exec/if/ifelse/for/repeat/forall/loop with exit and stop at arbitrary points, definitions and redefinitions, dictionary shadowing, and bind before/after operator redefinition; every body pushes literals unique in the program, so the final operand stack is an execution trace that is compared (as a state graph) with the independent evaluator's. A procedure literal is placed at every position of bodies of length 1-4 in every execution context, every operand tuple from a 14-object pool is applied to the seven control operators, and after each program one further operation is executed on the same interpreter while the step hook checks that no execution nesting, open procedure body or error level is left behind.",
  "Trusted: harness/ref/pseval.go. Programs beyond generous nesting/stack bounds belong to C11 and are not asserted here. forall over dictionaries only with single entries (enumeration order is unspecified)."),
 "C11": ("exploration", "DESIGN.md 11/C11",
  "invariant hook on every operation + differential runs at every budget cut point; runaway shapes with hook-observed peaks; exhaustive two-byte start-check prefixes",
  "For each program (pinned and generated, up to 3000 operations) the unbudgeted run is traced through the step hook, then the program is re-run in a fresh interpreter for every budget N in 1..ops+2: the error must be ErrExecutionLimitExceeded exactly when N < ops, the counter exactly N+1 at return and never above N+1 at any hook call, the per-step trace a prefix of the unbudgeted trace, and with a sufficient budget the error, counter and full state digest equal the unbudgeted run's. 36 runaway shapes (pushing loops, recursion through names/exec/if/for/forall/loop/repeat, self-stored procedures, exec chains, begin loops, failing and looping error handlers, oversized array/string/dict requests) must end with the prescribed error name with hook-observed peaks below generous caps. All 65536 two-byte prefixes and short inputs are run with CheckStart set.",
  "Trusted: the verif-tagged hook reports every counter value before the budget comparison. Caps are generous (10^4/10^3/10^3), not the implementation's constants. Wall-clock is never a verdict; a worker without any hook/reader progress for the watchdog window is re-run alone before a hang is reported."),
 "C04": ("exploration", "DESIGN.md 11/C04",
  "reference-model monitor where the generator is the model: object sequence x independent spelling x independent separator, compared with the procedure the library builds; DSC list compared; serialisations read back",
  "The generator draws an object sequence, then independently a spelling for each object (number bases and exponent forms, per-byte escape choice, balanced raw parentheses, continuations, raw CR/LF/CRLF, hex and ASCII85 strings with interior white space, odd digit counts and every tail length) and a separator for each gap (every white-space character, CRLF, comments ended by LF, CR, CRLF or FF, or nothing where delimiters allow), with DSC lines and %%+ continuations at column 0. `{ tokens }` is executed and the pushed procedure is compared element by element (type and value, nested) with the drawn objects, Interpreter.DSC with the drawn (key, value) list. All 256 byte values are run through each string flavour, every near-number and radix base is enumerated, and String.PS()/Name.PS() outputs are read back.",
  "Trusted: ref.ParseNumber (PLRM 3.2.2) for classifying bare tokens; strconv.ParseFloat as correctly rounded decimal conversion. 27 control bytes that the library treats as white space (the PLRM does not) are carried as known findings keyed by the exact input and kept out of the random generator."),
 "C05": ("exploration", "DESIGN.md 11/C05",
  "differential monitor (library vs library) with an independent encryptor: encrypted file against the hand-fed plaintext, full state digest comparison",
  "Plaintext programs (generated control-flow and data programs plus `n RD <n arbitrary bytes>` definitions read through the decrypting scanner, optionally leaving dictionaries open) are encrypted by the harness's own Type 1 cipher with random legal 4-byte prefixes and written as binary or as hex (lower/upper/mixed case, white space at any position after the first four digits, any line width), after any white-space run following `eexec`, with or without `currentfile closefile`, with trailers (512 zeros + cleartomark, clear tokens, a second encrypted section). One interpreter executes the file; a second one executes the clear prefix, gets systemdict pushed, executes the plaintext, gets the dictionary stack cut back and executes the trailer. Error outcome and complete state digests (stacks, all dictionaries, sharing, binary strings byte-exact) must agree.",
  "Trusted: harness/ref/cipher.go. Equivalence of one Execute call with several consecutive calls is C12's subject and assumed here. Exactly one white-space byte after closefile belongs to the section; plaintexts containing `stop` or exhausting the budget are not compared."),
 "C09": ("exploration", "DESIGN.md 11/C09",
  "round-trip monitor: Read(Write(F)) compared field by field with F, all four formats, seeded fonts over the writable domain",
  "Generated fonts (1-300 glyphs, names over regular characters including bytes >= 0x80 and number/operator look-alikes, integer advance widths including vertical ones, well-formed contours with integer or fractional coordinates including every h/v-specialised curve shape and near misses of the writer's 1e-6 tests, stems, info strings over all byte values, FontMatrix and Private value classes, encodings absent / standard / subsets of standard / permutations / repeated and missing names / partial, creation times in several kinds of zone) are written in PFA, PFB, binary and no-eexec form and read back; glyph set, outlines (exact for all-integer glyphs, 0.005 otherwise), widths, stems, the name at each code, strings byte for byte, matrix, private values and creation instant are compared.",
  "Fonts contain .notdef; BlueScale within 2e-6 of the default is left to C10. Eight glyph names that the CharStrings idiom itself looks up (RD ND def end string exch readstring pop) are carried as known findings through pinned cases and kept out of the random generator."),
 "C19": ("exploration", "DESIGN.md 11/C19",
  "reference-model monitor: every query method compared with a direct re-computation from its definition over seeded font and metrics values",
  "For generated type1.Font and afm.Metrics values (with and without .notdef, empty and closepath-only glyphs, boxes that are legitimately zero, encodings absent / partial / with repeated names / naming missing glyphs, axis-aligned font matrices with negative and non-uniform scales and translations) NumGlyphs, GlyphList (each glyph once, .notdef first, encoded glyphs in code order under a greedy feasibility check, the rest in byte-wise name order, length = count), Glyph.BBox, GlyphBBoxPDF, FontBBox, FontBBoxPDF, GlyphWidthPDF and WidthsMapPDF are evaluated for every present and several absent names and compared with an independent re-computation.",
  "Matrix products are compared with 1e-9 relative tolerance. A box equal to [0 0 0 0] counts as empty, as the property defines."),
 "C07": ("exploration", "DESIGN.md 11/C07",
  "reference-model monitor: model CMap -> independent writer of the standard file form -> ReadCMap, table-by-table permutation and sortedness check; single-fault variants must be rejected",
  "Model CMaps with any number of blocks of the seven kinds in random order (repeated kinds adjacent and interleaved, 0-100 entries, code lengths 1-4 mixed, destinations of every allowed type, optional usecmap and WMode, several CMaps per file) are written by an independent writer with layout noise; ReadCMap's dictionary must carry the file's name, system info, type and writing mode, and each table of its *CMapInfo must be a permutation of the file's entries that is sorted by source code (code-space ranges by length then code). Every single-fault variant (101 declared entries, declared count one larger than supplied, wrong destination type per kind, bounds of unequal length, reversed range, missing begincmap) must return an error.",
  "Which of several CMaps in a file is returned is C17's clause; C07 compares the returned one against the model of that name."),
 "C17": ("exploration", "DESIGN.md 11/C17",
  "repeated-execution monitor: digest equality across repeats in one process and across fresh child processes (new hash seeds)",
  "Values with many entries in every map the code iterates (fonts with 50-500 glyphs, metrics with several ligatures on many glyphs, CMap files defining 2-6 CMaps registered under shuffled keys with present, missing or shared /CMapName) are pushed through every writer (Font.Write in four formats, WritePDF, Metrics.Write) and reader (type1.Read, afm.Read, ReadCMap, GlyphList) 12-30 times inside one process and once in each of 4-10 freshly started child processes; all digests must agree.",
  "Digests iterate over sorted keys only. A difference needs at least two entries in some iterated map; value sizes are chosen so that every such map has many."),
 "C14": ("exploration", "DESIGN.md 11/C14",
  "reference-model monitor (expected-output function over segment lists) with caller-buffer and delivery schedule injection at the io.Reader boundary",
  "Segment lists (text/binary in any order, lengths 0-3000 including runs of empty segments, with end marker, without, with garbage after it) are framed by the harness and decoded through pfb.Decode under caller buffer plans (1, 2, 3, 5, 7, 512, 4096, seeded mixes of odd, even and zero sizes) and underlying delivery plans (all at once, single bytes, seeded chunk sizes, data returned together with EOF); the concatenated output must equal text verbatim / binary as lower-case hex, every Read must fill its buffer unless the stream ends, all 65536 first-two-byte headers (and bad headers mid-stream) must give ErrInvalidPFB exactly when marker or type are wrong, and a binary segment truncated at any position must end with an error under every plan.",
  "A clean io.EOF is the normal end-of-stream indication, so it does not count as 'an error'. Truncated text segments and truncated headers are not asserted (the property does not state them)."),
 "C15": ("exploration", "DESIGN.md 11/C15",
  "round-trip monitor plus independent writer (layout variation) plus two-cycle closure on reader-accepted texts",
  "(1) Metrics values in the representable domain are written and read back and must be equal in every glyph's width, box and ligature map, the code of each glyph, the kerning list in order and all header fields including Version and Notice. (2) The same values are written by an independent AFM writer with other spacing, field order inside C lines, header order, comment/blank lines and LF or CRLF line ends and must read as the same value. (3) AFM-like texts (fractional and out-of-range numbers, duplicate glyphs and codes, missing fields, junk, dropped and duplicated lines) that the reader accepts are cycled twice: all names and text fields equal after the first cycle, every number changed by less than 1, and the second cycle changes nothing.",
  "Bare CR line ends are not generated (the AFM specification's wording is arguable). Texts yielding non-finite or >= 2^53 numbers are counted and skipped in clause 3."),
 "C20": ("exploration", "DESIGN.md 11/C20",
  "reference-model monitor: an independent Type 1 reader and charstring decoder inspects every number token (value, encoded form) and the absolute path of charstrings the library wrote; exhaustive over -70000..70000 and all format boundaries",
  "Fonts whose glyph paths sweep the value ranges are written by the library and decoded by the harness's own reader (tokenizer + evaluator + ciphers + charstring decoder written from the Type 1 book). Every integer in -70000..70000, every number-format boundary and power of two +-3 up to 2^31 and the int32 extremes are used as coordinate deltas in every operand slot of the move, line and three curve commands, as advance widths (hsbw and sbw) and as stem values; each integer token must be in the form its range prescribes and decode to the requested value (all-integer glyphs exact). Fractional deltas (all k/q for q <= 107, near-integers, midpoints between neighbouring fractions, values just inside the bound) must appear as `p q div` with integer operands, and the absolute position of every point of paths with up to 1500/10000 fractional segments must stay within 1/214 of the request, for the independent decoder and for type1.Read alike.",
  "Trusted: harness/ref. Values between the enumerated ranges are sampled (32-bit), not exhausted."),
 "C08": ("exploration", "DESIGN.md 11/C08",
  "reference-model monitor: independent strict Type 1 reader (PFB de-framing, own PostScript tokenizer/evaluator, ciphers, charstring decoder) over all five output forms; byte-level clauses read off the output",
  "Every output of Font.Write (PFA, PFB, binary, no-eexec) and Font.WritePDF for generated fonts is read by a decoder that shares no code or constants with the library: strict PFB framing (80 01|02 len32le segments adding up exactly, 80 03 with nothing after), eexec with 55665/52845/22719 and exactly four lead bytes, charstrings with 4330 and lenIV lead bytes, numbers and commands from the Type 1 book's tables, the font program itself executed by the harness's PostScript evaluator. Glyph set, absolute outlines, integer widths, stems, number forms, the glyph selected at each code, FontName, FontInfo, FontMatrix and Private entries (Type 1 defaults for absent keys) are compared with the font value; binary ciphertext must start with a non-white-space byte and have a non-hex byte among the first four; WritePDF's two lengths must be exactly the clear-text (ending in `eexec` + one white-space byte) and ciphertext sizes.",
  "Trusted: harness/ref. A change made consistently to the library's reader and writer (invisible to every round-trip test) is visible here because the reference decoder does not share it."),
 "C06": ("exploration", "DESIGN.md 11/C06 and section 10",
  "reference-model monitor: model font -> independent Type 1 writer with independently drawn layout choices -> type1.Read, field-by-field comparison; writer and independent reader cross-checked on every case",
  "Model fonts (glyph sets with .notdef, contours of moves, lines and curves with integer or rational coordinates, non-zero side bearings, sbw, stems, stem3, hint replacement, dotsection, flex after a move, a line or a curve, seac composites, info strings over all bytes, FontMatrix/Private present or absent, four creation-date layouts) are written by an independent writer in every container (PFA with any hex layout, binary eexec, PFB with any segment split, unencrypted), with lenIV in {0,1,2,3,4,5,8,16}, RD/ND/NP or -| |- |, StandardEncoding or an explicit array, general or h/v-specialised commands, shortest or 5-byte numbers, rationals as `p q div`, arbitrary command runs (including whole charstrings) factored into nested subroutines, access decorations and Adobe-style OtherSubrs code. type1.Read's font is compared with the model in glyph set, absolute outlines (exact for integers, 1e-9 for rationals), widths, stems, the 256 encoding entries, FontInfo, FontMatrix, Private values with defaults, and creation date. Each generated file is first read by the harness's independent reader, which must see the model (self-check of the writer).",
  "Domain restrictions of DESIGN.md section 10: composites with asb = sbx(accent) = sbx(composite) and the base's width, only in StandardEncoding fonts; stem3 not mixed with other stems of that direction; stems not compared for glyphs with hint replacement and for composites."),
 "C10": ("exploration", "DESIGN.md 11/C10",
  "round-trip / idempotence monitor over reader-accepted inputs produced by the independent writer: F1~F2 under the documented tolerances, F2==F3 exactly, in all four formats",
  "Inputs come from the independent Type 1 writer (not from the library's writer) with unusual but legal content - fractional widths and side bearings, sbw, staircases of equal fractional steps, absent FontName, fonts without .notdef, the empty glyph name, unusual regular characters in names, encodings naming absent glyphs, empty strings, version strings with line ends, % and parentheses, every accepted date layout and unparsable dates, real-valued or malformed Private entries, huge and tiny finite numbers, BlueScale within 1e-6 of its default - plus structure-aware mutations of the clear text. For every input type1.Read accepts, Write must succeed without panic or error in each format, Read(Write(F1)) must equal F1 up to widths rounded to integers, coordinates within 1/214 and BlueScale snapped to the default, and a second write/read cycle must change nothing at all.",
  "Inputs whose F1 contains NaN/Inf are skipped. The exact boundary of the BlueScale snap (|x - 0.039625| = 1e-6) is not asserted."),
 "C12": ("exploration", "DESIGN.md 11/C12",
  "I/O-boundary schedule injection (plan readers with logged calls) + differential comparison against the one-read result; multi-call differential on one interpreter",
  "For inputs of all five entry points (programs with eexec sections and readstring data at every phase of the 512-byte refill, CMap files, fonts in all containers from both writers, AFM files, PFB streams, a quarter of them with content errors) the public call is repeated under delivery plans - single bytes, every two-chunk split position (all positions for small inputs, else around multiples of 512, the eexec start and every PFB header, plus random ones), seeded chunk sequences, data returned together with EOF, seekable sources for type1.Read - and the canonical result digest and error text must equal the one-read result; the reader log shows how many calls each plan produced. Generated programs are also cut at 1-5 token boundaries (including inside unfinished procedure bodies and around DSC lines) and fed through consecutive Execute calls of one interpreter: final state digest, NumOps and DSC must equal the single-call run.",
  "Programs containing `stop` are excluded from the multi-call clause (stop ends the whole program of one call but only one call of several)."),
 "C13": ("fault_enumeration", "DESIGN.md 11/C13",
  "I/O-boundary fault injection: every read offset, every prefix, every write-call index and byte offsets, with delivery of each fault logged",
  "For each input file of the five entry points a read fault is injected after every byte offset 0..len, as an error alone and as an error returned together with the last good bytes (for the latter a companion run with the same bytes and a clean end decides whether the library ever runs out of the delivered data), plus failing Seek calls for type1.Read; every prefix of font and CMap files is read and must give an error or the result of the whole file. For each font and metrics value and each output (Font.Write in four formats, WritePDF, Metrics.Write) a counting pass measures the write calls and bytes, then every call index fails (one-shot and sticky) and short writes are injected at byte offsets. A fault that reached the library must come back as a non-nil error; a panic is a violation.",
  "Faults the library never asked for (it had legitimately stopped reading: stop, end marker) are counted separately and assert nothing. Quick tier strides the short-write offsets beyond 2 KiB (every offset in thorough)."),
 "C18": ("exploration", "DESIGN.md 11/C18",
  "Go race detector over a repeated concurrent workload in fresh processes + per-call equality with sequential results; isolation probe battery after hostile histories",
  "The worker is built with -race. Isolation: seeded histories of hostile programs (overwriting every systemdict key, all StandardEncoding slots, every CIDInit procedure and errordict handler, polluting FontDirectory, resource categories and internaldict, leaving dictionary stacks unbalanced, failing half-way by type error, budget, syntax error or read fault; fed through Execute, ReadCMap and type1.Read) are followed by a fixed battery of about 80 probe calls whose digests must equal those of the pristine process. Races: fresh child processes each start 16 goroutines from a barrier; each runs 30-60 seeded calls mixing interpreter runs in own instances, ReadCMap, type1.Read on four containers, afm.Read, all writers on shared font/metrics values and the name functions, the first call of every goroutine aimed at one of the three lazily built name tables. WARNING: DATA RACE blocks are counted in the detector's log files (exit codes are not trusted) and deduplicated by the pair of innermost library frames; each concurrent result must equal the sequential result of the same call.",
  "The race detector reports races on the executions it sees; linearizability checking is not applicable (the only shared object is a write-once table of pure functions, so per-call equality with the sequential result is the whole check)."),
 "C01": ("exploration", "DESIGN.md 11/C01",
  "Go runtime checks (bounds, nil, makeslice, stack limit, out of memory) observed from a supervisor: recovered panics per case, worker deaths attributed through write-ahead case logs, no-progress monitor fed by the step hook and reader events",
  "Hostile inputs are generated below the encryption layers and wrapped into valid containers: every operator found at run time in systemdict and the CIDInit procedure set applied to every operand tuple of length 0-3 from a hostile pool; runaway, self-referential and deeply nested programs through Execute, ReadCMap and type1.Read; fonts in all containers with random charstrings over the whole opcode table, every callothersubr (index,count), self/mutual/chained subroutine calls, seac with wild codes, lenIV from min int to max int, charstrings shorter than lenIV, every extracted dictionary key replaced by hostile values or removed, zero/two fonts; hostile programs and dictionary-stack games inside eexec sections; PFB streams with hostile types and length fields; AFM grammar fuzz; CMap files with hostile counts, order and operand types; byte-level mutations of valid files of all five kinds. The only demand is that the call returns: a recovered panic, a worker death (stack exhaustion, a single absurd allocation) or a confirmed hang is a violation.",
  "Workers run with a 64 MiB goroutine-stack limit and a 16 GiB address-space limit so that runaway recursion and absurd requests die quickly. A hang is only reported when no interpreter step and no reader call was seen for the whole window in the shard and again when the case is re-run alone; otherwise the case is inconclusive."),
}

NOT_CLAIMED = {}
DEFAULT_REASON = "check not built yet in this round (runtime monitoring applies; see DESIGN.md section 11) - not claimed until its monitor exists and is silent on the unchanged tree"

def main():
    checks = []
    for pid in ALL:
        if pid not in CHECKS:
            continue
        cat, ref, tech, text, note = CHECKS[pid]
        checks.append({
            "property_id": pid,
            "quick_cmd": "./check %s quick" % pid,
            "thorough_cmd": "./check %s thorough" % pid,
            "evidence_file": "/verif/evidence/%s.json" % pid,
            "replay_cmd_template": "./check %s --replay {path}" % pid,
            "engine": "harness",
            "level_claimed": {"category": cat, "text": text, "design_ref": ref},
            "level_note": note,
            "technique": tech,
        })
    hooks = subprocess.run(["git", "-C", "/repo", "log", "--format=%h %s"], capture_output=True, text=True).stdout.splitlines()
    hook_commits = [l.split()[0] for l in hooks if l.split(" ", 1)[1].startswith("verif hook")]
    m = {
        "version": 1,
        "setup_cmd": "./setup.sh",
        "hooks": {
            "guard": "verif",
            "enable": "go build -tags verif (the harness module replaces seehuhn.de/go/postscript with /repo, so every check compiles /repo's current working tree)",
            "baseline_off_cmd": "cd /repo && GOFLAGS=-mod=mod GOPROXY=off GOSUMDB=off GOTOOLCHAIN=local go test -json -vet=off -count=1 -timeout 25m ./...",
            "source_commits": hook_commits,
            "add_only": True,
        },
        "engines": [{
            "name": "harness",
            "path": "/verif/harness",
            "serves_properties": [c["property_id"] for c in checks],
            "kind_free_text": "runtime monitoring: supervisor spawning worker processes that link the library built from /repo (tag verif); reference-model monitors, I/O-boundary fault/schedule injectors, step-hook invariants, race detector",
        }],
        "checks": checks,
        "not_applicable": [{"property_id": p, "reason": NOT_CLAIMED.get(p, DEFAULT_REASON)} for p in ALL if p not in CHECKS],
        "notes": "Technique family: runtime monitoring and sanitizers. ./check <id> <tier> builds the worker from /repo's current tree, runs 16 shards, writes /verif/evidence/<id>.json and prints VIOLATION / KNOWN-FINDING / INCONCLUSIVE lines. Known findings: /verif/known-findings.json.",
    }
    json.dump(m, open("/verif/MANIFEST.json", "w"), indent=1)
    open("/verif/MANIFEST.json", "a").write("\n")
    try:
        import jsonschema
        jsonschema.validate(m, json.load(open("/root/.vp/MANIFEST.schema.json")))
        print("MANIFEST.json valid;", len(checks), "checks,", len(m["not_applicable"]), "not claimed")
    except ImportError:
        print("jsonschema not available; not validated")

if __name__ == "__main__":
    main()
