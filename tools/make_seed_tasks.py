#!/usr/bin/env python3
"""tools/make_seed_tasks.py <round-dir> - create <round-dir>/<Cnn>/{wt,out/a,out/b,TASK.md} for a seeding
round: a scratch worktree of /repo's HEAD per property and a task text that gives the agent the
property, the one-line summaries of all earlier changes for it and what the tests contain by now.
Nothing from /verif is visible to the agents except what this text quotes. Not a registered command."""
import sys
RD = sys.argv[1]
import json,glob,os,subprocess,re
prior={}
for d in sorted(glob.glob('/verif/seeded/*/meta.json')):
    m=json.load(open(d))
    if 'property' not in m: continue
    w=m['what'][:230].replace('\n',' ')
    prior.setdefault(m['property'],[]).append(w)
head=subprocess.check_output(['git','-C','/repo','rev-parse','HEAD']).decode().strip()
for l in open('/verif/properties.jsonl'):
    p=json.loads(l); pid=p['id']
    base=RD+f'/{pid}'
    os.makedirs(base+'/out/a',exist_ok=True); os.makedirs(base+'/out/b',exist_ok=True)
    wt=base+'/wt'
    if not os.path.isdir(wt):
        subprocess.check_call(['git','-C','/repo','worktree','add','--detach',wt,head],stdout=subprocess.DEVNULL,stderr=subprocess.DEVNULL)
    prop={k:p[k] for k in ('id','title','statement','quantifier','why_tests_cant','anchors')}
    t=f"""# Task: write two code changes that break one semantic property of a Go library

The library is seehuhn/go-postscript (module `seehuhn.de/go/postscript`): a minimal PostScript
interpreter for reading Type 1 fonts and CMaps, plus Type 1, AFM, PFB and eexec readers and writers.
You have your own scratch git worktree of it at `{wt}` (detached HEAD; work only there and in
`{base}/out`). Do not read or write anything under /repo or /verif. There is no network.
Every shell call needs: `export GOFLAGS=-mod=mod GOPROXY=off GOSUMDB=off GOTOOLCHAIN=local`.
Run every test command under `timeout` (e.g. `timeout 600 go test ...`). The machine is shared and busy:
be patient with slow commands, do not run anything in parallel, and never use `pkill`/`killall` (other
people's processes have similar names).

## The property (this is all you are given)

```json
{json.dumps(prop,indent=1)}
```

The property is believed to HOLD on the worktree as it is.

## What to produce

Two *independent* changes to the library source (call them `a` and `b`), each of which

1. still compiles, and the repository's whole test suite still passes with it
   (`cd {wt} && timeout 900 go test -vet=off -count=1 ./...`);
2. makes the property FALSE for some input / schedule / history / sequence of calls that lies INSIDE the
   property's statement and quantifier (read both carefully: a break that only shows for inputs the
   statement excludes does not count);
3. is realistic: the kind of thing a refactoring, an optimisation, a "hardening", a new small feature, a
   dependency-style clean-up or a careless patch produces, a few lines, plausible in a code review - not
   sabotage, not a special case on a magic input;
4. needs something SPECIFIC to manifest, and is HARD TO FIND for someone who tests this property
   thoroughly. Sixteen changes have already been made against this property by other people (listed
   below), and after each of them the property's tests were extended to catch it and everything like it.
   The tests now include: exhaustive sweeps of small spaces; randomised structured generation checked
   against independent reference implementations; every delivery schedule and fault position, one-shot
   and persistent faults, error values of several kinds; histories of several calls on one object and in
   one process; fresh processes, concurrent first use, the race detector; results that are written into
   by the caller; canaries on the library's exported tables; inputs of tens of megabytes and millions of
   elements; behaviour at and next to every documented limit; all line-end styles and number spellings;
   names in UTF-8 and Latin-1; coordinates from 1e-7 to 2e9 and -0/NaN; long chains of composites and
   subroutines; data structures millions of levels deep; every operator found at run time called and probed;
   sources that stall, that are nested decoders, or that are any reader type of the standard library;
   destinations with a Close method; values at the wrap-around points of 16-, 32- and 64-bit arithmetic;
   dictionaries modified after they were registered; indented, tagged and zero-valued AFM data;
   dates relative to the wall clock; every Unicode character as a name.
   So: read the statement clause by clause and look for a clause, an entry point, a type, a code path or a
   combination that none of the listed changes touches; prefer source files and functions that none of
   them touches; prefer conditions that are conjunctions of two or three individually ordinary facts.
   Before settling on a change, ask yourself which generic test would find it, and if the answer is
   "any randomised round trip" or "any exhaustive sweep of a small space", pick something else.
5. comes with a demonstration: one Go test file (package of the directory it goes into; name the test
   `TestDemo...`) that FAILS with the change and PASSES without it, using only the library's public API
   where possible (an in-package test may use unexported identifiers if needed).

The two changes must differ from each other in mechanism, and from these earlier changes:

""" + "\n".join(f"- {w}" for w in prior.get(pid,[])) + f"""

## Deliverables (exact paths)

For change `a`: `{base}/out/a/patch.diff` (output of `git diff` in the worktree with ONLY change a applied
and WITHOUT the demo file), `{base}/out/a/demo_test.go` (first line a comment saying which package
directory it belongs in, e.g. `// place in: type1/`), `{base}/out/a/notes.md` (what the change is, which
clause of the property it breaks, what it needs in order to manifest, exact commands you ran and their
results). The same under `{base}/out/b/` for change `b`. Write notes.md LAST, when patch.diff and
demo_test.go are final.

Before you finish, verify for EACH change, in the worktree, starting from a clean tree
(`git checkout -- . && git clean -fdq`):
- demo passes on the clean tree;  - `git apply patch.diff` works;  - whole suite passes with the patch (without the demo);
- demo fails with the patch.
Leave the worktree clean at the end (`git checkout -- . && git clean -fdq`). Your final message: two short
paragraphs (one per change) saying what it is and what it needs to manifest. If, while reading the code,
you notice an input for which the UNMODIFIED library already violates the property, say so in a third
paragraph (with the input), but do not count it as one of your two changes.
"""
    open(base+'/TASK.md','w').write(t)
print(len(os.listdir(RD)), len(prior['C03']))
