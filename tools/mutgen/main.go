// mutgen - a small AST-level mutation generator for Go sources. Not part of
// any registered command: it is used (tools/mutsweep.sh) to look for realistic
// small changes of the library which neither the repository's tests nor the
// checks in /verif notice, so that the checks can be strengthened.
//
//	mutgen count <file.go>          number of mutation sites
//	mutgen apply <file.go> <k>      rewrite the file with mutation k applied; prints a description
package main

import (
	"bytes"
	"fmt"
	"go/ast"
	"go/format"
	"go/parser"
	"go/token"
	"os"
	"strconv"
)

type site struct {
	desc  string
	apply func()
}

var swaps = map[token.Token][]token.Token{
	token.LSS: {token.LEQ}, token.LEQ: {token.LSS}, token.GTR: {token.GEQ}, token.GEQ: {token.GTR},
	token.EQL: {token.NEQ}, token.NEQ: {token.EQL}, token.LAND: {token.LOR}, token.LOR: {token.LAND},
	token.ADD: {token.SUB}, token.SUB: {token.ADD}, token.MUL: {token.QUO}, token.SHL: {token.SHR}, token.SHR: {token.SHL},
	token.AND: {token.OR}, token.OR: {token.AND},
}

func endsInJump(b *ast.BlockStmt) bool {
	if b == nil || len(b.List) == 0 {
		return false
	}
	switch s := b.List[len(b.List)-1].(type) {
	case *ast.ReturnStmt:
		return true
	case *ast.BranchStmt:
		return s.Tok == token.CONTINUE || s.Tok == token.BREAK
	}
	return false
}

func collect(fset *token.FileSet, f *ast.File) []site {
	var out []site
	pos := func(n ast.Node) string { p := fset.Position(n.Pos()); return fmt.Sprintf("%d:%d", p.Line, p.Column) }
	ast.Inspect(f, func(n ast.Node) bool {
		switch x := n.(type) {
		case *ast.GenDecl:
			if x.Tok == token.IMPORT {
				return false
			}
		case *ast.BinaryExpr:
			for _, to := range swaps[x.Op] {
				x, from, to := x, x.Op, to
				out = append(out, site{fmt.Sprintf("%s: %s -> %s", pos(x), from, to), func() { x.Op = to }})
			}
		case *ast.BasicLit:
			if x.Kind == token.INT {
				if v, err := strconv.ParseInt(x.Value, 0, 64); err == nil {
					x, v := x, v
					out = append(out, site{fmt.Sprintf("%s: constant %s -> %d", pos(x), x.Value, v+1), func() { x.Value = strconv.FormatInt(v+1, 10) }})
					if v > 0 {
						out = append(out, site{fmt.Sprintf("%s: constant %s -> %d", pos(x), x.Value, v-1), func() { x.Value = strconv.FormatInt(v-1, 10) }})
					}
				}
			}
		case *ast.IfStmt:
			if endsInJump(x.Body) && x.Init == nil {
				out = append(out, site{fmt.Sprintf("%s: guard dropped (condition -> false)", pos(x)), func() { x.Cond = ast.NewIdent("false") }})
			}
		case *ast.IncDecStmt:
			out = append(out, site{fmt.Sprintf("%s: ++/-- swapped", pos(x)), func() {
				if x.Tok == token.INC {
					x.Tok = token.DEC
				} else {
					x.Tok = token.INC
				}
			}})
		case *ast.AssignStmt:
			switch x.Tok {
			case token.ADD_ASSIGN:
				out = append(out, site{fmt.Sprintf("%s: += -> -=", pos(x)), func() { x.Tok = token.SUB_ASSIGN }})
			case token.SUB_ASSIGN:
				out = append(out, site{fmt.Sprintf("%s: -= -> +=", pos(x)), func() { x.Tok = token.ADD_ASSIGN }})
			}
		case *ast.Ident:
			if x.Name == "true" || x.Name == "false" {
				out = append(out, site{fmt.Sprintf("%s: %s flipped", pos(x), x.Name), func() {
					if x.Name == "true" {
						x.Name = "false"
					} else {
						x.Name = "true"
					}
				}})
			}
		case *ast.ExprStmt:
			// a call statement whose result is unused and which is not the only statement: drop it
			if _, ok := x.X.(*ast.CallExpr); ok {
				out = append(out, site{fmt.Sprintf("%s: call statement dropped", pos(x)), func() { x.X = &ast.CallExpr{Fun: &ast.FuncLit{Type: &ast.FuncType{Params: &ast.FieldList{}}, Body: &ast.BlockStmt{}}} }})
			}
		}
		return true
	})
	return out
}

func main() {
	if len(os.Args) < 3 {
		fmt.Fprintln(os.Stderr, "usage: mutgen count <file> | mutgen apply <file> <k>")
		os.Exit(2)
	}
	fset := token.NewFileSet()
	f, err := parser.ParseFile(fset, os.Args[2], nil, parser.ParseComments)
	if err != nil {
		fmt.Fprintln(os.Stderr, err)
		os.Exit(2)
	}
	sites := collect(fset, f)
	switch os.Args[1] {
	case "count":
		fmt.Println(len(sites))
	case "list":
		for i, s := range sites {
			fmt.Printf("%d\t%s\n", i, s.desc)
		}
	case "apply":
		k, _ := strconv.Atoi(os.Args[3])
		if k < 0 || k >= len(sites) {
			fmt.Fprintln(os.Stderr, "no such site")
			os.Exit(2)
		}
		sites[k].apply()
		var buf bytes.Buffer
		if err := format.Node(&buf, fset, f); err != nil {
			fmt.Fprintln(os.Stderr, err)
			os.Exit(2)
		}
		if err := os.WriteFile(os.Args[2], buf.Bytes(), 0o644); err != nil {
			fmt.Fprintln(os.Stderr, err)
			os.Exit(2)
		}
		fmt.Println(sites[k].desc)
	}
}
