#!/usr/bin/env python3
"""tools/mutsweep.py - systematic small mutations of the library, run against the
repository suite and the quick checks, in SCRATCH COPIES of /repo and /verif
(never in /repo or /verif themselves). Not part of any registered command: it is
a way of finding changes that neither the tests nor the checks notice, so that
the checks can be strengthened (DESIGN.md section 16).

  mutsweep.py setup                      create /tmp/mv/repo (worktree of /repo HEAD) and /tmp/mv/verif (copy of /verif)
  mutsweep.py run <stride> <offset> [file ...]   mutate every <stride>-th site starting at <offset>; log to /verif/.work/mutsweep.jsonl
  mutsweep.py teardown
"""
import json, os, subprocess, sys, time, shutil

MV = "/tmp/mv"
REPO = MV + "/repo"
VERIF = MV + "/verif"
ENV = dict(os.environ, GOFLAGS="-mod=mod", GOPROXY="off", GOSUMDB="off", GOTOOLCHAIN="local")
LOG = "/verif/.work/mutsweep.jsonl"

# which checks look at which file (quick tier); order = most likely to notice first
CHECKS = {
    "builtin.go": ["C02", "C03", "C11", "C01", "C18"],
    "interpreter.go": ["C03", "C11", "C02", "C12", "C01"],
    "scanner.go": ["C04", "C05", "C12", "C13", "C01"],
    "eexec.go": ["C05", "C12", "C06", "C01"],
    "cmap.go": ["C07", "C01", "C17"],
    "object.go": ["C04", "C09", "C08", "C10"],
    "helpers.go": ["C07", "C02"],
    "error.go": ["C02", "C11"],
    "cid/cid.go": ["C07"],
    "pfb/reader.go": ["C14", "C12", "C13", "C01"],
    "afm/read.go": ["C15", "C17", "C13", "C01"],
    "afm/write.go": ["C15", "C13", "C17"],
    "afm/afm.go": ["C19", "C15"],
    "type1/t1decode.go": ["C06", "C09", "C10", "C01"],
    "type1/t1encode.go": ["C20", "C08", "C09", "C10"],
    "type1/write.go": ["C08", "C09", "C10", "C13", "C20"],
    "type1/read.go": ["C06", "C09", "C10", "C01", "C17"],
    "type1/eexec.go": ["C08", "C09", "C13", "C17"],
    "type1/hex.go": ["C08", "C09", "C13"],
    "type1/font.go": ["C19", "C09"],
    "type1/glyph.go": ["C19", "C09"],
    "type1/peekreader.go": ["C12", "C13", "C06"],
    "type1/names/names.go": ["C16", "C18"],
    "type1/names/valid.go": ["C16"],
    "funit/funit.go": ["C08", "C09", "C20", "C06"],
}


def sh(cmd, cwd=None, timeout=900):
    try:
        p = subprocess.run(cmd, shell=True, cwd=cwd, env=ENV, stdout=subprocess.PIPE, stderr=subprocess.STDOUT, timeout=timeout, text=True, errors="replace")
        return p.returncode, p.stdout
    except subprocess.TimeoutExpired as e:
        return 124, (e.stdout or "") if isinstance(e.stdout, str) else ""


def setup():
    os.makedirs(MV, exist_ok=True)
    if not os.path.isdir(REPO):
        sh(f"git -C /repo worktree add --detach {REPO} HEAD")
    if os.path.isdir(VERIF):
        shutil.rmtree(VERIF)
    sh(f"rsync -a --exclude .git --exclude .work --exclude replay --exclude seeded --exclude harness/bin /verif/ {VERIF}/")
    sh(f"sed -i 's#=> /repo#=> {REPO}#' {VERIF}/harness/go.mod")
    sh(f"sed -i 's#const verifDir = \"/verif\"#const verifDir = \"{VERIF}\"#' {VERIF}/harness/cmd/supervisor/main.go")
    sh(f"sed -i 's#^cd /verif#cd {VERIF}#' {VERIF}/check")
    sh(f"grep -rl '\"/verif' {VERIF}/harness --include=*.go | xargs -r sed -i 's#\"/verif#\"{VERIF}#g'")
    rc, out = sh("go build -o /tmp/mutgen .", cwd="/verif/tools/mutgen")
    print("setup done", rc, out[-300:])


def run(stride, offset, files):
    if not files:
        files = list(CHECKS)
    os.makedirs(os.path.dirname(LOG), exist_ok=True)
    done = set()
    if os.path.exists(LOG):
        for l in open(LOG):
            try:
                r = json.loads(l)
                done.add((r["file"], r["k"]))
            except Exception:
                pass
    for f in files:
        rc, out = sh(f"/tmp/mutgen count {REPO}/{f}")
        n = int(out.strip() or 0)
        for k in range(offset, n, stride):
            if (f, k) in done:
                continue
            sh("git checkout -- . && git clean -fdq", cwd=REPO)
            rc, desc = sh(f"/tmp/mutgen apply {REPO}/{f} {k}")
            rec = {"file": f, "k": k, "desc": desc.strip(), "t": time.strftime("%H:%M:%S")}
            rc, out = sh("go build ./... 2>&1 | tail -3", cwd=REPO, timeout=300)
            if "." in out and ("error" in out or ".go:" in out):
                rec["result"] = "does-not-compile"
            else:
                rc, out = sh("go test -vet=off -count=1 -timeout 120s ./... 2>&1 | grep -E '^(FAIL|---|panic|ok)' | head -20", cwd=REPO, timeout=400)
                if "FAIL" in out or "panic" in out or rc == 124:
                    rec["result"] = "killed-by-suite"
                else:
                    rec["result"] = "survived-checks"
                    rec["checks"] = {}
                    for p in CHECKS[f][:3]:
                        rc, out = sh(f"./check {p} quick 2>&1 | grep -E '^(VIOLATION|RESULT|BUILD-FAILED|INCONCLUSIVE)' | head -4", cwd=VERIF, timeout=1500)
                        rec["checks"][p] = out.strip()[:400]
                        if "VIOLATION" in out:
                            rec["result"] = "detected-by-" + p
                            break
            with open(LOG, "a") as fh:
                fh.write(json.dumps(rec) + "\n")
            print(rec["file"], rec["k"], rec["desc"], "->", rec["result"], flush=True)
    sh("git checkout -- . && git clean -fdq", cwd=REPO)


def teardown():
    sh(f"git -C /repo worktree remove --force {REPO}")
    shutil.rmtree(MV, ignore_errors=True)


if __name__ == "__main__":
    if sys.argv[1] == "setup":
        setup()
    elif sys.argv[1] == "run":
        run(int(sys.argv[2]), int(sys.argv[3]), sys.argv[4:])
    elif sys.argv[1] == "teardown":
        teardown()
