#!/bin/bash
# tools/seed_matrix.sh [<seed-id>...] — for every seeded change: confirm it (suite passes, demo fails/passes) in a
# scratch worktree, then apply it to /repo, run the quick check of its property (plus extra checks named in
# seeded/<id>/also), undo it, and record the outcome in seeded/<id>/detection.txt. Not a registered command.
cd "$(dirname "$0")/.." || exit 2
wt=/tmp/mut/rebase
[ -d "$wt" ] || git -C /repo worktree add --detach "$wt" HEAD >/dev/null 2>&1
ids="$@"; [ -z "$ids" ] && ids=$(ls seeded | grep -E '^(C[0-9]+-m[0-9]+|own-.*)$')
for id in $ids; do
  d=seeded/$id
  prop=$(echo $id | grep -oE 'C[0-9]+' | head -1)
  conf=$(tools/confirm_seed.sh $d $wt 2>&1 | grep RESULT)
  checks="$prop"; [ -f $d/also ] && checks="$checks $(cat $d/also)"
  det=$(MUTCHECK_LINES=3 timeout 1500 tools/mutcheck.sh $d/patch.diff $checks 2>&1 | grep -E '^== |fingerprint' | head -8)
  { echo "confirmed: $conf"; echo "$det"; echo "repo HEAD: $(git -C /repo rev-parse --short HEAD)"; } > $d/detection.txt
  echo "$id: $(echo "$det" | grep '^== ' | tr '\n' ' ')"
done
