#!/bin/bash
# tools/mutcheck.sh <patch.diff> <Cnn> [<Cnn>...]  — apply a seeded change to /repo, run the quick checks, undo it.
# Not part of any registered command. Refuses to run when /repo is dirty.
set -u
patch="$(realpath "$1")"; shift
if [ -n "$(git -C /repo status --porcelain)" ]; then echo "mutcheck: /repo is dirty" >&2; exit 2; fi
if ! git -C /repo apply "$patch" 2>/dev/null; then
  if ! (cd /repo && patch -p1 --no-backup-if-mismatch -s < "$patch"); then echo "mutcheck: patch does not apply" >&2; git -C /repo checkout -- . ; git -C /repo clean -fdq; exit 2; fi
fi
for p in "$@"; do
  out=$(cd /verif && ./check "$p" quick 2>&1)
  rc=$?
  echo "== $p rc=$rc: $(echo "$out" | grep -cE '^VIOLATION') violation line(s); $(echo "$out" | grep -E '^RESULT')"
  echo "$out" | grep -E -A3 '^VIOLATION' | head -${MUTCHECK_LINES:-8}
done
git -C /repo checkout -- . ; git -C /repo clean -fdq
if [ -n "$(git -C /repo status --porcelain)" ]; then echo "mutcheck: /repo still dirty!" >&2; fi
