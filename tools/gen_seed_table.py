#!/usr/bin/env python3
"""tools/gen_seed_table.py - print the markdown table of DESIGN.md section 16
from seeded/*/meta.json. Not a registered command."""
import json, os, re
root = os.path.join(os.path.dirname(os.path.abspath(__file__)), "..", "seeded")
print("| seed | what it breaks | needs | caught by (quick tier, seed 1; first fingerprints) |")
print("|------|----------------|-------|------------------------------------------------------|")
for d in sorted(os.listdir(root)):
    mp = os.path.join(root, d, "meta.json")
    if not os.path.exists(mp):
        continue
    m = json.load(open(mp))
    what = re.sub(r"\s+", " ", m.get("what", ""))
    what = what if len(what) < 170 else what[:169] + "…"
    needs = re.sub(r"\s+", " ", str(m.get("needs", "")))
    needs = needs if len(needs) < 140 else needs[:139] + "…"
    det = m.get("detected_by", {})
    parts = []
    for k, v in det.items():
        if isinstance(v, dict):
            if v.get("exit") == 1 and v.get("violation_lines", 0) > 0:
                fp = (v.get("first_fingerprints") or [""])[0]
                fp = fp if len(fp) < 70 else fp[:69] + "…"
                parts.append(f"**{k}** ({v['violation_lines']} lines; `{fp}`)" if fp else f"**{k}** ({v['violation_lines']} lines)")
            else:
                parts.append(f"{k}: not detected")
        else:
            parts.append(f"{k}: {v}")
    if m.get("obsolete"):
        parts.append("obsolete: " + m["obsolete"][:160] + "…")
    esc = lambda t: t.replace("|", "\\|")
    print(f"| {d} | {esc(what)} | {esc(needs)} | {esc('; '.join(parts))} |")
