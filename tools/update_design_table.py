#!/usr/bin/env python3
"""tools/update_design_table.py - put the output of gen_seed_table.py between
the seed-table markers of DESIGN.md. Not a registered command."""
import os, subprocess, sys
here = os.path.dirname(os.path.abspath(__file__))
p = os.path.join(here, "..", "DESIGN.md")
s = open(p).read()
a, b = "<!-- seed-table-begin -->", "<!-- seed-table-end -->"
i, j = s.index(a) + len(a), s.index(b)
table = subprocess.check_output([sys.executable, os.path.join(here, "gen_seed_table.py")], text=True)
open(p, "w").write(s[:i] + "\n" + table + s[j:])
print("table lines:", table.count("\n"))
